"""Own WebAssembly binary encoder (no wabt in the sandbox).  Deliberately dumb: no optimisation,
fixed section order, canonical (shortest) LEB128.  Encoding *deviations* are applied afterwards by
lib/wasmparse.py on the finished binary (C08)."""
import struct

I32, I64, F32, F64 = 0x7f, 0x7e, 0x7d, 0x7c
TCH = {'i': I32, 'I': I64, 'f': F32, 'F': F64}
TNAME = {I32: 'i32', I64: 'i64', F32: 'f32', F64: 'f64'}
CTYPE = {'i': 'U32', 'I': 'U64', 'f': 'F32', 'F': 'F64'}


def uleb(n):
    assert n >= 0
    out = bytearray()
    while True:
        b = n & 0x7f
        n >>= 7
        if n:
            out.append(b | 0x80)
        else:
            out.append(b)
            return bytes(out)


def sleb(n):
    out = bytearray()
    while True:
        b = n & 0x7f
        n >>= 7
        if (n == 0 and not (b & 0x40)) or (n == -1 and (b & 0x40)):
            out.append(b)
            return bytes(out)
        out.append(b | 0x80)


def s32(v):
    """bit pattern (0..2^32-1) or signed -> signed python int for sleb"""
    v &= 0xffffffff
    return v - (1 << 32) if v & 0x80000000 else v


def s64(v):
    v &= 0xffffffffffffffff
    return v - (1 << 64) if v & (1 << 63) else v


def name(b):
    if isinstance(b, str):
        b = b.encode('utf-8')
    return uleb(len(b)) + b


def vec(items):
    return uleb(len(items)) + b''.join(items)


def types_of(s):
    return [TCH[c] for c in s]


# ---------------------------------------------------------------- instructions
def op(code):
    return bytes([code])


def i32_const(v):
    return b'\x41' + sleb(s32(v))


def i64_const(v):
    return b'\x42' + sleb(s64(v))


def f32_const(bits):
    return b'\x43' + struct.pack('<I', bits & 0xffffffff)


def f64_const(bits):
    return b'\x44' + struct.pack('<Q', bits & 0xffffffffffffffff)


def const(t, bits):
    t = TCH.get(t, t)
    return {I32: i32_const, I64: i64_const, F32: f32_const, F64: f64_const}[t](bits)


def local_get(i): return b'\x20' + uleb(i)
def local_set(i): return b'\x21' + uleb(i)
def local_tee(i): return b'\x22' + uleb(i)
def global_get(i): return b'\x23' + uleb(i)
def global_set(i): return b'\x24' + uleb(i)
def call(i): return b'\x10' + uleb(i)
def call_indirect(typeidx, table=0): return b'\x11' + uleb(typeidx) + uleb(table)
def br(d): return b'\x0c' + uleb(d)
def br_if(d): return b'\x0d' + uleb(d)
def br_table(targets, default): return b'\x0e' + vec([uleb(t) for t in targets]) + uleb(default)


def blocktype(bt):
    if bt is None or bt == '':
        return b'\x40'
    return bytes([TCH.get(bt, bt)])


def block(bt=None): return b'\x02' + blocktype(bt)
def loop(bt=None): return b'\x03' + blocktype(bt)
def if_(bt=None): return b'\x04' + blocktype(bt)


ELSE = b'\x05'
END = b'\x0b'
RETURN = b'\x0f'
UNREACHABLE = b'\x00'
NOP = b'\x01'
DROP = b'\x1a'
SELECT = b'\x1b'


def memop(code, align=0, offset=0):
    return bytes([code]) + uleb(align) + uleb(offset)


def numop(code):
    """plain numeric opcode, or 0xFC00|sub for the saturating truncations"""
    if code >= 0xFC00:
        return b'\xfc' + uleb(code & 0xff)
    return bytes([code])


def atomic(sub, align=0, offset=0):
    return b'\xfe' + uleb(sub) + uleb(align) + uleb(offset)


def memory_size(): return b'\x3f\x00'
def memory_grow(): return b'\x40\x00'
def memory_copy(): return b'\xfc\x0a\x00\x00'
def memory_fill(): return b'\xfc\x0b\x00'
def memory_init(seg): return b'\xfc\x08' + uleb(seg) + b'\x00'
def data_drop(seg): return b'\xfc\x09' + uleb(seg)


# ---------------------------------------------------------------- module
class Func:
    def __init__(self, typeidx, locals_=(), body=b'', name=None):
        self.typeidx = typeidx
        self.locals = list(locals_)   # [(count, valtype)]
        self.body = body              # without the final END
        self.name = name


class Module:
    def __init__(self):
        self.types = []      # [(params:[vt], results:[vt])]
        self.imports = []    # [(mod, name, kind, desc)]  desc: func typeidx | table limits | mem limits | (vt, mut)
        self.funcs = []      # [Func]
        self.tables = []     # [(min, max|None)]
        self.mems = []       # [(min, max|None, shared)]
        self.globals = []    # [(vt, mut, initexpr bytes without END)]
        self.exports = []    # [(name, kind, index)]
        self.start = None
        self.elems = []      # [(table, offsetexpr bytes w/o END, [funcidx])]  active, flag 0 (or 2 if table != 0)
        self.datas = []      # [(mode, mem, offsetexpr, bytes)]  mode: 'active' | 'active2' (flag 2) | 'passive'
        self.datacount = False
        self.customs = []    # [(position 'end'|'start', name, payload)]
        self.names = None    # optional name section: {funcidx: name}

    def type(self, params, results):
        p = types_of(params) if isinstance(params, str) else list(params)
        r = types_of(results) if isinstance(results, str) else list(results)
        key = (tuple(p), tuple(r))
        for i, t in enumerate(self.types):
            if (tuple(t[0]), tuple(t[1])) == key:
                return i
        self.types.append((p, r))
        return len(self.types) - 1

    def n_func_imports(self):
        return sum(1 for im in self.imports if im[2] == 0)

    def n_global_imports(self):
        return sum(1 for im in self.imports if im[2] == 3)

    def import_func(self, mod, nm, params, results):
        assert not self.funcs, "imports first"
        ti = self.type(params, results)
        self.imports.append((mod, nm, 0, ti))
        return self.n_func_imports() - 1

    def add_func(self, params, results, locals_=(), body=b'', export=None):
        ti = self.type(params, results)
        self.funcs.append(Func(ti, locals_, body))
        idx = self.n_func_imports() + len(self.funcs) - 1
        if export is not None:
            self.exports.append((export, 0, idx))
        return idx

    @staticmethod
    def _limits(mn, mx, shared=False):
        flag = (1 if mx is not None else 0) | (2 if shared else 0)
        return bytes([flag]) + uleb(mn) + (uleb(mx) if mx is not None else b'')

    def _section(self, sid, payload):
        return bytes([sid]) + uleb(len(payload)) + payload

    def encode(self):
        out = bytearray(b'\0asm\x01\0\0\0')
        for pos, nm, payload in self.customs:
            if pos == 'start':
                out += self._section(0, name(nm) + payload)
        if self.types:
            out += self._section(1, vec([b'\x60' + vec([bytes([t]) for t in p]) + vec([bytes([t]) for t in r]) for p, r in self.types]))
        if self.imports:
            items = []
            for mod, nm, kind, desc in self.imports:
                b = name(mod) + name(nm) + bytes([kind])
                if kind == 0:
                    b += uleb(desc)
                elif kind == 1:
                    b += b'\x70' + self._limits(desc[0], desc[1])
                elif kind == 2:
                    b += self._limits(desc[0], desc[1], desc[2] if len(desc) > 2 else False)
                else:
                    b += bytes([desc[0], desc[1]])
                items.append(b)
            out += self._section(2, vec(items))
        if self.funcs:
            out += self._section(3, vec([uleb(f.typeidx) for f in self.funcs]))
        if self.tables:
            out += self._section(4, vec([b'\x70' + self._limits(mn, mx) for mn, mx in self.tables]))
        if self.mems:
            out += self._section(5, vec([self._limits(m[0], m[1], m[2] if len(m) > 2 else False) for m in self.mems]))
        if self.globals:
            out += self._section(6, vec([bytes([vt, mut]) + init + END for vt, mut, init in self.globals]))
        if self.exports:
            out += self._section(7, vec([name(nm) + bytes([kind]) + uleb(idx) for nm, kind, idx in self.exports]))
        if self.start is not None:
            out += self._section(8, uleb(self.start))
        if self.elems:
            items = []
            for table, off, funcs in self.elems:
                if table == 0:
                    items.append(uleb(0) + off + END + vec([uleb(f) for f in funcs]))
                else:
                    items.append(uleb(2) + uleb(table) + off + END + b'\x00' + vec([uleb(f) for f in funcs]))
            out += self._section(9, vec(items))
        if self.datacount:
            out += self._section(12, uleb(len(self.datas)))
        if self.funcs:
            bodies = []
            for f in self.funcs:
                b = vec([uleb(c) + bytes([t]) for c, t in f.locals]) + f.body + END
                bodies.append(uleb(len(b)) + b)
            out += self._section(10, vec(bodies))
        if self.datas:
            items = []
            for mode, mem, off, data in self.datas:
                if mode == 'passive':
                    items.append(uleb(1) + uleb(len(data)) + data)
                elif mode == 'active2':
                    items.append(uleb(2) + uleb(mem) + off + END + uleb(len(data)) + data)
                else:
                    items.append(uleb(0) + off + END + uleb(len(data)) + data)
            out += self._section(11, vec(items))
        if self.names:
            sub = vec([uleb(i) + name(n) for i, n in sorted(self.names.items())])
            out += self._section(0, name('name') + b'\x01' + uleb(len(sub)) + sub)
        for pos, nm, payload in self.customs:
            if pos == 'end':
                out += self._section(0, name(nm) + payload)
        return bytes(out)


# ---------------------------------------------------------------- opcode names (for disassembly in replays)
_NUM = {}
def _fill():
    names = {
        0x45: 'i32.eqz', 0x46: 'i32.eq', 0x47: 'i32.ne', 0x48: 'i32.lt_s', 0x49: 'i32.lt_u', 0x4a: 'i32.gt_s', 0x4b: 'i32.gt_u',
        0x4c: 'i32.le_s', 0x4d: 'i32.le_u', 0x4e: 'i32.ge_s', 0x4f: 'i32.ge_u',
        0x50: 'i64.eqz', 0x51: 'i64.eq', 0x52: 'i64.ne', 0x53: 'i64.lt_s', 0x54: 'i64.lt_u', 0x55: 'i64.gt_s', 0x56: 'i64.gt_u',
        0x57: 'i64.le_s', 0x58: 'i64.le_u', 0x59: 'i64.ge_s', 0x5a: 'i64.ge_u',
        0x5b: 'f32.eq', 0x5c: 'f32.ne', 0x5d: 'f32.lt', 0x5e: 'f32.gt', 0x5f: 'f32.le', 0x60: 'f32.ge',
        0x61: 'f64.eq', 0x62: 'f64.ne', 0x63: 'f64.lt', 0x64: 'f64.gt', 0x65: 'f64.le', 0x66: 'f64.ge',
        0x67: 'i32.clz', 0x68: 'i32.ctz', 0x69: 'i32.popcnt', 0x6a: 'i32.add', 0x6b: 'i32.sub', 0x6c: 'i32.mul', 0x6d: 'i32.div_s',
        0x6e: 'i32.div_u', 0x6f: 'i32.rem_s', 0x70: 'i32.rem_u', 0x71: 'i32.and', 0x72: 'i32.or', 0x73: 'i32.xor', 0x74: 'i32.shl',
        0x75: 'i32.shr_s', 0x76: 'i32.shr_u', 0x77: 'i32.rotl', 0x78: 'i32.rotr',
        0x79: 'i64.clz', 0x7a: 'i64.ctz', 0x7b: 'i64.popcnt', 0x7c: 'i64.add', 0x7d: 'i64.sub', 0x7e: 'i64.mul', 0x7f: 'i64.div_s',
        0x80: 'i64.div_u', 0x81: 'i64.rem_s', 0x82: 'i64.rem_u', 0x83: 'i64.and', 0x84: 'i64.or', 0x85: 'i64.xor', 0x86: 'i64.shl',
        0x87: 'i64.shr_s', 0x88: 'i64.shr_u', 0x89: 'i64.rotl', 0x8a: 'i64.rotr',
        0x8b: 'f32.abs', 0x8c: 'f32.neg', 0x8d: 'f32.ceil', 0x8e: 'f32.floor', 0x8f: 'f32.trunc', 0x90: 'f32.nearest', 0x91: 'f32.sqrt',
        0x92: 'f32.add', 0x93: 'f32.sub', 0x94: 'f32.mul', 0x95: 'f32.div', 0x96: 'f32.min', 0x97: 'f32.max', 0x98: 'f32.copysign',
        0x99: 'f64.abs', 0x9a: 'f64.neg', 0x9b: 'f64.ceil', 0x9c: 'f64.floor', 0x9d: 'f64.trunc', 0x9e: 'f64.nearest', 0x9f: 'f64.sqrt',
        0xa0: 'f64.add', 0xa1: 'f64.sub', 0xa2: 'f64.mul', 0xa3: 'f64.div', 0xa4: 'f64.min', 0xa5: 'f64.max', 0xa6: 'f64.copysign',
        0xa7: 'i32.wrap_i64', 0xa8: 'i32.trunc_f32_s', 0xa9: 'i32.trunc_f32_u', 0xaa: 'i32.trunc_f64_s', 0xab: 'i32.trunc_f64_u',
        0xac: 'i64.extend_i32_s', 0xad: 'i64.extend_i32_u', 0xae: 'i64.trunc_f32_s', 0xaf: 'i64.trunc_f32_u', 0xb0: 'i64.trunc_f64_s',
        0xb1: 'i64.trunc_f64_u', 0xb2: 'f32.convert_i32_s', 0xb3: 'f32.convert_i32_u', 0xb4: 'f32.convert_i64_s', 0xb5: 'f32.convert_i64_u',
        0xb6: 'f32.demote_f64', 0xb7: 'f64.convert_i32_s', 0xb8: 'f64.convert_i32_u', 0xb9: 'f64.convert_i64_s', 0xba: 'f64.convert_i64_u',
        0xbb: 'f64.promote_f32', 0xbc: 'i32.reinterpret_f32', 0xbd: 'i64.reinterpret_f64', 0xbe: 'f32.reinterpret_i32', 0xbf: 'f64.reinterpret_i64',
        0xc0: 'i32.extend8_s', 0xc1: 'i32.extend16_s', 0xc2: 'i64.extend8_s', 0xc3: 'i64.extend16_s', 0xc4: 'i64.extend32_s',
        0xFC00: 'i32.trunc_sat_f32_s', 0xFC01: 'i32.trunc_sat_f32_u', 0xFC02: 'i32.trunc_sat_f64_s', 0xFC03: 'i32.trunc_sat_f64_u',
        0xFC04: 'i64.trunc_sat_f32_s', 0xFC05: 'i64.trunc_sat_f32_u', 0xFC06: 'i64.trunc_sat_f64_s', 0xFC07: 'i64.trunc_sat_f64_u',
    }
    _NUM.update(names)
_fill()
NUMOP_NAME = _NUM

LOADS = {0x28: ('i32.load', 'i', 4), 0x29: ('i64.load', 'I', 8), 0x2a: ('f32.load', 'f', 4), 0x2b: ('f64.load', 'F', 8),
         0x2c: ('i32.load8_s', 'i', 1), 0x2d: ('i32.load8_u', 'i', 1), 0x2e: ('i32.load16_s', 'i', 2), 0x2f: ('i32.load16_u', 'i', 2),
         0x30: ('i64.load8_s', 'I', 1), 0x31: ('i64.load8_u', 'I', 1), 0x32: ('i64.load16_s', 'I', 2), 0x33: ('i64.load16_u', 'I', 2),
         0x34: ('i64.load32_s', 'I', 4), 0x35: ('i64.load32_u', 'I', 4)}
STORES = {0x36: ('i32.store', 'i', 4), 0x37: ('i64.store', 'I', 8), 0x38: ('f32.store', 'f', 4), 0x39: ('f64.store', 'F', 8),
          0x3a: ('i32.store8', 'i', 1), 0x3b: ('i32.store16', 'i', 2), 0x3c: ('i64.store8', 'I', 1), 0x3d: ('i64.store16', 'I', 2),
          0x3e: ('i64.store32', 'I', 4)}


def numop_sig(code):
    """(param types str, result type char) of a numeric opcode — own table, mirrors the spec"""
    n = NUMOP_NAME[code]
    t = {'i32': 'i', 'i64': 'I', 'f32': 'f', 'f64': 'F'}
    res, rest = n.split('.', 1)
    r = t[res]
    if code >= 0xFC00:
        src = 'f' if 'f32' in rest else 'F'
        return src, r
    if 0x45 <= code <= 0x66:   # tests and comparisons
        if rest == 'eqz':
            return r, 'i'
        return r + r, 'i'
    if rest in ('clz', 'ctz', 'popcnt', 'abs', 'neg', 'ceil', 'floor', 'trunc', 'nearest', 'sqrt') or rest.startswith('extend8') or rest.startswith('extend16') or rest == 'extend32_s':
        return r, r
    if 0xa7 <= code <= 0xbf:
        for k, v in (('_i32', 'i'), ('_i64', 'I'), ('_f32', 'f'), ('_f64', 'F')):
            if k in rest:
                return v, r
    return r + r, r
