"""Shared machinery: content-hashed builds of the implementation under test (always from /repo's
working tree), scratch space, parallel map, evidence writer, known-findings handling."""
import atexit, concurrent.futures, glob, hashlib, json, os, shutil, subprocess, sys, tempfile, time

VERIF = os.path.dirname(os.path.dirname(os.path.abspath(__file__)))
REPO = os.environ.get('W2C2_REPO', '/repo')
BUILD = os.path.join(VERIF, 'build')
NCPU = int(os.environ.get('VERIF_JOBS', '16'))
SEED = int(os.environ.get('VERIF_SEED', '0') or 0)

W2C2_DEFS = ['-DHAS_PTHREAD=1', '-DHAS_UNISTD=1', '-DHAS_GETOPT=1', '-DHAS_LIBGEN=1', '-DHAS_STRDUP=1', '-DHAS_GLOB=1']
WASI_DEFS = ['-DHAS_UNISTD=1', '-DHAS_SYSUIO=1', '-DHAS_SYSTIME=1', '-DHAS_SYSRESOURCE=1', '-DHAS_STRNDUP=1', '-DHAS_FCNTL=1',
             '-DHAS_LSTAT=1', '-DHAS_GETENTROPY=1', '-DHAS_TIMESPEC=1', '-DWASM_THREADS_PTHREADS']

_scratch_root = None


def scratch_root():
    global _scratch_root
    if _scratch_root is None:
        base = os.environ.get('VERIF_SCRATCH') or ('/dev/shm' if os.path.isdir('/dev/shm') else os.path.join(BUILD, 'scratch'))
        os.makedirs(base, exist_ok=True)
        _scratch_root = tempfile.mkdtemp(prefix='w2c2-verif.%d.' % os.getpid(), dir=base)
        atexit.register(lambda: shutil.rmtree(_scratch_root, ignore_errors=True))
    return _scratch_root


def scratch(prefix='t'):
    return tempfile.mkdtemp(prefix=prefix + '.', dir=scratch_root())


def sha_files(paths, extra=''):
    h = hashlib.sha1(extra.encode())
    for p in sorted(paths):
        h.update(p.encode())
        with open(p, 'rb') as f:
            h.update(f.read())
    return h.hexdigest()[:16]


def run(cmd, **kw):
    return subprocess.run(cmd, stdout=subprocess.PIPE, stderr=subprocess.PIPE, **kw)


def w2c2_sources():
    srcs = [p for p in glob.glob(os.path.join(REPO, 'w2c2', '*.c')) if not p.endswith('_test.c') and os.path.basename(p) != 'test.c']
    hdrs = glob.glob(os.path.join(REPO, 'w2c2', '*.h'))
    return sorted(srcs), sorted(hdrs)


def build_w2c2(cfg='plain', defs=None, cc='gcc', extra_flags=None, rename_main=False, objects_only=False):
    """Compile the translator from /repo's working tree.  Returns path of the binary (or object dir)."""
    srcs, hdrs = w2c2_sources()
    defs = W2C2_DEFS if defs is None else defs
    flags = ['-O1', '-g'] + list(extra_flags or [])
    if cfg == 'asan':
        flags += ['-fsanitize=address,undefined', '-fno-sanitize-recover=all', '-fno-omit-frame-pointer']
    key = sha_files(srcs + hdrs, ' '.join([cfg, cc] + defs + flags + [str(rename_main), str(objects_only)]))
    d = os.path.join(BUILD, 'impl', '%s-%s' % (cfg, key))
    exe = os.path.join(d, 'w2c2')
    stamp = os.path.join(d, '.done')
    if os.path.exists(stamp):
        return d if objects_only else exe
    os.makedirs(d, exist_ok=True)

    def one(src):
        o = os.path.join(d, os.path.basename(src)[:-2] + '.o')
        r = run([cc] + flags + defs + ['-I', os.path.join(REPO, 'w2c2'), '-c', src, '-o', o] + (['-Dmain=w2c2_main'] if rename_main and src.endswith('main.c') else []))
        if r.returncode != 0:
            raise RuntimeError('cannot build %s: %s' % (src, r.stderr.decode()[-2000:]))
        return o
    with concurrent.futures.ThreadPoolExecutor(NCPU) as ex:
        objs = list(ex.map(one, srcs))
    if not objects_only:
        r = run([cc] + flags + objs + ['-o', exe, '-lpthread', '-lm'])
        if r.returncode != 0:
            raise RuntimeError('cannot link w2c2: %s' % r.stderr.decode()[-2000:])
    open(stamp, 'w').close()
    # keep the cache small, but never pull a build from under a concurrent run: drop builds of this cfg older than 3 hours
    for old in glob.glob(os.path.join(BUILD, 'impl', cfg + '-*')):
        try:
            if old != d and time.time() - os.path.getmtime(os.path.join(old, '.done')) > 3 * 3600:
                shutil.rmtree(old, ignore_errors=True)
        except OSError:
            pass
    return d if objects_only else exe


def build_ref():
    """Reference interpreter objects (gcc, no sanitizers).  Returns dict with 'objs', 'inc'."""
    srcs = [os.path.join(VERIF, 'ref', f) for f in ('refops.c', 'wasmref.c')]
    hdrs = [os.path.join(VERIF, 'ref', f) for f in ('refops.h', 'wasmref.h')]
    key = sha_files(srcs + hdrs)
    d = os.path.join(BUILD, 'ref-' + key)
    objs = [os.path.join(d, 'refops.o'), os.path.join(d, 'wasmref.o')]
    if not os.path.exists(os.path.join(d, '.done')):
        os.makedirs(d, exist_ok=True)
        r = run(['gcc', '-std=c99', '-O1', '-ffp-contract=off', '-Wno-misleading-indentation', '-c', srcs[0], '-o', objs[0]])
        assert r.returncode == 0, r.stderr.decode()
        r = run(['gcc', '-std=c99', '-O2', '-Wno-misleading-indentation', '-c', srcs[1], '-o', objs[1]])
        assert r.returncode == 0, r.stderr.decode()
        r = run(['gcc', '-std=c99', '-O2', '-Wno-misleading-indentation', os.path.join(VERIF, 'ref', 'selftest.c')] + objs + ['-o', os.path.join(d, 'selftest'), '-lm'])
        assert r.returncode == 0, r.stderr.decode()
        open(os.path.join(d, '.done'), 'w').close()
        for old in glob.glob(os.path.join(BUILD, 'ref-*')):
            if old != d:
                shutil.rmtree(old, ignore_errors=True)
    return {'objs': objs, 'inc': os.path.join(VERIF, 'ref'), 'dir': d}


def pmap(fn, items, workers=None):
    """Parallel map over processes-spawning work (threads are enough: the work is in subprocesses)."""
    workers = workers or NCPU
    with concurrent.futures.ThreadPoolExecutor(workers) as ex:
        return list(ex.map(fn, items))


# ---------------------------------------------------------------- findings / evidence
class Findings:
    """known_findings.jsonl: {property, key, status: known|fixed, commit?, what}.  Read-only at run time."""
    def __init__(self):
        self.entries = []
        p = os.path.join(VERIF, 'known_findings.jsonl')
        if os.path.exists(p):
            for line in open(p):
                line = line.strip()
                if line and not line.startswith('#'):
                    self.entries.append(json.loads(line))

    def known(self, prop, key):
        for e in self.entries:
            if e['property'] == prop and e['status'] == 'known' and e['key'] == key:
                return e
        return None


class Check:
    """Collects results of one check run, prints VIOLATION / KNOWN-FINDING lines, writes evidence."""
    def __init__(self, prop, level, tier):
        self.prop, self.level, self.tier = prop, level, tier
        self.t0 = time.time()
        self.cov = {'evaluations': 0, 'distinct_nontrivial': 0, 'rule': '', 'samples': [], 'exhaustive': True}
        self.assumptions = []
        self.violations = 0
        self.known_hits = {}
        self.findings = Findings()
        # runs against a scratch copy of the repository (W2C2_REPO=...) never touch the committed evidence
        self.alt = os.path.realpath(REPO) != '/repo'
        self.replay_dir = os.path.join(BUILD, 'alt-replays') if self.alt else os.path.join(VERIF, 'replays')
        self.deadline = None

    def add(self, **kw):
        for k, v in kw.items():
            if isinstance(v, (int, float)) and not isinstance(v, bool) and k in self.cov and isinstance(self.cov[k], (int, float)) and not isinstance(self.cov[k], bool):
                self.cov[k] += v
            else:
                self.cov[k] = v

    def sample(self, s, limit=8):
        if len(self.cov['samples']) < limit:
            self.cov['samples'].append(s)

    def violation(self, key, replay_obj, what=''):
        """key identifies the specific failing input/call site/history class (for known findings)."""
        e = self.findings.known(self.prop, key)
        if e is not None:
            if key not in self.known_hits:
                self.known_hits[key] = 0
                print('KNOWN-FINDING: property=%s %s' % (self.prop, e['what']))
            self.known_hits[key] += 1
            return False
        self.violations += 1
        if self.violations <= 20:
            os.makedirs(self.replay_dir, exist_ok=True)
            h = hashlib.sha1(json.dumps(replay_obj, sort_keys=True, default=str).encode()).hexdigest()[:12]
            path = os.path.join(self.replay_dir, '%s-%s.json' % (self.prop, h))
            replay_obj = dict(replay_obj)
            replay_obj.setdefault('property', self.prop)
            replay_obj.setdefault('key', key)
            replay_obj.setdefault('what', what)
            with open(path, 'w') as f:
                json.dump(replay_obj, f, indent=1, default=str)
            print('VIOLATION property=%s replay=%s' % (self.prop, path))
            if what:
                print('  ' + what[:400])
        return True

    def finish(self):
        ev = {'property_id': self.prop, 'tier': self.tier, 'seed': SEED, 'level': self.level, 'coverage': self.cov,
              'assumptions': self.assumptions, 'wall_s': round(time.time() - self.t0, 2), 'violations': self.violations}
        if self.known_hits:
            ev['coverage']['known_findings_hit'] = self.known_hits
        evdir = os.path.join(BUILD, 'alt-evidence') if self.alt else os.path.join(VERIF, 'evidence')
        os.makedirs(evdir, exist_ok=True)
        with open(os.path.join(evdir, self.prop + '.json'), 'w') as f:
            json.dump(ev, f, indent=1, default=str)
        print('%s %s: evaluations=%s distinct_nontrivial=%s violations=%d known=%d exhaustive=%s wall=%.1fs' % (
            self.prop, self.tier, self.cov.get('evaluations'), self.cov.get('distinct_nontrivial'), self.violations,
            len(self.known_hits), self.cov.get('exhaustive'), time.time() - self.t0))
        sys.stdout.flush()
        return 1 if self.violations else 0
