#!/usr/bin/env python3
"""Gate for the controlled scheduler + explorer (mc/sched.c), run by bin/setup: a 2-thread toy on which the outcome of the exploration
is known.  A scheduler that cannot find a lost update, cannot see a race on a serial schedule, or invents one, must not be trusted."""
import os, sys
sys.path.insert(0, os.path.dirname(os.path.abspath(__file__)))
from vcommon import *
import mclib


def main():
    d = scratch('mcself')
    src = [os.path.join(mclib.MC, 'selftest.c')]
    exes = {fl: mclib.build_harness(d, fl, src) for fl in ('plain', 'tsan')}
    ex = lambda fl, mode, pb, db=0: mclib.explore(exes[fl], [mode], pb=pb, db=db, cpu=0)
    ends = lambda r: sorted(set(o['end'].split('counter=')[1].split()[0] for o in r['outcomes'] if o['status'] == 'ok'))
    fails = []

    def expect(name, cond, detail):
        if not cond:
            fails.append('%s: %s' % (name, detail))
    r0, r1 = ex('plain', 'split', 0), ex('plain', 'split', 1)
    expect('split pb=0', ends(r0) == ['2'], 'without preemptions both increments must succeed, got %s' % ends(r0))
    expect('split pb=1', ends(r1) == ['1', '2'], 'the lost update (counter=1) must be found with one preemption, got %s' % ends(r1))
    r = ex('plain', 'locked', 3)
    expect('locked', ends(r) == ['2'] and all(o['status'] == 'ok' for o in r['outcomes']), 'a mutex-protected increment must always give 2, got %s' % ends(r))
    r = ex('tsan', 'plain', 1)
    expect('tsan sees the race on serial schedules', all(o['san'] for o in r['outcomes']), 'ThreadSanitizer must report the unsynchronised counter++ on every schedule')
    r = ex('tsan', 'locked', 2)
    expect('tsan silent under the model mutex', not any(o['san'] for o in r['outcomes']), 'no report expected for the locked increment: %s' % [o['err'] for o in r['outcomes'] if o['san']][:1])
    r = ex('plain', 'cond', 2)
    expect('cond', all(o['status'] == 'ok' for o in r['outcomes']), 'signal/wait must always terminate: %s' % sorted(set(o['status'] for o in r['outcomes'])))
    r = ex('plain', 'cond-nosignal', 2)
    expect('cond-nosignal', any(o['status'] == 'blocked' for o in r['outcomes']), 'the missing signal must lead to a blocked terminal state on some schedule')
    r = ex('plain', 'timed', 1, 1)
    expect('timed', all(o['status'] == 'ok' for o in r['outcomes']) and any('ETIMEDOUT' in o['obs'] for o in r['outcomes']), 'the timeout transition must free the consumer')
    # replay determinism: the same schedule twice gives the same observations
    o = r1['outcomes'][-1]
    a, b = mclib.replay(exes['plain'], ['split'], o['sched']), mclib.replay(exes['plain'], ['split'], o['sched'])
    expect('replay', a['obs'] == b['obs'] and a['end'] == b['end'] == o['end'], 'replaying %s twice must reproduce the recorded end state' % o['sched'])
    if fails:
        print('scheduler self-test FAILED:\n  ' + '\n  '.join(fails))
        return 1
    print('scheduler self-test: 9 expectations hold (lost update found at preemption bound 1 and not at 0; TSan sees races on serial schedules)')
    return 0


if __name__ == '__main__':
    sys.exit(main())
