#!/usr/bin/env python3
"""Regenerates /verif/MANIFEST.json from the table below (kept in one place so it stays valid)."""
import json, os
VERIF = os.path.dirname(os.path.dirname(os.path.abspath(__file__)))
ALL = ['C%02d' % k for k in range(1, 21)]

CHECKS = {
 'C01': dict(cat='exploration', tech='bounded-exhaustive program x input enumeration, lockstep vs reference interpreter',
    text='Every integer opcode alone over the full cross product of boundary alphabets, every type-correct two-opcode composition over reduced alphabets, the non-builtin bit-count fallbacks, and (thorough) all 2^32 inputs of every unary 32-bit-operand opcode are translated by w2c2 built from /repo, compiled and compared call by call (value and trap kind) with an independent reference interpreter that passes the spec test-suite.',
    note='Trusts the C compiler/libc and the reference interpreter (bound to the spec by ref/selftest: 20 867 spec-suite commands). Binary operators are covered on alphabet x alphabet, not on all 2^64 pairs; programs larger than two operators are covered by C03/C11 corpora only.', ref='§2 C01'),
 'C02': dict(cat='exploration', tech='bounded-exhaustive program x input enumeration, lockstep vs reference interpreter (integer-arithmetic IEEE oracle)',
    text='Every float/conversion opcode alone over the cross product of class-structured bit-pattern alphabets (signed zeros, subnormals, infinities, quiet/signalling NaNs with payloads, both neighbours of every truncation boundary, rounding-tie integers), every type-correct two-opcode composition, and (thorough) all 2^32 inputs of the 22 unary opcodes with a 32-bit operand, compared with a reference whose min/max/ceil/floor/trunc/nearest/conversions are implemented in integer arithmetic on the IEEE encodings. Non-NaN results and trap kinds are compared exactly, spec-unspecified NaN payloads as is-a-NaN, bit-preserving operators exactly.',
    note='Trusts the host FPU (SSE2) for + - * / sqrt in the oracle and the C compiler/libm. f64 and binary operators are covered on the alphabets only.', ref='§2 C02'),
 'C07': dict(cat='exploration', tech='exhaustive enumeration of immediates through the real reader/literal writer + literal evaluator; pipeline conformance with gcc and clang',
    text='The real immediate reader and literal writer are run natively on every f32 and i32 bit pattern (thorough: all 2^32 each; quick: 4.7M structured) and on class-structured f64/i64 sets (all 4096 sign/exponent values x ~300 significand patterns); the emitted C literal is evaluated by an own evaluator and must denote the input bits. About 30 000 constants are additionally put through the whole pipeline in function bodies, global initialisers and data/element segment offsets, compiled by gcc and clang and read back, which binds the evaluator to the compilers.',
    note='f64/i64 are covered on structured sets, not all 2^64. Assumes correctly rounded decimal conversion in strtod and the compilers, and SSE float moves (no sNaN quieting).', ref='§2 C07'),
 'C03': dict(cat='exploration', tech='validator-driven exhaustive enumeration of all valid function bodies up to N instructions, lockstep vs reference interpreter',
    text='A depth-first generator with the spec validation algorithm (operand stack with Unknown, control frames, polymorphic dead code) enumerates EVERY valid function body of <= N instructions over a 33-symbol alphabet (blocks/loops/ifs with and without results, br/br_if/br_table/return/unreachable, select, drop, locals, a logging host call), a 13-symbol control alphabet (deeper N) and typed alphabets (i64/f32/f64 carried values, locals of all four types in several declaration groupings). Quick: N<=4 / 6 / 4 (about 40 000 bodies), thorough: N<=5 / 8 / 5 (about 1.2 million bodies); every body runs on every input vector; value, trap and ordered host-call trace are compared with the reference.',
    note='Complete for the stated N and alphabets, silent beyond. Trusts the C compiler and the reference interpreter (spec-suite validated).', ref='§2 C03'),
 'C04': dict(cat='exploration', tech='exhaustive enumeration of module shapes (call graph x signature x table configuration), lockstep vs reference interpreter with host-call traces',
    text='One module per shape: 7 callee signatures x direct/call_indirect x imported/defined callee x 0-2 preceding imports x 0-2 preceding definitions x 0-2 extra operands below the arguments (756 shapes, thorough), indirect calls through defined and imported tables filled at constant and imported-global offsets, element placement probed through every slot, self/mutual recursion directly and through the table, and import names stressing C symbol mangling. Every call is observable through the ordered host-call trace (callee identity, arguments in order, calling instance) which must equal the reference interpreter\'s.',
    note='Shapes outside the product (more than 3 functions per kind, other signatures) are not covered. Table indices stay inside initialised ranges with matching signatures (w2c2 does not check them by design).', ref='§2 C04'),
 'C05': dict(cat='model_checking', engine='lockstep-bfs', tech='explicit-state BFS over operation histories on the real translated code with canonical-state deduplication, reference model in lockstep',
    text='(a) every load/store flavour x static offset x base address x value with all memory bytes compared after each store (ASan build); (b) breadth-first search over histories of a 50-operation alphabet (stores, memory.grow by 0/1/2/3/65535/65536/2^32-1, size, fill, copy overlapping in both directions, init, data.drop, loads) for 6 memory declarations incl. (0,0) and (1,65536): a state is the history reaching it, deduplicated by (pages, all bytes, dropped flag); every transition runs the real translated code on a fresh instance next to the reference model and compares result, trap, pages and every byte. Quick depth 3, thorough depth 5.',
    note='The reference caps growth at 65535 pages (a resource limit the spec permits; the runtime keeps the byte size in 32 bits). Address wrap-around cannot be observed under the in-bounds precondition. Trusts the reference interpreter (spec-suite validated).', ref='§2 C05'),
 'C06': dict(cat='model_checking', engine='lockstep-bfs', tech='exhaustive configuration product + all operation sequences over two live instances on the real translated code, reference model in lockstep',
    text='231 module configurations ({no, defined, imported memory} x 5 data-segment layouts x {no, defined, imported table} x 0-2 element segments x {no, defined, imported start}), each with 10 globals of all types and duplicate/re-exported exports: right after Instantiate every memory byte of the window, every global, every table slot and the host calls of the start function are compared with the reference given the same embedder objects. Then ALL sequences of <= 3 (thorough 4) operations from {get/set global, load, store, grow, call through table} x {instance A, B} plus Instantiate-B at every position run on fresh instances; the reference keeps two separate instances, so any shared defined state or repeated/missing start shows up.',
    note='Embedder answers are an enumerated fixed map. Export symbols are used literally as <module>_<name> (names needing escaping are read from the header and must be distinct and link).', ref='§2 C06'),
 'C08': dict(cat='exploration', tech='exhaustive enumeration of single encoding deviations of each base module through an own binary rewriter; output multiset comparison',
    text='For each base module (thorough: all 874 valid spec-suite modules + modules from the C04/C06 enumerations + 3 hand-built ones; quick: every 6th) every single deviation from its byte encoding is generated by an own parser/re-emitter: each LEB128 field (sizes, counts, indices, immediates, block types, limits, name lengths; 52 000 fields) at every other legal length, a custom section (5 names incl. "name", 3 payloads) at every section boundary, data segments flag 0 <-> flag 2/memory 0, empty sections present <-> omitted, the all-maximal encoding, and (thorough) systematic pairs for the hand-built modules. Each variant must be accepted by the real translator and give the same multiset of C definitions as the base encoding (280 000 translator runs thorough).',
    note='Reserved single-byte immediates (call_indirect table, memory.size/grow/copy/fill/init memory index) are not padded (the targeted spec level defines them as bytes). Three or more simultaneous deviations are covered only by the all-maximal variant.', ref='§2 C08'),
 'C10': dict(cat='fault_enumeration', engine='translator-runs', tech='exhaustive truncation-point enumeration + option product on an ASan/UBSan build of the translator',
    text='ASan+UBSan build of the translator from /repo. (a) every valid module of the corpus (spec suite, hand-built, 20 stress names x 4 name positions incl. non-ASCII/quotes/5000-byte names, 5 size-stress modules) x option sets (8 representative sets each; the full 384-element option product on the hand-built modules) must exit 0 with no signal and no sanitizer report. (b) every proper prefix 0<k<len of every module <= 4 KiB (all but one spec module; boundary +-2 for larger ones; thorough about 115 000 prefixes): terminates, no sanitizer report, no SIGSEGV/SIGBUS/SIGFPE/SIGILL.',
    note='An own abort()/assert on a TRUNCATED file is tolerated and counted (a diagnostic + non-zero status); on a valid module it is a violation. Leaks are not counted.', ref='§2 C10'),
 'C20': dict(cat='exploration', engine='translator-runs', tech='exhaustive configuration product (output path x cwd x options x directory contents) with snapshot + strace monitors and an own effect model',
    text='Every output-path shape (relative, ./, ../, nested, absolute, no extension, two extensions, 200-character directory, via a symlinked directory, long base name) x working directory x option sets (thorough: full product of -f/-t/-d/-c/-r/-g/-p/-m x 3 layouts of pre-existing near-miss names in the output directory, its sub-directory, the working directory and an unrelated directory). Two monitors per run of the real translator: tree snapshot before/after and an strace log of every mutating system call; effects must lie inside the set an own model allows (output, header, [sd][0-9]{10}.c, datasegments only with gnu-ld, all in dirname(output); deletions only of pattern names there and only with -c, which must remove them).',
    note='Paths outside the alphabet are not covered. strace is trusted to see every mutating call.', ref='§2 C20'),
}

def main():
    checks = []
    for pid in ALL:
        if pid not in CHECKS: continue
        c = CHECKS[pid]
        checks.append({
            'property_id': pid,
            'quick_cmd': 'bin/check %s quick' % pid,
            'thorough_cmd': 'bin/check %s thorough' % pid,
            'evidence_file': 'evidence/%s.json' % pid,
            'replay_cmd_template': 'bin/check replay {path}',
            'engine': c.get('engine', 'translator-runs' if pid == 'C08' else 'lockstep'),
            'level_claimed': {'category': c['cat'], 'text': c['text'], 'design_ref': c['ref']},
            'level_note': c['note'],
            'technique': c['tech'],
        })
    na = [{'property_id': p, 'reason': 'check not built yet in this session (planned, see DESIGN.md §2); not claimed until its quick and thorough tiers have run end to end'} for p in ALL if p not in CHECKS]
    m = {
        'version': 1,
        'setup_cmd': 'bin/setup',
        'hooks': {'guard': 'W2C2_VERIF', 'enable': 'no source hooks: synchronisation calls are renamed at compile time (-Dpthread_mutex_lock=mc_mutex_lock ...), -Dmain=w2c2_main, and harness TUs #include the .c file for static functions',
                  'baseline_off_cmd': 'cmake -G Ninja -B /repo/_build -S /repo >/dev/null && cmake --build /repo/_build >/dev/null && /repo/_build/w2c2/w2c2_test && /repo/_build/wasi/w2c2wasi_test',
                  'source_commits': [], 'add_only': True},
        'engines': [
            {'name': 'lockstep', 'path': 'lib/batch.py + ref/lockstep.h + ref/wasmref.c', 'serves_properties': ['C01'], 'kind_free_text': 'bounded-exhaustive enumeration of (program, input); real pipeline w2c2 -> C compiler -> run, stepped in lockstep with an own reference interpreter'},
            {'name': 'translator-runs', 'path': 'checks/c08.py, c10.py, c20.py, c09.py', 'serves_properties': [], 'kind_free_text': 'exhaustive enumeration of translator invocations (encodings, truncation points, option/path/directory configurations) on the binary built from /repo, with output comparison, sanitizers or system-call monitors as oracle'},
            {'name': 'lockstep-bfs', 'path': 'ref/lockstep.h (ls_main_bfs) + lib/batch.py', 'serves_properties': [], 'kind_free_text': 'explicit-state breadth-first search over operation histories; each transition re-executes the history on a fresh implementation instance and a fresh reference instance; states deduplicated by a hash of the observable state'},
        ],
        'checks': checks,
        'not_applicable': na,
        'notes': 'All checks rebuild the translator/runtime from /repo working tree (content-hashed cache under build/). known_findings.jsonl lists fixed and known findings; it is never written at run time.',
    }
    for e in m['engines']:
        e['serves_properties'] = [p for p in ALL if p in CHECKS and CHECKS[p].get('engine', 'translator-runs' if p == 'C08' else 'lockstep') == e['name']]
    with open(os.path.join(VERIF, 'MANIFEST.json'), 'w') as f:
        json.dump(m, f, indent=1)

if __name__ == '__main__':
    main()
