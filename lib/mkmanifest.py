#!/usr/bin/env python3
"""Regenerates /verif/MANIFEST.json from the table below (kept in one place so it stays valid)."""
import json, os
VERIF = os.path.dirname(os.path.dirname(os.path.abspath(__file__)))
ALL = ['C%02d' % k for k in range(1, 21)]

CHECKS = {
 'C01': dict(cat='exploration', tech='bounded-exhaustive program x input enumeration, lockstep vs reference interpreter',
    text='Every integer opcode alone over the full cross product of boundary alphabets, every type-correct two-opcode composition over reduced alphabets, the non-builtin bit-count fallbacks, and (thorough) all 2^32 inputs of every unary 32-bit-operand opcode are translated by w2c2 built from /repo, compiled and compared call by call (value and trap kind) with an independent reference interpreter that passes the spec test-suite.',
    note='Trusts the C compiler/libc and the reference interpreter (bound to the spec by ref/selftest: 20 867 spec-suite commands). Binary operators are covered on alphabet x alphabet, not on all 2^64 pairs; programs larger than two operators are covered by C03/C11 corpora only.', ref='§2 C01'),
 'C02': dict(cat='exploration', tech='bounded-exhaustive program x input enumeration, lockstep vs reference interpreter (integer-arithmetic IEEE oracle)',
    text='Every float/conversion opcode alone over the cross product of class-structured bit-pattern alphabets (signed zeros, subnormals, infinities, quiet/signalling NaNs with payloads, both neighbours of every truncation boundary, rounding-tie integers), every type-correct two-opcode composition, and (thorough) all 2^32 inputs of the 22 unary opcodes with a 32-bit operand, compared with a reference whose min/max/ceil/floor/trunc/nearest/conversions are implemented in integer arithmetic on the IEEE encodings. Non-NaN results and trap kinds are compared exactly, spec-unspecified NaN payloads as is-a-NaN, bit-preserving operators exactly.',
    note='Trusts the host FPU (SSE2) for + - * / sqrt in the oracle and the C compiler/libm. f64 and binary operators are covered on the alphabets only.', ref='§2 C02'),
 'C07': dict(cat='exploration', tech='exhaustive enumeration of immediates through the real reader/literal writer + literal evaluator; pipeline conformance with gcc and clang',
    text='The real immediate reader and literal writer are run natively on every f32 and i32 bit pattern (thorough: all 2^32 each; quick: 4.7M structured) and on class-structured f64/i64 sets (all 4096 sign/exponent values x ~300 significand patterns); the emitted C literal is evaluated by an own evaluator and must denote the input bits. About 30 000 constants are additionally put through the whole pipeline in function bodies, global initialisers and data/element segment offsets, compiled by gcc and clang and read back, which binds the evaluator to the compilers.',
    note='f64/i64 are covered on structured sets, not all 2^64. Assumes correctly rounded decimal conversion in strtod and the compilers, and SSE float moves (no sNaN quieting).', ref='§2 C07'),
 'C03': dict(cat='exploration', tech='validator-driven exhaustive enumeration of all valid function bodies up to N instructions, lockstep vs reference interpreter',
    text='A depth-first generator with the spec validation algorithm (operand stack with Unknown, control frames, polymorphic dead code) enumerates EVERY valid function body of <= N instructions over a 33-symbol alphabet (blocks/loops/ifs with and without results, br/br_if/br_table/return/unreachable, select, drop, locals, a logging host call), a 13-symbol control alphabet (deeper N) and typed alphabets (i64/f32/f64 carried values, locals of all four types in several declaration groupings). Quick: N<=4 / 6 / 4 (about 40 000 bodies), thorough: N<=5 / 8 / 5 (about 1.2 million bodies); every body runs on every input vector; value, trap and ordered host-call trace are compared with the reference.',
    note='Complete for the stated N and alphabets, silent beyond. Trusts the C compiler and the reference interpreter (spec-suite validated).', ref='§2 C03'),
}

def main():
    checks = []
    for pid in ALL:
        if pid not in CHECKS: continue
        c = CHECKS[pid]
        checks.append({
            'property_id': pid,
            'quick_cmd': 'bin/check %s quick' % pid,
            'thorough_cmd': 'bin/check %s thorough' % pid,
            'evidence_file': 'evidence/%s.json' % pid,
            'replay_cmd_template': 'bin/check replay {path}',
            'engine': c.get('engine', 'lockstep'),
            'level_claimed': {'category': c['cat'], 'text': c['text'], 'design_ref': c['ref']},
            'level_note': c['note'],
            'technique': c['tech'],
        })
    na = [{'property_id': p, 'reason': 'check not built yet in this session (planned, see DESIGN.md §2); not claimed until its quick and thorough tiers have run end to end'} for p in ALL if p not in CHECKS]
    m = {
        'version': 1,
        'setup_cmd': 'bin/setup',
        'hooks': {'guard': 'W2C2_VERIF', 'enable': 'no source hooks: synchronisation calls are renamed at compile time (-Dpthread_mutex_lock=mc_mutex_lock ...), -Dmain=w2c2_main, and harness TUs #include the .c file for static functions',
                  'baseline_off_cmd': 'cmake -G Ninja -B /repo/_build -S /repo >/dev/null && cmake --build /repo/_build >/dev/null && /repo/_build/w2c2/w2c2_test && /repo/_build/wasi/w2c2wasi_test',
                  'source_commits': [], 'add_only': True},
        'engines': [
            {'name': 'lockstep', 'path': 'lib/batch.py + ref/lockstep.h + ref/wasmref.c', 'serves_properties': ['C01'], 'kind_free_text': 'bounded-exhaustive enumeration of (program, input); real pipeline w2c2 -> C compiler -> run, stepped in lockstep with an own reference interpreter'},
        ],
        'checks': checks,
        'not_applicable': na,
        'notes': 'All checks rebuild the translator/runtime from /repo working tree (content-hashed cache under build/). known_findings.jsonl lists fixed and known findings; it is never written at run time.',
    }
    for e in m['engines']:
        e['serves_properties'] = [p for p in ALL if p in CHECKS and CHECKS[p].get('engine', 'lockstep') == e['name']]
    with open(os.path.join(VERIF, 'MANIFEST.json'), 'w') as f:
        json.dump(m, f, indent=1)

if __name__ == '__main__':
    main()
