"""Build + run helpers for harnesses of the controlled scheduler (mc/sched.c).
A harness binary is built in three flavours: 'plain' (gcc -O1), 'tsan' (-fsanitize=thread), 'asan'
(-fsanitize=address,undefined).  sched.c is always compiled WITHOUT sanitizers and without the renames."""
import json, os, subprocess, sys
from vcommon import REPO, VERIF, BUILD, NCPU, run, sha_files

MC = os.path.join(VERIF, 'mc')
RENAMES = ['-Dpthread_mutex_lock=mc_mutex_lock', '-Dpthread_mutex_unlock=mc_mutex_unlock', '-Dpthread_cond_wait=mc_cond_wait',
           '-Dpthread_cond_timedwait=mc_cond_timedwait', '-Dpthread_cond_signal=mc_cond_signal', '-Dpthread_cond_broadcast=mc_cond_broadcast',
           '-Dpthread_mutex_init=mc_mutex_init', '-Dpthread_mutex_destroy=mc_mutex_destroy', '-Dpthread_cond_init=mc_cond_init',
           '-Dpthread_cond_destroy=mc_cond_destroy', '-Dpthread_create=mc_thread_create_ut', '-Dpthread_join=mc_thread_join']
FLAVOURS = {
    'plain': ('gcc', ['-O1', '-g']),
    'tsan': ('clang', ['-O1', '-g', '-fsanitize=thread', '-fno-omit-frame-pointer']),
    'asan': ('clang', ['-O1', '-g', '-fsanitize=address,undefined', '-fno-sanitize-recover=all', '-fno-omit-frame-pointer']),
}


class PipelineFailure(Exception):
    """the code under test cannot be put through the pipeline: the translator rejects / crashes on a VALID module of a check, or the generated C
    together with the runtime sources does not compile.  On the unchanged tree this never happens; on a changed tree it is a finding about the
    tree (reported as a violation by the check's main), not a fault of the machinery."""
    def __init__(self, stage, what):
        Exception.__init__(self, '%s: %s' % (stage, what))
        self.stage, self.what = stage, what


def report_pipeline_failure(chk, e, how):
    chk.violation('pipeline|%s' % e.stage, {'kind': 'config', 'stage': e.stage, 'what': e.what[-3000:], 'how_to_replay': how},
                  'the code under test does not get through the pipeline (%s): %s' % (e.stage, e.what.strip().split('\n')[-1][:300] if e.what.strip() else e.stage))
    chk.cov['exhaustive'] = False


class MachineryError(Exception):
    pass


_w2c2_copy = None
_w2c2_lock = None


def w2c2_binary():
    """translator built from vcommon.REPO's working tree, copied into this run's scratch (the shared build cache
    drops builds of other tree states, and several checks may run at once with different W2C2_REPO)"""
    global _w2c2_copy, _w2c2_lock
    import shutil, threading, vcommon
    if _w2c2_lock is None:
        _w2c2_lock = threading.Lock()
    with _w2c2_lock:
        if _w2c2_copy is None:
            last = None
            for attempt in range(4):
                try:
                    exe = vcommon.build_w2c2('plain')
                    dst = os.path.join(vcommon.scratch('w2c2bin'), 'w2c2')
                    shutil.copy2(exe, dst)
                    _w2c2_copy = dst
                    break
                except (RuntimeError, OSError) as e:
                    last = e
            if _w2c2_copy is None:
                raise MachineryError('cannot build the translator: %s' % last)
    return _w2c2_copy


import threading
_sched_lock = threading.Lock()


def sched_obj(outdir):
    """sched.c: always gcc -O2 WITHOUT sanitizers and without the renames"""
    o = os.path.join(outdir, 'sched.o')
    with _sched_lock:
        if not os.path.exists(o):
            r = run(['gcc', '-O2', '-g', '-Wall', '-Wextra', '-c', os.path.join(MC, 'sched.c'), '-o', o + '.tmp.o'])
            if r.returncode != 0:
                raise MachineryError('cannot build sched.c: ' + r.stderr.decode()[-2000:])
            os.rename(o + '.tmp.o', o)
    return o


def build_harness(outdir, flavour, srcs, incs=(), defs=(), name=None, renames=True, extra_objs=()):
    """compile srcs (code under test + harness) with the renames and the flavour's sanitizer; link with sched.o"""
    cc, flags = FLAVOURS[flavour]
    exe = os.path.join(outdir, name or ('drv-' + flavour))
    cmd = [cc] + flags + ['-w', '-DWASM_THREADS_PTHREADS', '-I', MC] + ['-I' + i for i in incs] + list(defs) + (RENAMES if renames else []) + \
        list(srcs) + [sched_obj(outdir)] + list(extra_objs) + ['-o', exe, '-lpthread', '-lm']
    r = run(cmd, timeout=600)
    if r.returncode != 0:
        raise PipelineFailure('harness-build-%s' % flavour, '%s\n%s' % (' '.join(cmd), r.stderr.decode()[-3000:]))
    return exe


TSAN_BASE = 'halt_on_error=0:exitcode=66:report_signal_unsafe=0:report_thread_leaks=0:atexit_sleep_ms=0:history_size=2'
ASAN_BASE = 'detect_leaks=0:exitcode=67:abort_on_error=0:allocator_may_return_null=1'


def _env(symbolize):
    """sanitizer options: while exploring, TSan reports are not symbolized (110 ms each); the representative
    schedule of every flagged outcome is replayed with symbolize=1 to obtain the readable report"""
    e = dict(os.environ)
    e['TSAN_OPTIONS'] = TSAN_BASE + ':symbolize=%d' % (1 if symbolize else 0)
    e['ASAN_OPTIONS'] = ASAN_BASE + ':symbolize=1'
    e['UBSAN_OPTIONS'] = 'halt_on_error=1:exitcode=68:print_stacktrace=1'
    return e


def explore(exe, words, pb=2, db=0, spurious=0, jobs=1, deadline=0, horizon=5000, maxexec=0, timeout=3600, cpu=-1, envpor=1):
    """run the explorer; returns dict(levels=[...], outcomes=[...], done={...}).  Raises MachineryError on exit 2."""
    cmd = [exe, 'explore', '--pb', str(pb), '--db', str(db), '--spurious', str(spurious), '--jobs', str(jobs), '--deadline', str(deadline),
           '--horizon', str(horizon), '--maxexec', str(maxexec), '--cpu', str(cpu), '--envpor', str(envpor), '--'] + [str(w) for w in words]
    r = subprocess.run(cmd, stdout=subprocess.PIPE, stderr=subprocess.PIPE, env=_env(False), timeout=timeout)
    res = {'levels': [], 'outcomes': [], 'done': None, 'cmd': ' '.join(cmd)}
    for line in r.stdout.decode(errors='replace').splitlines():
        if not line.startswith('{'):
            continue
        o = json.loads(line)
        if o['type'] == 'level':
            res['levels'].append(o)
        elif o['type'] == 'outcome':
            res['outcomes'].append(o)
        elif o['type'] == 'done':
            res['done'] = o
        elif o['type'] == 'machinery':
            raise MachineryError('%s: %s' % (' '.join(cmd), json.dumps(o)))
    if r.returncode != 0 or res['done'] is None:
        raise MachineryError('explorer failed rc=%d: %s\n%s' % (r.returncode, ' '.join(cmd), r.stderr.decode(errors='replace')[-2000:]))
    res['outcomes'].sort(key=lambda o: (o['sched'], o['obs']))
    return res


def replay(exe, words, sched, spurious=0, horizon=5000, timeout=300):
    cmd = [exe, 'replay', '--sched', ','.join(str(c) for c in sched) or ',', '--spurious', str(spurious), '--horizon', str(horizon), '--'] + [str(w) for w in words]
    r = subprocess.run(cmd, stdout=subprocess.PIPE, stderr=subprocess.PIPE, env=_env(True), timeout=timeout)
    for line in r.stdout.decode(errors='replace').splitlines():
        if line.startswith('{'):
            o = json.loads(line)
            if o.get('type') == 'replay':
                o['cmd'] = ' '.join(cmd)
                return o
    raise MachineryError('replay failed rc=%d: %s\n%s' % (r.returncode, ' '.join(cmd), r.stderr.decode(errors='replace')[-2000:]))


# ---------------------------------------------------------------- matrix runner shared by C16/C17/C18
import re, time, threading
from vcommon import pmap

_FRAME = re.compile(r'^\s+#(\d+) (?:0x[0-9a-f]+ in )?(\S+) (\S+?)(?::\d+)?(?::\d+)? \(')
_FRAME2 = re.compile(r'^\s+#(\d+) (?:0x[0-9a-f]+ in )?(\S+) (\S+)')


def parse_frames(lines):
    out = []
    for ln in lines:
        m = _FRAME.match(ln) or _FRAME2.match(ln)
        if m:
            f = m.group(3)
            f = re.sub(r'(:\d+)+$', '', f)
            out.append((m.group(2), f))
    return out


def classify_report(stderr, origin_dirs):
    """-> (key, in_origin, text).  Key names the report class by the first frames of the code under test."""
    def in_origin(f):
        return any(f.startswith(d.rstrip('/') + '/') for d in origin_dirs)

    def label(frames):
        for k, (fn, f) in enumerate(frames):
            if in_origin(f):
                if re.match(r'^f\d+$', fn):
                    for fn2, _ in frames[k + 1:]:
                        m = re.match(r'^m_(\w+)$', fn2)
                        if m:
                            return 'wasm:' + m.group(1)
                return fn
        return None
    lines = stderr.splitlines()
    m = re.search(r'ERROR: (?:Thread|Address|UndefinedBehavior)Sanitizer: (SEGV|BUS|FPE|ILL|ABRT)\b', stderr)
    if m:
        # the child died of a signal inside a sanitizer build: name it by the first frame of the code under test (if any is symbolized)
        frames, on = [], False
        for ln in lines:
            if re.match(r'^\s+#\d+ ', ln):
                frames.append(ln); on = True
            elif on:
                break
        return 'crash|%s|%s' % (m.group(1), label(parse_frames(frames)) or 'unattributed'), True, stderr
    if 'ThreadSanitizer' in stderr:
        stacks, curst = [], None
        for ln in lines:
            if re.match(r'^\s+(Previous )?(atomic )?(read|write|Read|Write|Atomic read|Atomic write) of size', ln):
                curst = []
                stacks.append(curst)
            elif ln.strip() == '' or re.match(r'^\s+(Location|Thread|Mutex|As if)', ln):
                curst = None
            elif curst is not None:
                curst.append(ln)
            if len(stacks) >= 2 and curst is None:
                break
        labs = [label(parse_frames(s)) for s in stacks[:2]]
        kind = 'race'
        m = re.search(r'WARNING: ThreadSanitizer: ([^(\n]+)', stderr)
        if m and 'data race' not in m.group(1):
            kind = m.group(1).strip().replace(' ', '-')
        ok = any(l is not None for l in labs)
        return '%s|%s' % (kind, '+'.join(sorted(l or 'harness' for l in labs))), ok, stderr
    if 'AddressSanitizer' in stderr:
        m = re.search(r'ERROR: AddressSanitizer: (\S+)', stderr)
        kind = m.group(1) if m else 'error'
        frames = []
        for ln in lines:
            if re.match(r'^\s+#\d+ ', ln):
                frames.append(ln)
            elif frames:
                break
        lab = label(parse_frames(frames))
        if lab is None and 'freed by thread' in stderr:
            # the access itself happened in harness code that walks a data structure of the code under test: if that
            # memory was freed by the code under test, the structure links freed memory - attribute it to the freeing site
            fr, on = [], False
            for ln in lines:
                if 'freed by thread' in ln:
                    on = True
                elif on and re.match(r'^\s+#\d+ ', ln):
                    fr.append(ln)
                elif on and fr:
                    break
            lab2 = label(parse_frames(fr[1:]))      # frame 0 is free() itself
            if lab2 is not None:
                return 'asan|%s|freed-by:%s' % (kind, lab2), True, stderr
        return 'asan|%s|%s' % (kind, lab or 'harness'), lab is not None, stderr
    m = re.search(r'^(\S+?):(\d+):\d+: runtime error: (.*)$', stderr, re.M)
    if m:
        return 'ubsan|%s:%s' % (os.path.basename(m.group(1)), m.group(2)), in_origin(m.group(1)), stderr
    return 'sanitizer|unclassified', True, stderr


class Matrix:
    """Runs (case x flavour) explorations in parallel, applies the oracle to every distinct outcome, collects
    failures per key with the smallest example, replays before reporting, fills the evidence counters."""

    def __init__(self, chk, origin_dirs, allowed_status=('ok',), projection=None):
        self.chk = chk
        self.projection = projection or (lambda o: (o['status'], o['obs'], o['end']))
        self.origin_dirs = list(origin_dirs)
        self.allowed_status = set(allowed_status)
        self.fail = {}          # key -> dict(example=..., cases=set, schedules=int)
        self.per_bound = {}     # p -> schedules (new at that level), plain flavour and all flavours
        self.stats = {'schedules': 0, 'transitions': 0, 'states': 0, 'maxsteps': 0, 'cases': 0, 'nontrivial_cases': 0,
                      'schedules_by_flavour': {}, 'bounds_completed': None, 'exhaustive': True, 'dev_hist': [0, 0, 0, 0]}
        self.lock = threading.Lock()
        self.san_cache = {}
        self.machinery = None
        self.samples = []
        self.outcome_hist = {}
        self.replay_module = None
        self.grace = None
        self.key_hook = None
        self.skipped_rounds = set()
        self.rounds_started = []

    def add_failure(self, key, job, outcome, msg):
        with self.lock:
            f = self.fail.setdefault(key, {'example': None, 'cases': set(), 'schedules': 0})
            f['cases'].add(json.dumps(job['case'], sort_keys=True))
            f['schedules'] += outcome.get('count', 1)
            size = (len(job['words']), sum(len(w) for w in job['words']), len(outcome['sched']), outcome['sched'])
            if f['example'] is None or size < f['example']['size']:
                f['example'] = {'size': size, 'job': job, 'outcome': outcome, 'msg': msg}

    def _classify_san(self, job, outcome):
        """replay the representative schedule with symbolized reports"""
        sig = (job['exe'], outcome['err'])
        with self.lock:
            if sig in self.san_cache:
                return self.san_cache[sig]
        r = replay(job['exe'], job['words'], outcome['sched'], spurious=job.get('spurious', 0), horizon=job.get('horizon', 5000))
        if not r['san']:
            raise MachineryError('sanitizer report did not reproduce when replaying %s sched=%s' % (r['cmd'], outcome['sched']))
        key, ok, text = classify_report(r['stderr'], self.origin_dirs)
        if not ok:
            raise MachineryError('sanitizer report without a frame in the code under test (harness problem):\n%s\n%s' % (r['cmd'], text[:3000]))
        with self.lock:
            self.san_cache[sig] = (key, text)
        return key, text

    def run(self, jobs, oracle, deadline_at=None, workers=None):
        """jobs: dicts with case, words, exe, flavour, pb, db, spurious, [horizon], [weight].  oracle(job, outcome) -> [(key,msg)]"""
        jobs = sorted(jobs, key=lambda j: -j.get('weight', 1))
        self.oracle = oracle

        def one_(job, cpu):
            if self.machinery:
                return None
            remaining = 0
            if deadline_at is not None:
                # deadline_at is the SOFT deadline: no new round starts after it.  Explorations of a round that has started
                # may run on until the hard deadline (soft + grace), so a started round is normally completed as a whole.
                remaining = deadline_at + self.grace - time.time()
                if remaining <= 1 or job.get('round', 0) in self.skipped_rounds:
                    return 'skipped'
            try:
                res = explore(job['exe'], job['words'], pb=job['pb'], db=job.get('db', 0), spurious=job.get('spurious', 0), jobs=job.get('jobs', 1),
                              deadline=max(remaining, 0), horizon=job.get('horizon', 5000), cpu=cpu)
                for o in res['outcomes']:
                    fails = []
                    if o['status'] == 'machinery':
                        raise MachineryError(o['err'])
                    if o['san']:
                        key, text = self._classify_san(job, o)
                        if self.key_hook:
                            key = self.key_hook(job, key)
                        fails.append((key, 'sanitizer report on schedule %s: %s' % (o['sched'], _short_report(text))))
                    elif o['status'] not in self.allowed_status:
                        k = 'terminal|' + o['status']
                        m = re.search(r"Assertion `([^']+)' failed", o.get('stderr', ''))
                        if m:
                            k += '|assert ' + m.group(1)
                        if o['status'] == 'fail':
                            k += '|' + re.sub(r'\d+', 'N', o['err'])[:80]
                        fails.append((k, 'execution ended with status %s %s %s' % (o['status'], o['err'], o.get('stderr', '')[-300:])))
                    if o['status'] in ('ok', 'blocked'):      # the execution reached a terminal state: the semantic oracle applies
                        fails += list(oracle(job, o) or [])
                    for key, msg in fails:
                        self.add_failure(key, job, o, msg)
                return res
            except MachineryError as e:
                self.machinery = str(e)
                return None
        # phases by the explorer-internal parallelism k (--jobs): k=16 one at a time, k=4 four side by side, k=1 sixteen side by side;
        # an explorer started in slot i pins its executions to CPUs i*k .. i*k+k-1
        import queue
        ncpu = workers or NCPU
        ordered, results = [], []
        rounds = sorted(set(j.get('round', 0) for j in jobs))
        self.grace = getattr(self, 'grace', None) if getattr(self, 'grace', None) is not None else (0.5 * max(deadline_at - time.time(), 0) if deadline_at is not None else 0)
        self.rounds_started = []
        for rnd, k in [(r, k) for r in rounds for k in sorted(set(j.get('jobs', 1) for j in jobs if j.get('round', 0) == r), reverse=True)]:
            if deadline_at is not None and time.time() > deadline_at and rnd not in self.rounds_started:
                self.skipped_rounds.add(rnd)
            elif rnd not in self.rounds_started:
                self.rounds_started.append(rnd)
            part = [j for j in jobs if j.get('jobs', 1) == k and j.get('round', 0) == rnd]
            conc = max(1, ncpu // k)
            slots = queue.Queue()
            for i in range(conc):
                slots.put(i)

            def one(job, k=k, slots=slots):
                i = slots.get()
                try:
                    return one_(job, (i * k) % (os.cpu_count() or 1))
                finally:
                    slots.put(i)
            ordered += part
            results += pmap(one, part, conc)
        jobs = ordered
        self.last_jobs = ordered
        if self.machinery:
            raise MachineryError(self.machinery)
        st = self.stats
        for job, res in zip(jobs, results):
            if res == 'skipped' or res is None:
                st['exhaustive'] = False
                st['bounds_completed'] = -1
                continue
            d = res['done']
            st['schedules'] += d['execs']
            st['transitions'] += d['transitions']
            st['maxsteps'] = max(st['maxsteps'], d['maxsteps'])
            st['schedules_by_flavour'][job['flavour']] = st['schedules_by_flavour'].get(job['flavour'], 0) + d['execs']
            for k in range(4):
                st['dev_hist'][k] += d['dev_hist'][k]
            bc = d['bounds_completed']
            cut = bc if bc < job['pb'] else 99
            st['bounds_completed'] = cut if st['bounds_completed'] is None else min(st['bounds_completed'], cut)
            st['pb_max'] = max(st.get('pb_max', 0), job['pb'])
            mixk = '%s pb=%d db=%d %s' % (job.get('mix', '%d threads' % len(job['words'])), job['pb'], job.get('db', 0), job['flavour'])
            bm = st.setdefault('by_mix', {}).setdefault(mixk, {'cases': 0, 'schedules': 0, 'preemption_bound_completed': bc})
            bm['cases'] += 1
            bm['schedules'] += d['execs']
            bm['preemption_bound_completed'] = min(bm['preemption_bound_completed'], bc)
            if not d['exhaustive']:
                st['exhaustive'] = False
            for l in res['levels']:
                if l['complete']:
                    self.per_bound[l['p']] = self.per_bound.get(l['p'], 0) + l['schedules']
            if job['flavour'] == job.get('count_flavour', 'plain'):
                st['cases'] += 1
                st['states'] += len(res['outcomes'])
                nproj = len(set(self.projection(o) for o in res['outcomes']))
                if nproj > 1:
                    st['nontrivial_cases'] += 1
                if len(self.samples) < 6 and nproj > 1:
                    o = res['outcomes'][-1]
                    self.samples.append({'case': job['case'], 'flavour': job['flavour'], 'schedule': o['sched'], 'enabled_set_sizes': o['enabled'],
                                         'observations': o['obs'].strip().split('\n'), 'end_state': o['end'], 'schedules_with_this_outcome': o['count'],
                                         'distinct_outcomes_of_case': len(res['outcomes'])})
        return results

    def report(self, replay_argv0, verify):
        """replay every failure class once (verify(example, replay_result) -> bool says whether the re-run agrees), then
        register the violations.  Disagreement = machinery error."""
        for key in sorted(self.fail):
            f = self.fail[key]
            ex = f['example']
            job, o = ex['job'], ex['outcome']
            r = replay(job['exe'], job['words'], o['sched'], spurious=job.get('spurious', 0), horizon=job.get('horizon', 5000))
            same = (r['obs'] == o['obs'] and r['end'] == o['end'] and r['status'] == o['status'] and bool(r['san']) == bool(o['san']))
            if not same and not r['san'] and not o['san'] and getattr(self, 'oracle', None):
                # the same schedule gave other VALUES this time (e.g. a result read from freed or uninitialised memory): it counts as reproduced
                # if the oracle rejects the replayed execution for the same reason (same key)
                again = [(self.key_hook(job, k) if self.key_hook else k) for k, m in (self.oracle(job, dict(o, obs=r['obs'], end=r['end'], status=r['status'])) or [])]
                same = bool(again)        # rejected again (possibly for another reason: garbage values differ from run to run)
                if not same and any(f2['example']['outcome']['san'] for f2 in self.fail.values()):
                    # the replay happens to pass, and a sanitizer build of this run has already shown (reproducibly) what is wrong (use of released or
                    # uninitialised memory makes the plain build's outcome vary): the sanitizer report is the finding, this one is dropped
                    continue
            if not same or not verify(ex, r, key):
                raise MachineryError('failing schedule did not reproduce on replay: key=%s case=%s sched=%s\nfirst: %s | %s | %s san=%s\nreplay: %s | %s | %s san=%s' % (
                    key, job['case'], o['sched'], o['status'], o['obs'], o['end'], o['san'], r['status'], r['obs'], r['end'], r['san']))
            obj = {'kind': 'schedule', 'key': key, 'case': job['case'], 'words': job['words'], 'flavour': job['flavour'], 'schedule': o['sched'],
                   'spurious': job.get('spurious', 0), 'horizon': job.get('horizon', 5000), 'enabled_set_sizes': o['enabled'], 'observed': {'status': o['status'], 'observations': o['obs'].strip().split('\n'), 'end_state': o['end']},
                   'expected': ex['msg'], 'trace': r['trace'].split('\n'), 'sanitizer_report': r['stderr'][:6000] if r['san'] else '',
                   'cases_failing_with_this_key': len(f['cases']), 'schedules_failing_with_this_key': f['schedules'],
                   'how_to_replay': 'python3 %s replay <this file>' % replay_argv0}
            if getattr(self, 'replay_module', None):
                obj['replay_module'] = self.replay_module
            self.chk.violation(key, obj, '%s  [case %s, flavour %s, schedule %s; %d case(s), %d schedule(s) fail this way]' % (
                ex['msg'][:300], json.dumps(job['case'], sort_keys=True), job['flavour'], o['sched'], len(f['cases']), f['schedules']))

    def fill_coverage(self, rule):
        st, cov = self.stats, self.chk.cov
        cov['evaluations'] = cov.get('evaluations', 0) + st['schedules']
        cov['states'] = cov.get('states', 0) + st['states']
        cov['transitions'] = cov.get('transitions', 0) + st['transitions']
        cov['traces_validated_against_impl'] = cov.get('traces_validated_against_impl', 0) + st['schedules']
        cov['distinct_nontrivial'] = cov.get('distinct_nontrivial', 0) + st['nontrivial_cases']
        cov['cases'] = cov.get('cases', 0) + st['cases']
        cov['max_steps_per_execution'] = max(cov.get('max_steps_per_execution', 0), st['maxsteps'])
        cov['schedules_by_flavour'] = st['schedules_by_flavour']
        spb, cum = {}, 0
        for p in sorted(self.per_bound):
            cum += self.per_bound[p]
            spb[str(p)] = {'new': self.per_bound[p], 'cumulative': cum}
        cov['schedules_per_bound'] = spb
        cov['schedules_by_environment_deviations'] = st['dev_hist']
        bc = st['bounds_completed']
        cov['bounds_completed'] = st.get('pb_max', 0) if bc is None or bc >= 99 else bc   # largest preemption bound completed by every case (cases ask for at most their own pb)
        cov['by_thread_mix_and_bounds'] = st.get('by_mix', {})
        cov['rounds_completed'] = [r for r in self.rounds_started if r not in self.skipped_rounds]
        cov['rounds_skipped_by_deadline'] = sorted(self.skipped_rounds)
        if not st['exhaustive']:
            cov['exhaustive'] = False
        cov['rule'] = rule
        for s in self.samples:
            self.chk.sample(s)


def _short_report(text):
    keep = []
    for ln in text.splitlines():
        if re.match(r'^\s+(Previous |Atomic )?(read|write|Read|Write|READ|WRITE)', ln) or re.match(r'^\s+#[01] ', ln) or 'ERROR: AddressSanitizer' in ln or 'runtime error' in ln:
            keep.append(ln.strip())
        if len(keep) >= 6:
            break
    return ' / '.join(re.sub(r' \(BuildId: [0-9a-f]+\)', '', k) for k in keep)
