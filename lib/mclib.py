"""Build + run helpers for harnesses of the controlled scheduler (mc/sched.c).
A harness binary is built in three flavours: 'plain' (gcc -O1), 'tsan' (-fsanitize=thread), 'asan'
(-fsanitize=address,undefined).  sched.c is always compiled WITHOUT sanitizers and without the renames."""
import json, os, subprocess, sys
from vcommon import REPO, VERIF, BUILD, NCPU, run, sha_files

MC = os.path.join(VERIF, 'mc')
RENAMES = ['-Dpthread_mutex_lock=mc_mutex_lock', '-Dpthread_mutex_unlock=mc_mutex_unlock', '-Dpthread_cond_wait=mc_cond_wait',
           '-Dpthread_cond_timedwait=mc_cond_timedwait', '-Dpthread_cond_signal=mc_cond_signal', '-Dpthread_cond_broadcast=mc_cond_broadcast',
           '-Dpthread_mutex_init=mc_mutex_init', '-Dpthread_mutex_destroy=mc_mutex_destroy', '-Dpthread_cond_init=mc_cond_init',
           '-Dpthread_cond_destroy=mc_cond_destroy', '-Dpthread_create=mc_thread_create', '-Dpthread_join=mc_thread_join']
FLAVOURS = {
    'plain': ('gcc', ['-O1', '-g']),
    'tsan': ('clang', ['-O1', '-g', '-fsanitize=thread', '-fno-omit-frame-pointer']),
    'asan': ('clang', ['-O1', '-g', '-fsanitize=address,undefined', '-fno-sanitize-recover=all', '-fno-omit-frame-pointer']),
}


class MachineryError(Exception):
    pass


def sched_obj(outdir):
    o = os.path.join(outdir, 'sched.o')
    if not os.path.exists(o):
        r = run(['gcc', '-O2', '-g', '-Wall', '-Wextra', '-c', os.path.join(MC, 'sched.c'), '-o', o])
        if r.returncode != 0:
            raise MachineryError('cannot build sched.c: ' + r.stderr.decode()[-2000:])
    return o


def build_harness(outdir, flavour, srcs, incs=(), defs=(), name=None, renames=True, extra_objs=()):
    """compile srcs (code under test + harness) with the renames and the flavour's sanitizer; link with sched.o"""
    cc, flags = FLAVOURS[flavour]
    exe = os.path.join(outdir, name or ('drv-' + flavour))
    cmd = [cc] + flags + ['-w', '-DWASM_THREADS_PTHREADS', '-I', MC] + ['-I' + i for i in incs] + list(defs) + (RENAMES if renames else []) + \
        list(srcs) + [sched_obj(outdir)] + list(extra_objs) + ['-o', exe, '-lpthread', '-lm']
    r = run(cmd, timeout=600)
    if r.returncode != 0:
        raise MachineryError('cannot build harness (%s): %s\n%s' % (flavour, ' '.join(cmd), r.stderr.decode()[-3000:]))
    return exe


TSAN_BASE = 'halt_on_error=0:exitcode=66:report_signal_unsafe=0:atexit_sleep_ms=0:history_size=2'
ASAN_BASE = 'detect_leaks=0:exitcode=67:abort_on_error=0:allocator_may_return_null=1'


def _env(symbolize):
    """sanitizer options: while exploring, TSan reports are not symbolized (110 ms each); the representative
    schedule of every flagged outcome is replayed with symbolize=1 to obtain the readable report"""
    e = dict(os.environ)
    e['TSAN_OPTIONS'] = TSAN_BASE + ':symbolize=%d' % (1 if symbolize else 0)
    e['ASAN_OPTIONS'] = ASAN_BASE + ':symbolize=1'
    e['UBSAN_OPTIONS'] = 'halt_on_error=1:exitcode=68:print_stacktrace=1'
    return e


def explore(exe, words, pb=2, db=0, spurious=0, jobs=1, deadline=0, horizon=5000, maxexec=0, timeout=3600):
    """run the explorer; returns dict(levels=[...], outcomes=[...], done={...}).  Raises MachineryError on exit 2."""
    cmd = [exe, 'explore', '--pb', str(pb), '--db', str(db), '--spurious', str(spurious), '--jobs', str(jobs), '--deadline', str(deadline),
           '--horizon', str(horizon), '--maxexec', str(maxexec), '--'] + [str(w) for w in words]
    r = subprocess.run(cmd, stdout=subprocess.PIPE, stderr=subprocess.PIPE, env=_env(False), timeout=timeout)
    res = {'levels': [], 'outcomes': [], 'done': None, 'cmd': ' '.join(cmd)}
    for line in r.stdout.decode(errors='replace').splitlines():
        if not line.startswith('{'):
            continue
        o = json.loads(line)
        if o['type'] == 'level':
            res['levels'].append(o)
        elif o['type'] == 'outcome':
            res['outcomes'].append(o)
        elif o['type'] == 'done':
            res['done'] = o
        elif o['type'] == 'machinery':
            raise MachineryError('%s: %s' % (' '.join(cmd), json.dumps(o)))
    if r.returncode != 0 or res['done'] is None:
        raise MachineryError('explorer failed rc=%d: %s\n%s' % (r.returncode, ' '.join(cmd), r.stderr.decode(errors='replace')[-2000:]))
    res['outcomes'].sort(key=lambda o: (o['sched'], o['obs']))
    return res


def replay(exe, words, sched, spurious=0, horizon=5000, timeout=300):
    cmd = [exe, 'replay', '--sched', ','.join(str(c) for c in sched) or ',', '--spurious', str(spurious), '--horizon', str(horizon), '--'] + [str(w) for w in words]
    r = subprocess.run(cmd, stdout=subprocess.PIPE, stderr=subprocess.PIPE, env=_env(True), timeout=timeout)
    for line in r.stdout.decode(errors='replace').splitlines():
        if line.startswith('{'):
            o = json.loads(line)
            if o.get('type') == 'replay':
                o['cmd'] = ' '.join(cmd)
                return o
    raise MachineryError('replay failed rc=%d: %s\n%s' % (r.returncode, ' '.join(cmd), r.stderr.decode(errors='replace')[-2000:]))
