"""Batch pipeline: module bytes + case list -> w2c2 (built from /repo) -> generated driver.c -> C compiler
-> lockstep run against libwasmref -> parsed verdicts."""
import os, re, shutil, subprocess, json
from vcommon import REPO, VERIF, build_ref, build_w2c2, scratch, run
from wasmenc import CTYPE

CT = {'i': 'U32', 'I': 'U64', 'f': 'F32', 'F': 'F64', 'v': 'void'}


class Case:
    def __init__(self, name, params, result, inputset, direct_op=-1, desc=None):
        self.name, self.params, self.result, self.inputset, self.direct_op, self.desc = name, params, result, inputset, direct_op, desc


class Batch:
    def __init__(self, wasm, cases, inputsets, alphas=(), imports=()):
        self.wasm = wasm
        self.cases = cases
        self.inputsets = inputsets  # [('explicit', [tuple,...]) | ('product', [alphaidx,...]) | ('range32',)]
        self.alphas = list(alphas)  # [[int,...]]
        self.imports = list(imports)  # [(mod, name, params, result[, csymbol])] in import-index order (function imports only)
        self.externs = []             # [(mod, name, 'table', (size, max)) | (.., 'global', (type, bits)) | (.., 'memory', (pages, max, shared))]
        self.post_translate = None    # optional callable(batch, workdir) run after w2c2 (e.g. read C symbols from the header)


def _arg_expr(t, k):
    if t == 'i': return '(U32)a[%d]' % k
    if t == 'I': return '(U64)a[%d]' % k
    if t == 'f': return 'ls_f32(a[%d])' % k
    return 'ls_f64(a[%d])' % k


def _ret_wrap(t, e):
    if t == 'v': return e + ';'
    if t == 'i': return '*r = (uint64_t)(U32)(%s);' % e
    if t == 'I': return '*r = (uint64_t)(%s);' % e
    if t == 'f': return '*r = ls_b32(%s);' % e
    return '*r = ls_b64(%s);' % e


def cstr(x):
    """the bytes of a name as the body of a C string literal (own escaping: octal for everything outside plain printable ASCII)"""
    bs = x.encode() if isinstance(x, str) else bytes(x)
    return ''.join(chr(c) if 32 <= c < 127 and c not in (34, 92, 63) else '\\%03o' % c for c in bs)


def gen_driver(batch, main=None, extra=''):
    main = main or getattr(batch, 'main', 'pure')
    pre_defs = ''
    if getattr(batch, 'impl_mem', None):
        pre_defs = '#define LS_IMPL_MEM (%s)' % batch.impl_mem
    out = ['#include "m.h"', pre_defs, '#include "lockstep.h"', extra]
    # imported host functions (C symbols <mod>__<name>)
    for idx, imp in enumerate(batch.imports):
        mod, nm, params, result = imp[:4]
        sym = imp[4] if len(imp) > 4 and imp[4] else '%s__%s' % (mod, nm)
        ps = ''.join(',%s a%d' % (CT[t], k) for k, t in enumerate(params))
        conv = []
        for k, t in enumerate(params):
            conv.append({'i': '(uint64_t)a%d', 'I': '(uint64_t)a%d', 'f': 'ls_b32(a%d)', 'F': 'ls_b64(a%d)'}[t] % k)
        body = 'uint64_t a[%d] = {%s}; uint64_t r = ls_host_impl(%d, inst, a, "%s", %d, \'%s\'); (void)r;' % (
            max(1, len(params)), ','.join(conv) if conv else '0', idx, params, len(params), result)
        if result == 'v':
            ret = ''
        elif result in 'iI':
            ret = 'return (%s)r;' % CT[result]
        elif result == 'f':
            ret = 'return ls_f32(r);'
        else:
            ret = 'return ls_f64(r);'
        out.append('%s %s(void* inst%s) { %s %s }' % (CT[result], sym, ps, body, ret))
    # trampolines
    sigs = {}
    for c in batch.cases:
        key = (c.params, c.result)
        if key not in sigs:
            sigs[key] = len(sigs)
            fnty = '%s(*)(mInstance*%s)' % (CT[c.result], ''.join(',' + CT[t] for t in c.params))
            callexpr = '((%s)fn)((mInstance*)inst%s)' % (fnty, ''.join(',' + _arg_expr(t, k) for k, t in enumerate(c.params)))
            out.append('static void tr%d(void* fn, void* inst, const uint64_t* a, uint64_t* r) { (void)a; (void)r; %s }' % (sigs[key], _ret_wrap(c.result, callexpr)))
    # alphabets
    for k, a in enumerate(batch.alphas):
        out.append('static const uint64_t al%d[] = {%s};' % (k, ','.join('0x%xull' % v for v in a)))
    out.append('static const ls_alpha alphas[] = {%s{0,0}};' % ''.join('{%d, al%d},' % (len(a), k) for k, a in enumerate(batch.alphas)))
    # input sets
    decl = []
    for k, s in enumerate(batch.inputsets):
        if s[0] == 'explicit':
            vecs = s[1]
            flat = [v for vec in vecs for v in (vec if len(vec) else (0,))]
            out.append('static const uint64_t is%d[] = {%s};' % (k, ','.join('0x%xull' % v for v in flat) or '0'))
            decl.append('{LS_EXPLICIT, %d, is%d, {0}}' % (len(vecs), k))
        elif s[0] == 'product':
            decl.append('{LS_PRODUCT, 0, 0, {%s}}' % ','.join(str(x) for x in s[1]))
        else:
            decl.append('{LS_RANGE32, 0, 0, {0}}')
    out.append('static const ls_inputs sets[] = {%s};' % ','.join(decl))
    rows = []
    for c in batch.cases:
        rows.append('{"%s", (void*)%s, tr%d, %d, "%s", \'%s\', %d, %d}' % (getattr(c, 'export', None) or c.name, getattr(c, 'sym', None) or 'm_' + c.name, sigs[(c.params, c.result)], len(c.params), c.params, c.result, c.inputset, c.direct_op))
    out.append('static const ls_func funcs[] = {\n%s\n};' % ',\n'.join(rows))
    pre = ''
    if batch.externs:
        decl, init, rimpl, rmem, rtab, rglob = [], [], [], [], [], []
        for k, (mod, nm, kind, spec) in enumerate(batch.externs):
            cond = '!strcmp(m,"%s")&&!strcmp(n,"%s")' % (cstr(mod), cstr(nm))
            if kind == 'table':
                decl.append('static wasmTable ext%d; static wr_table* rext%d;' % (k, k))
                init.append('if (rext%d) { free(ext%d.data); free(rext%d->e); free(rext%d); } wasmTableAllocate(&ext%d, %d, %d); rext%d = wr_table_new(%d, %d, 1);' % (k, k, k, k, k, spec[0], spec[1], k, spec[0], spec[1]))
                rimpl.append('if (%s) return &ext%d;' % (cond, k)); rtab.append('if (%s) return rext%d;' % (cond, k))
            elif kind == 'global':
                ct = CT[spec[0]]
                decl.append('static %s ext%d; static wr_global* rext%d;' % (ct, k, k))
                init.append('{ uint64_t b = 0x%xull; memcpy(&ext%d, &b, sizeof ext%d); free(rext%d); rext%d = wr_global_new(%d, b, 1); }' % (spec[1], k, k, k, k, {'i': 0x7f, 'I': 0x7e, 'f': 0x7d, 'F': 0x7c}[spec[0]]))
                rimpl.append('if (%s) return &ext%d;' % (cond, k)); rglob.append('if (%s) return rext%d;' % (cond, k))
            else:
                decl.append('static wasmMemory* ext%d; static wr_memory* rext%d;' % (k, k))
                init.append('if (rext%d) { free(ext%d->data); free(ext%d); free(rext%d->data); free(rext%d); } ' % (k, k, k, k, k) + 'ext%d = wasmMemoryAllocate(%d, %d, %d); rext%d = wr_memory_new(%d, %d, 1, %d); memset(ext%d->data, 0xEE, %du * 65536u); memset(rext%d->data, 0xEE, %du * 65536u);' % (k, spec[0], spec[1], 1 if spec[2] else 0, k, spec[0], spec[1], 1 if spec[2] else 0, k, spec[0], k, spec[0]))
                rimpl.append('if (%s) return ext%d;' % (cond, k)); rmem.append('if (%s) return rext%d;' % (cond, k))
        out += decl
        out.append('static void* gen_resolve(const char* m, const char* n) { %s return NULL; }' % ' '.join(rimpl))
        out.append('static wr_memory* gen_rmem(void* c, const char* m, const char* n) { (void)c; %s return NULL; }' % ' '.join(rmem))
        out.append('static wr_table* gen_rtab(void* c, const char* m, const char* n) { (void)c; %s return NULL; }' % ' '.join(rtab))
        out.append('static wr_global* gen_rglob(void* c, const char* m, const char* n) { (void)c; %s return NULL; }' % ' '.join(rglob))
        out.append('static wr_env gen_env;')
        pre = '%s gen_env.resolve_memory = gen_rmem; gen_env.resolve_table = gen_rtab; gen_env.resolve_global = gen_rglob; ls_user_resolve = gen_resolve; ls_user_env = &gen_env;' % ' '.join(init)
    if getattr(batch, 'big_endian', False):
        if not batch.externs:
            out.append('static wr_env gen_env;')
            pre += ' ls_user_env = &gen_env;'
        pre += ' gen_env.big_endian_image = 1;'
    if main == 'bfs':
        rows = []
        for ci, args, flag in batch.ops:
            a = list(args) + [0] * (4 - len(args))
            rows.append('{%d, {%s}, %d}' % (ci, ','.join('0x%xull' % v for v in a), flag))
        out.append('static const ls_op ops[] = {%s};' % ',\n'.join(rows))
        out.append('int main(int argc, char** argv) { %s return ls_main_bfs(argc, argv, funcs, %d, ops, %d, %d, %dull); }' % (pre, len(batch.cases), len(batch.ops), batch.bfs_depth, batch.bfs_budget))
    if main == 'seq2':
        rows = []
        for ci, args, inst in batch.ops:
            a = list(args) + [0] * (4 - len(args))
            rows.append('{%d, {%s}, %d}' % (max(ci, 0), ','.join('0x%xull' % v for v in a), inst))
        out.append('static const ls_op2 ops[] = {%s};' % ',\n'.join(rows))
        if batch.externs:
            out.append('static void gen_reset(void) { %s }' % pre)
            out.append('int main(int argc, char** argv) { ls_env_reset = gen_reset; return ls_main_seq2(argc, argv, funcs, %d, ops, %d, %d); }' % (len(batch.cases), len(batch.ops), batch.seq_len))
        else:
            out.append('int main(int argc, char** argv) { return ls_main_seq2(argc, argv, funcs, %d, ops, %d, %d); }' % (len(batch.cases), len(batch.ops), batch.seq_len))
    if main == 'pure' and getattr(batch, 'compare_mem', False):
        pre += ' ls_compare_mem_flag = 1;'
    if main == 'pure':
        out.append('int main(int argc, char** argv) { %s return ls_main_pure(argc, argv, funcs, %d, sets, alphas); }' % (pre, len(batch.cases)))
    return '\n'.join(out) + '\n'


_BFS = re.compile(r'BFSDONE states=(\d+) transitions=(\d+) depth_completed=(\d+) capped=(\d+) ops=(\d+) op_outcomes=(\d+) ops_single_outcome=(\d+)')
_DONE = re.compile(r'DONE evals=(\d+) nontrivial=(\d+) funcs=(\d+) skipped=(\d+) weak=(\d+) traps=(\d+) mismatches=(\d+)')


def parse_output(text):
    res = {'done': False, 'mismatch_lines': [], 'crash': None, 'errors': []}
    for line in text.splitlines():
        m = _DONE.match(line)
        if m:
            res.update(done=True, evals=int(m.group(1)), nontrivial=int(m.group(2)), funcs=int(m.group(3)), skipped=int(m.group(4)),
                       weak=int(m.group(5)), traps=int(m.group(6)), mismatches=int(m.group(7)))
        elif _BFS.match(line):
            g = _BFS.match(line)
            res['bfs'] = {'states': int(g.group(1)), 'transitions': int(g.group(2)), 'depth_completed': int(g.group(3)), 'capped': int(g.group(4)),
                          'ops': int(g.group(5)), 'op_outcomes': int(g.group(6)), 'ops_single_outcome': int(g.group(7))}
        elif line.startswith('HISTORY'):
            res.setdefault('histories', []).append([int(x) for x in line.split()[1:]])
        elif line.startswith('MISMATCH'):
            res['mismatch_lines'].append(line)
        elif line.startswith('CRASH'):
            res['crash'] = line
        elif line.startswith('ERROR'):
            res['errors'].append(line)
    return res


def translate(wasm_bytes, workdir, w2c2=None, w2c2_args=(), modname='m'):
    """run the translator on wasm bytes; returns (returncode, stderr)"""
    w2c2 = w2c2 or build_w2c2('plain')
    wp = os.path.join(workdir, modname + '.wasm')
    with open(wp, 'wb') as f:
        f.write(wasm_bytes)
    r = run([w2c2] + list(w2c2_args) + [wp, os.path.join(workdir, modname + '.c')], timeout=300)
    return r.returncode, r.stderr.decode(errors='replace')


def compile_driver(workdir, cc='clang', cflags=('-O0',), extra_srcs=(), defines=(), out='drv', link=(), mod_cflags=None):
    ref = build_ref()
    import glob
    modsrcs = [os.path.join(workdir, 'm.c')] + sorted(glob.glob(os.path.join(workdir, '[sd][0-9]*.c')))
    if mod_cflags is not None:
        # the translated module is compiled on its own with the cell's flags (e.g. -std=gnu89), the driver with the default dialect
        objs = []
        for src in modsrcs:
            o = src[:-2] + '.o'
            cmd = [cc] + list(mod_cflags) + ['-w'] + list(defines) + ['-I', os.path.join(REPO, 'w2c2'), '-I', workdir, '-c', src, '-o', o]
            r = run(cmd, timeout=1800)
            if r.returncode != 0:
                return r.returncode, r.stderr.decode(errors='replace'), cmd
            objs.append(o)
        srcs = [os.path.join(workdir, 'driver.c')] + list(extra_srcs) + objs
    else:
        srcs = modsrcs[:1] + [os.path.join(workdir, 'driver.c')] + list(extra_srcs) + modsrcs[1:]
    cmd = [cc] + list(cflags) + ['-w'] + list(defines) + ['-I', os.path.join(REPO, 'w2c2'), '-I', ref['inc'], '-I', workdir] + srcs + ref['objs'] + list(link) + ['-lm', '-o', os.path.join(workdir, out)]
    r = run(cmd, timeout=1800)
    return r.returncode, r.stderr.decode(errors='replace'), cmd


def run_batch(batch, cc='clang', cflags=('-O0',), w2c2=None, w2c2_args=(), timeout=900, drv_args=(), keep=False, driver_extra='', defines=(), env=None, mod_cflags=None, compile_only=False):
    """Full pipeline for one batch.  Returns dict(parsed output + 'stage' on failure)."""
    wd = scratch('batch')
    try:
        rc, err = translate(batch.wasm, wd, w2c2, w2c2_args)
        if rc != 0:
            return {'stage': 'translate', 'rc': rc, 'stderr': err[-2000:], 'done': False}
        if batch.post_translate:
            batch.post_translate(batch, wd)
        with open(os.path.join(wd, 'driver.c'), 'w') as f:
            f.write(gen_driver(batch, extra=driver_extra))
        link = []
        if 'gnu-ld' in list(w2c2_args):
            # data segments were written to the file 'datasegments': link it the way the README describes for GNU ld
            lr = subprocess.run(['ld', '-r', '-b', 'binary', '-o', 'ds.o', 'datasegments'], cwd=wd, stdout=subprocess.PIPE, stderr=subprocess.PIPE)
            if lr.returncode != 0:
                return {'stage': 'ld', 'rc': lr.returncode, 'stderr': lr.stderr.decode(errors='replace')[-2000:], 'done': False}
            link = [os.path.join(wd, 'ds.o')]
        rc, err, cmd = compile_driver(wd, cc, cflags, defines=defines, mod_cflags=mod_cflags, link=link)
        if rc == 0 and compile_only:
            return {'stage': 'compile', 'done': True, 'evals': 0, 'nontrivial': 0, 'funcs': len(batch.cases), 'skipped': 0, 'weak': 0, 'traps': 0, 'mismatches': 0, 'mismatch_lines': [], 'crash': None, 'errors': []}
        if rc != 0:
            # attribute compile errors to translated functions (internal names f<index>)
            bad = []
            try:
                lines = open(os.path.join(wd, 'm.c')).read().split('\n')
                starts = [(n, re.match(r'^[A-Za-z0-9]+ f(\d+)\(', l)) for n, l in enumerate(lines)]
                starts = [(n, int(m_.group(1))) for n, m_ in starts if m_]
                for m_ in re.finditer(r'/m\.c:(\d+):\d+: error', err):
                    ln = int(m_.group(1)) - 1
                    f = [fi for n, fi in starts if n <= ln]
                    if f and f[-1] not in bad:
                        bad.append(f[-1])
            except Exception:
                pass
            return {'stage': 'compile', 'rc': rc, 'stderr': err[-3000:], 'done': False, 'cmd': ' '.join(cmd), 'bad_funcs': bad}
        e = dict(os.environ)
        e.update(env or {})
        e.setdefault('ASAN_OPTIONS', 'detect_leaks=0:abort_on_error=0:handle_segv=0:handle_abort=0:handle_sigfpe=0:handle_sigbus=0:handle_sigill=0')
        e.setdefault('UBSAN_OPTIONS', 'print_stacktrace=0:halt_on_error=1')
        try:
            r = subprocess.run([os.path.join(wd, 'drv'), os.path.join(wd, 'm.wasm')] + [str(a) for a in drv_args], stdout=subprocess.PIPE, stderr=subprocess.PIPE, timeout=timeout, env=e)
        except subprocess.TimeoutExpired:
            return {'stage': 'run', 'rc': -1, 'stderr': 'timeout', 'done': False}
        res = parse_output(r.stdout.decode(errors='replace'))
        res['rc'] = r.returncode
        res['stderr'] = r.stderr.decode(errors='replace')[-3000:]
        res['stage'] = 'run'
        return res
    finally:
        if not keep:
            shutil.rmtree(wd, ignore_errors=True)
        else:
            print('kept', wd)
