"""Own WebAssembly binary parser that keeps the *encoding structure*: every LEB128 field is a token that can be
re-emitted with redundant padding, every size-prefixed region is re-measured on output.  Used by C08 to enumerate
spec-equivalent encodings of a module, and by C10 to find structural boundaries."""
from wasmenc import uleb, sleb


class Raw:
    __slots__ = ('data',)

    def __init__(self, data): self.data = bytes(data)
    def emit(self): return self.data


class Leb:
    """value + signedness + bit width; length = total encoded length (None = canonical)"""
    __slots__ = ('value', 'signed', 'bits', 'length', 'role', 'orig_len')

    def __init__(self, value, signed, bits, orig_len, role):
        self.value, self.signed, self.bits, self.orig_len, self.role = value, signed, bits, orig_len, role
        self.length = orig_len

    def canonical_len(self):
        return len(sleb(self.value) if self.signed else uleb(self.value))

    def max_len(self):
        return (self.bits + 6) // 7

    def emit(self):
        base = bytearray(sleb(self.value) if self.signed else uleb(self.value))
        n = self.length if self.length is not None else len(base)
        if n < len(base):
            raise ValueError('length below canonical')
        if n > len(base):
            fill = 0x7f if (self.signed and self.value < 0) else 0x00
            base[-1] |= 0x80
            while len(base) < n - 1:
                base.append(0x80 | fill)
            base.append(fill)
        return bytes(base)


class Sized:
    """size LEB followed by children whose total length it states"""
    __slots__ = ('size', 'children', 'role')

    def __init__(self, size, children, role):
        self.size, self.children, self.role = size, children, role

    def emit(self):
        body = b''.join(c.emit() for c in self.children)
        self.size.value = len(body)
        if self.size.length is not None and self.size.length < self.size.canonical_len():
            self.size.length = self.size.canonical_len()
        return self.size.emit() + body


class Section:
    __slots__ = ('id', 'sized', 'start', 'end')

    def __init__(self, sid, sized): self.id, self.sized = sid, sized
    def emit(self): return bytes([self.id]) + self.sized.emit()


class ParseError(Exception):
    pass


class Reader:
    def __init__(self, data, pos=0, end=None):
        self.d, self.p, self.end = data, pos, len(data) if end is None else end

    def u8(self):
        if self.p >= self.end:
            raise ParseError('eof')
        b = self.d[self.p]; self.p += 1
        return b

    def raw(self, n):
        if self.p + n > self.end:
            raise ParseError('eof')
        r = Raw(self.d[self.p:self.p + n]); self.p += n
        return r

    def leb(self, signed, bits, role):
        start = self.p; v = 0; shift = 0
        while True:
            b = self.u8()
            v |= (b & 0x7f) << shift; shift += 7
            if not (b & 0x80):
                break
            if shift > bits + 7:
                raise ParseError('leb too long')
        if signed and (b & 0x40):
            v -= 1 << shift
        if not signed:
            v &= (1 << bits) - 1
        return Leb(v, signed, bits, self.p - start, role)

    def u32(self, role): return self.leb(False, 32, role)


def _limits(r, out, role):
    flag = r.u8(); out.append(Raw([flag]))
    out.append(r.u32(role + '.min'))
    if flag & 1:
        out.append(r.u32(role + '.max'))


def _name(r, out, role):
    n = r.u32(role + '.len'); out.append(n); out.append(r.raw(n.value))


def _instrs(r, out, stop_at_end_depth0=True):
    """parse an instruction sequence up to and including the matching 'end' of depth 0"""
    depth = 0
    while True:
        op = r.u8(); out.append(Raw([op]))
        if op in (0x02, 0x03, 0x04):
            out.append(r.leb(True, 33, 'blocktype')); depth += 1
        elif op == 0x0b:
            if depth == 0:
                return
            depth -= 1
        elif op in (0x0c, 0x0d):
            out.append(r.u32('labelidx'))
        elif op == 0x0e:
            n = r.u32('br_table.count'); out.append(n)
            for _ in range(n.value + 1):
                out.append(r.u32('labelidx'))
        elif op == 0x10:
            out.append(r.u32('funcidx'))
        elif op == 0x11:
            out.append(r.u32('typeidx')); out.append(r.raw(1))      # table index: a reserved byte in the targeted spec level
        elif op in (0x20, 0x21, 0x22):
            out.append(r.u32('localidx'))
        elif op in (0x23, 0x24):
            out.append(r.u32('globalidx'))
        elif 0x28 <= op <= 0x3e:
            out.append(r.u32('memarg.align')); out.append(r.u32('memarg.offset'))
        elif op in (0x3f, 0x40):
            out.append(r.raw(1))
        elif op == 0x41:
            out.append(r.leb(True, 32, 'i32.const'))
        elif op == 0x42:
            out.append(r.leb(True, 64, 'i64.const'))
        elif op == 0x43:
            out.append(r.raw(4))
        elif op == 0x44:
            out.append(r.raw(8))
        elif op == 0xfc:
            s = r.u32('misc.opcode'); out.append(s)
            if s.value == 8:
                out.append(r.u32('dataidx')); out.append(r.raw(1))
            elif s.value == 9:
                out.append(r.u32('dataidx'))
            elif s.value == 10:
                out.append(r.raw(2))
            elif s.value == 11:
                out.append(r.raw(1))
            elif s.value in (12, 14):
                out.append(r.u32('idx')); out.append(r.u32('idx'))
            elif s.value in (13, 15, 16, 17):
                out.append(r.u32('idx'))
        elif op == 0xfe:
            s = r.u32('threads.opcode'); out.append(s)
            if s.value == 3:
                out.append(r.raw(1))
            else:
                out.append(r.u32('memarg.align')); out.append(r.u32('memarg.offset'))
        elif op == 0x1c:
            n = r.u32('select.count'); out.append(n); out.append(r.raw(n.value))
        elif op in (0xd0,):
            out.append(r.raw(1))
        elif op in (0xd2,):
            out.append(r.u32('funcidx'))
        # all other opcodes have no immediates


def parse(data):
    """returns (header Raw, [Section])"""
    if data[:8] != b'\0asm\x01\0\0\0':
        raise ParseError('header')
    r = Reader(data, 8)
    sections = []
    while r.p < r.end:
        sid = r.u8()
        size = r.u32('section.size')
        end = r.p + size.value
        if end > r.end:
            raise ParseError('section size')
        s = Reader(data, r.p, end)
        ch = []
        if sid == 0:
            _name(s, ch, 'custom.name'); ch.append(s.raw(end - s.p))
        elif sid == 1:
            n = s.u32('type.count'); ch.append(n)
            for _ in range(n.value):
                ch.append(s.raw(1))
                c = s.u32('type.params'); ch.append(c); ch.append(s.raw(c.value))
                c = s.u32('type.results'); ch.append(c); ch.append(s.raw(c.value))
        elif sid == 2:
            n = s.u32('import.count'); ch.append(n)
            for _ in range(n.value):
                _name(s, ch, 'import.module'); _name(s, ch, 'import.name')
                k = s.u8(); ch.append(Raw([k]))
                if k == 0:
                    ch.append(s.u32('typeidx'))
                elif k == 1:
                    ch.append(s.raw(1)); _limits(s, ch, 'table')
                elif k == 2:
                    _limits(s, ch, 'memory')
                else:
                    ch.append(s.raw(2))
        elif sid == 3:
            n = s.u32('function.count'); ch.append(n)
            for _ in range(n.value):
                ch.append(s.u32('typeidx'))
        elif sid == 4:
            n = s.u32('table.count'); ch.append(n)
            for _ in range(n.value):
                ch.append(s.raw(1)); _limits(s, ch, 'table')
        elif sid == 5:
            n = s.u32('memory.count'); ch.append(n)
            for _ in range(n.value):
                _limits(s, ch, 'memory')
        elif sid == 6:
            n = s.u32('global.count'); ch.append(n)
            for _ in range(n.value):
                ch.append(s.raw(2)); _instrs(s, ch)
        elif sid == 7:
            n = s.u32('export.count'); ch.append(n)
            for _ in range(n.value):
                _name(s, ch, 'export.name'); ch.append(s.raw(1)); ch.append(s.u32('export.index'))
        elif sid == 8:
            ch.append(s.u32('start.funcidx'))
        elif sid == 9:
            n = s.u32('elem.count'); ch.append(n)
            for _ in range(n.value):
                f = s.u32('elem.flag'); ch.append(f)
                fl = f.value
                if not (fl & 1):
                    if fl & 2:
                        ch.append(s.u32('tableidx'))
                    _instrs(s, ch)
                if fl & 3:
                    ch.append(s.raw(1))
                c = s.u32('elem.len'); ch.append(c)
                for _ in range(c.value):
                    if fl & 4:
                        _instrs(s, ch)
                    else:
                        ch.append(s.u32('funcidx'))
        elif sid == 10:
            n = s.u32('code.count'); ch.append(n)
            for _ in range(n.value):
                bs = s.u32('body.size')
                bend = s.p + bs.value
                b = Reader(data, s.p, bend)
                bc = []
                g = b.u32('locals.groups'); bc.append(g)
                for _ in range(g.value):
                    bc.append(b.u32('locals.count')); bc.append(b.raw(1))
                _instrs(b, bc)
                if b.p != bend:
                    raise ParseError('body size')
                s.p = bend
                ch.append(Sized(bs, bc, 'body'))
        elif sid == 11:
            n = s.u32('data.count'); ch.append(n)
            for _ in range(n.value):
                f = s.u32('data.flag'); ch.append(f)
                if not (f.value & 1):
                    if f.value & 2:
                        ch.append(s.u32('memidx'))
                    _instrs(s, ch)
                c = s.u32('data.len'); ch.append(c); ch.append(s.raw(c.value))
        elif sid == 12:
            ch.append(s.u32('datacount'))
        else:
            raise ParseError('section id %d' % sid)
        if s.p != end:
            raise ParseError('section %d size mismatch' % sid)
        sec = Section(sid, Sized(size, ch, 'section'))
        sec.start, sec.end = r.p - size.orig_len - 1, end
        sections.append(sec)
        r.p = end
    return Raw(data[:8]), sections


def emit(header, sections):
    return header.emit() + b''.join(s.emit() for s in sections)


def all_lebs(sections):
    """every Leb token (including size fields) in document order"""
    out = []

    def walk(tok):
        if isinstance(tok, Leb):
            out.append(tok)
        elif isinstance(tok, Sized):
            out.append(tok.size)
            for c in tok.children:
                walk(c)
    for s in sections:
        walk(s.sized)
    return out


def custom_section(name, payload):
    nm = name.encode() if isinstance(name, str) else name
    return Section(0, Sized(Leb(0, False, 32, None, 'section.size'), [Leb(len(nm), False, 32, None, 'custom.name.len'), Raw(nm), Raw(payload)], 'section'))


ORDER = [1, 2, 3, 4, 5, 6, 7, 8, 9, 12, 10, 11]


def empty_section(sid):
    return Section(sid, Sized(Leb(0, False, 32, None, 'section.size'), [Leb(0, False, 32, None, 'count')], 'section'))


def boundaries(data):
    """byte offsets of structural boundaries: section starts/ends, function body starts/ends (for C10)"""
    hdr, secs = parse(data)
    b = {8, len(data)}
    for s in secs:
        b.add(s.start); b.add(s.end)
    # function bodies
    r = Reader(data, 8)
    while r.p < r.end:
        sid = r.u8(); size = r.u32('s'); end = r.p + size.value
        if sid == 10:
            s = Reader(data, r.p, end)
            n = s.u32('c')
            for _ in range(n.value):
                bs = s.u32('b'); b.add(s.p); s.p += bs.value; b.add(s.p)
        r.p = end
    return sorted(b)
