"""Validator-driven depth-first enumeration of ALL valid function bodies of <= N instructions over a small
instruction alphabet (C03).  The validator is the spec's algorithm: operand stack with Unknown, control frames
with an 'unreachable' flag (stack-polymorphic dead code).  A prefix is pruned as soon as it is invalid or can no
longer be closed within the remaining budget."""
from wasmenc import *

U = 'U'  # unknown operand type (polymorphic stack)


class Sym:
    __slots__ = ('name', 'kind', 'pops', 'pushes', 'arg', 'enc')

    def __init__(self, name, kind, pops=(), pushes=(), arg=None, enc=None):
        self.name, self.kind, self.pops, self.pushes, self.arg, self.enc = name, kind, tuple(pops), tuple(pushes), arg, enc


def _match(a, b):
    return a == b or a == U or b == U


class Enumerator:
    def __init__(self, symbols, params, locals_types, result):
        """params/locals_types: strings of type chars; result: '' or one type char"""
        self.symbols = symbols
        self.ltypes = params + locals_types
        self.result = tuple(result)
        self.count = 0

    # ---- validator primitives on (vals, ctrls) ----
    def _pop(self, vals, fr, want):
        # fr = (kind, label_types, end_types, height, unreachable)
        if len(vals) == fr[3]:
            if fr[4]:
                return vals, (want if want is not None else U)
            return None, None
        top = vals[-1]
        if want is not None and not _match(top, want):
            return None, None
        return vals[:-1], top

    def _pops(self, vals, fr, types):
        for t in reversed(types):
            vals, _ = self._pop(vals, fr, t)
            if vals is None:
                return None
        return vals

    def _unreachable(self, vals, ctrls):
        fr = ctrls[-1]
        return vals[:fr[3]], ctrls[:-1] + ((fr[0], fr[1], fr[2], fr[3], True),)

    def step(self, vals, ctrls, s):
        """returns (vals, ctrls) after symbol s, or None if invalid.  ctrls empty => function closed."""
        fr = ctrls[-1]
        k = s.kind
        if k == 'simple':
            v = self._pops(vals, fr, s.pops)
            if v is None:
                return None
            return v + s.pushes, ctrls
        if k == 'lget':
            return vals + (self.ltypes[s.arg],), ctrls
        if k == 'lset':
            v = self._pops(vals, fr, (self.ltypes[s.arg],))
            return None if v is None else (v, ctrls)
        if k == 'ltee':
            t = self.ltypes[s.arg]
            v = self._pops(vals, fr, (t,))
            return None if v is None else (v + (t,), ctrls)
        if k == 'drop':
            v, _ = self._pop(vals, fr, None)
            return None if v is None else (v, ctrls)
        if k == 'select':
            v = self._pops(vals, fr, ('i',))
            if v is None:
                return None
            v, t1 = self._pop(v, fr, None)
            if v is None:
                return None
            v, t2 = self._pop(v, fr, None)
            if v is None or not _match(t1, t2):
                return None
            return v + ((t1 if t1 != U else t2),), ctrls
        if k in ('block', 'loop', 'if'):
            v = vals
            if k == 'if':
                v = self._pops(vals, fr, ('i',))
                if v is None:
                    return None
            bt = tuple(s.arg)
            label = () if k == 'loop' else bt
            return v, ctrls + ((k, label, bt, len(v), False),)
        if k == 'else':
            if fr[0] != 'if':
                return None
            v = self._pops(vals, fr, fr[2])
            if v is None or len(v) != fr[3]:
                return None
            return v, ctrls[:-1] + (('else', fr[1], fr[2], fr[3], False),)
        if k == 'end':
            if fr[0] == 'func':
                return None  # the final end is implicit
            if fr[0] == 'if' and fr[2] != ():
                return None  # if without else must have empty type
            v = self._pops(vals, fr, fr[2])
            if v is None or len(v) != fr[3]:
                return None
            return v + fr[2], ctrls[:-1]
        if k == 'br':
            if s.arg >= len(ctrls):
                return None
            v = self._pops(vals, fr, ctrls[-1 - s.arg][1])
            if v is None:
                return None
            return self._unreachable(v, ctrls)
        if k == 'br_if':
            if s.arg >= len(ctrls):
                return None
            lt = ctrls[-1 - s.arg][1]
            v = self._pops(vals, fr, ('i',))
            if v is None:
                return None
            v = self._pops(v, fr, lt)
            if v is None:
                return None
            return v + lt, ctrls
        if k == 'br_table':
            targets, default = s.arg
            if default >= len(ctrls) or any(t >= len(ctrls) for t in targets):
                return None
            v = self._pops(vals, fr, ('i',))
            if v is None:
                return None
            dl = ctrls[-1 - default][1]
            for t in targets:
                if len(ctrls[-1 - t][1]) != len(dl):
                    return None
                if self._pops(v, fr, ctrls[-1 - t][1]) is None:
                    return None
            v2 = self._pops(v, fr, dl)
            if v2 is None:
                return None
            return self._unreachable(v2, ctrls)
        if k == 'return':
            v = self._pops(vals, fr, self.result)
            if v is None:
                return None
            return self._unreachable(v, ctrls)
        if k == 'unreachable':
            return self._unreachable(vals, ctrls)
        if k == 'deadcall':
            # a call of ANOTHER enumerated function of the batch, allowed in unreachable code only (it is never executed: what matters is
            # that the translator still decodes the instruction - its immediate is a byte that is also an opcode)
            if not fr[4]:
                return None
            v = self._pops(vals, fr, s.pops)
            if v is None:
                return None
            return v + s.pushes, ctrls
        raise ValueError(k)

    def closable(self, vals, ctrls):
        """can the function frame be closed right now?"""
        if len(ctrls) != 1:
            return False
        fr = ctrls[0]
        v = self._pops(vals, fr, self.result)
        return v is not None and len(v) == fr[3]

    def enumerate(self, n, first=None, prefix=(), suffix=()):
        """yield every valid body with 1..n enumerated symbols; 'first' restricts the first symbol (sharding).
        prefix / suffix: fixed symbol lists placed before / after the enumerated part (a CONTEXT: e.g. dead code inside a block
        that is followed by live code); the yielded body is prefix + enumerated + suffix and is valid as a whole."""
        vals, ctrls = (), (('func', self.result, self.result, 0, False),)
        for s in prefix:
            r = self.step(vals, ctrls, s)
            if r is None:
                raise ValueError('context prefix is not valid at %s' % s.name)
            vals, ctrls = r
        nclose = sum(1 for s in suffix if s.kind == 'end')
        syms = self.symbols
        prefix, suffix = list(prefix), list(suffix)

        def complete(vals, ctrls):
            for s in suffix:
                if not ctrls:
                    return False
                r = self.step(vals, ctrls, s)
                if r is None:
                    return False
                vals, ctrls = r
            return bool(ctrls) and self.closable(vals, ctrls)

        def rec(vals, ctrls, seq, left):
            if seq and complete(vals, ctrls):
                yield prefix + list(seq) + suffix
            if left == 0:
                return
            # every open block needs an 'end' (the suffix supplies nclose of them)
            if len(ctrls) - 1 - nclose > left:
                return
            for s in syms:
                if not seq and first is not None and s is not first:
                    continue
                r = self.step(vals, ctrls, s)
                if r is None or not r[1]:
                    continue
                if len(r[1]) - 1 - nclose > left - 1:
                    continue
                seq.append(s)
                yield from rec(r[0], r[1], seq, left - 1)
                seq.pop()
        yield from rec(vals, ctrls, [], n)


def encode_body(seq):
    """symbols -> bytes; the k-th constant of a body gets the value 16+k so the consumer identifies its producer"""
    out = bytearray()
    k = 0
    for s in seq:
        if s.enc == 'const':
            t = s.arg
            if t in 'iI':
                out += const(t, 16 + k)
            elif t == 'f':
                import struct
                out += f32_const(struct.unpack('<I', struct.pack('<f', float(16 + k)))[0])
            else:
                import struct
                out += f64_const(struct.unpack('<Q', struct.pack('<d', float(16 + k)))[0])
            k += 1
        else:
            out += s.enc
    return bytes(out)


def describe(seq):
    return ' '.join(s.name for s in seq)


def sigma_full():
    """33 symbols for signature (i32 i32)->i32, locals i32 (index 2), i64 (index 3); import 0 = mark (i32)->(i32)"""
    S = []
    S.append(Sym('i32.const', 'simple', (), ('i',), 'i', 'const'))
    S.append(Sym('i64.const', 'simple', (), ('I',), 'I', 'const'))
    for i in range(4):
        S.append(Sym('local.get %d' % i, 'lget', arg=i, enc=local_get(i)))
    S.append(Sym('local.set 2', 'lset', arg=2, enc=local_set(2)))
    S.append(Sym('local.set 3', 'lset', arg=3, enc=local_set(3)))
    S.append(Sym('local.tee 2', 'ltee', arg=2, enc=local_tee(2)))
    S.append(Sym('drop', 'drop', enc=DROP))
    S.append(Sym('select', 'select', enc=SELECT))
    S.append(Sym('nop', 'simple', (), (), enc=NOP))
    S.append(Sym('i32.wrap_i64', 'simple', ('I',), ('i',), enc=op(0xa7)))
    S.append(Sym('i32.add', 'simple', ('i', 'i'), ('i',), enc=op(0x6a)))
    for kind, fn in (('block', block), ('loop', loop), ('if', if_)):
        S.append(Sym(kind, kind, arg='', enc=fn(None)))
        S.append(Sym(kind + '(i32)', kind, arg='i', enc=fn('i')))
    S.append(Sym('else', 'else', enc=ELSE))
    S.append(Sym('end', 'end', enc=END))
    for d in range(3):
        S.append(Sym('br %d' % d, 'br', arg=d, enc=br(d)))
    for d in range(2):
        S.append(Sym('br_if %d' % d, 'br_if', arg=d, enc=br_if(d)))
    S.append(Sym('br_table[0]1', 'br_table', arg=((0,), 1), enc=br_table([0], 1)))
    S.append(Sym('br_table[1,0]2', 'br_table', arg=((1, 0), 2), enc=br_table([1, 0], 2)))
    S.append(Sym('return', 'return', enc=RETURN))
    S.append(Sym('unreachable', 'unreachable', enc=UNREACHABLE))
    S.append(Sym('mark', 'simple', ('i',), ('i',), enc=call(0)))
    S.append(Sym('dec0', 'simple', (), ('i',), enc=local_get(0) + i32_const(1) + op(0x6b) + local_tee(0)))
    return S, 'ii', 'iI', 'i'


def sigma_ctl():
    """13 symbols reaching deeper shapes (value-carrying branches out of depth 2, dead code with nested blocks)"""
    S = []
    S.append(Sym('i32.const', 'simple', (), ('i',), 'i', 'const'))
    S.append(Sym('drop', 'drop', enc=DROP))
    S.append(Sym('local.get 0', 'lget', arg=0, enc=local_get(0)))
    S.append(Sym('block', 'block', arg='', enc=block(None)))
    S.append(Sym('block(i32)', 'block', arg='i', enc=block('i')))
    S.append(Sym('if(i32)', 'if', arg='i', enc=if_('i')))
    S.append(Sym('else', 'else', enc=ELSE))
    S.append(Sym('end', 'end', enc=END))
    S.append(Sym('br 0', 'br', arg=0, enc=br(0)))
    S.append(Sym('br 1', 'br', arg=1, enc=br(1)))
    S.append(Sym('br_if 1', 'br_if', arg=1, enc=br_if(1)))
    S.append(Sym('br_table[1,0]0', 'br_table', arg=((1, 0), 0), enc=br_table([1, 0], 0)))
    S.append(Sym('unreachable', 'unreachable', enc=UNREACHABLE))
    return S, 'ii', '', 'i'


def sigma_mid():
    """25 symbols used INSIDE fixed contexts (see contexts()): signature (i32 i32)->i32, no extra locals, import 0 = mark"""
    S = []
    S.append(Sym('i32.const', 'simple', (), ('i',), 'i', 'const'))
    S.append(Sym('drop', 'drop', enc=DROP))
    S.append(Sym('local.get 0', 'lget', arg=0, enc=local_get(0)))
    S.append(Sym('local.get 1', 'lget', arg=1, enc=local_get(1)))
    S.append(Sym('i32.add', 'simple', ('i', 'i'), ('i',), enc=op(0x6a)))
    for kind, fn in (('block', block), ('if', if_)):
        S.append(Sym(kind, kind, arg='', enc=fn(None)))
        S.append(Sym(kind + '(i32)', kind, arg='i', enc=fn('i')))
    S.append(Sym('loop', 'loop', arg='', enc=loop(None)))
    S.append(Sym('else', 'else', enc=ELSE))
    S.append(Sym('end', 'end', enc=END))
    for d in range(2):
        S.append(Sym('br %d' % d, 'br', arg=d, enc=br(d)))
    for d in range(2):
        S.append(Sym('br_if %d' % d, 'br_if', arg=d, enc=br_if(d)))
    S.append(Sym('br_table[0]1', 'br_table', arg=((0,), 1), enc=br_table([0], 1)))
    S.append(Sym('br_table[]0', 'br_table', arg=((), 0), enc=br_table([], 0)))      # empty label vector: only the default target
    S.append(Sym('br_table[]1', 'br_table', arg=((), 1), enc=br_table([], 1)))
    S.append(Sym('return', 'return', enc=RETURN))
    S.append(Sym('unreachable', 'unreachable', enc=UNREACHABLE))
    S.append(Sym('mark', 'simple', ('i',), ('i',), enc=call(0)))
    S.append(Sym('dec0', 'simple', (), ('i',), enc=local_get(0) + i32_const(1) + op(0x6b) + local_tee(0)))
    # dead calls whose function index is the byte of a structural opcode: 5 = else, 11 = end (functions 5 and 11 of the batch have this signature)
    S.append(Sym('call 5 (dead)', 'deadcall', ('i', 'i'), ('i',), enc=call(5)))
    S.append(Sym('call 11 (dead)', 'deadcall', ('i', 'i'), ('i',), enc=call(11)))
    return S, 'ii', '', 'i'


def contexts():
    """named (prefix, suffix) contexts for sigma_mid: the enumerated part sits in dead code that is followed by live code, in an
    if-arm, above extra operands inside / outside a value-carrying block, inside a loop, and spans both arms of an if above an operand"""
    c = lambda: Sym('i32.const', 'simple', (), ('i',), 'i', 'const')
    blk, blki = Sym('block', 'block', arg='', enc=block(None)), Sym('block(i32)', 'block', arg='i', enc=block('i'))
    ifi = Sym('if(i32)', 'if', arg='i', enc=if_('i'))
    lp = Sym('loop', 'loop', arg='', enc=loop(None))
    els, end = Sym('else', 'else', enc=ELSE), Sym('end', 'end', enc=END)
    br0 = Sym('br 0', 'br', arg=0, enc=br(0))
    lg0 = Sym('local.get 0', 'lget', arg=0, enc=local_get(0))
    mark = Sym('mark', 'simple', ('i',), ('i',), enc=call(0))
    add = Sym('i32.add', 'simple', ('i', 'i'), ('i',), enc=op(0x6a))
    return [
        ('dead-in-block-then-live', [blk, br0], [end, c(), mark]),
        ('dead-in-then-arm', [lg0, ifi, c(), br0], [els, c(), mark, end]),
        ('dead-in-else-arm', [lg0, ifi, c(), mark, els, c(), br0], [end]),
        ('two-operands-inside-block', [blki, c(), c()], [end]),
        ('operand-below-block', [c(), blki, c()], [end, add]),
        ('inside-loop-in-block', [blki, c(), lp], [end, end]),
        # both arms of a value-carrying if are enumerated (the filling contains the else), with an operand below the if
        ('operand-below-if', [c(), lg0, ifi], [end, add]),
    ]


def sigma_typed(T, params='iI', local_groups=((1, 'f'), (2, 'F'), (1, 'i'))):
    """carried value of type T (I, f or F) with i32 operands below it; parameters/locals of all four types,
    read before any write.  local_groups is the declaration grouping [(count, type)]."""
    locs = ''.join(t * c for c, t in local_groups)
    lt = params + locs
    S = []
    S.append(Sym('%s.const' % TNAME[TCH[T]], 'simple', (), (T,), T, 'const'))
    S.append(Sym('i32.const', 'simple', (), ('i',), 'i', 'const'))
    for i in range(len(lt)):
        S.append(Sym('local.get %d' % i, 'lget', arg=i, enc=local_get(i)))
    tl = [i for i, t in enumerate(lt) if t == T]
    if tl:
        S.append(Sym('local.set %d' % tl[-1], 'lset', arg=tl[-1], enc=local_set(tl[-1])))
        S.append(Sym('local.tee %d' % tl[0], 'ltee', arg=tl[0], enc=local_tee(tl[0])))
    S.append(Sym('drop', 'drop', enc=DROP))
    S.append(Sym('select', 'select', enc=SELECT))
    S.append(Sym('block(%s)' % T, 'block', arg=T, enc=block(T)))
    S.append(Sym('block(i32)', 'block', arg='i', enc=block('i')))      # a construct with ANOTHER non-empty result type, to be nested in / around the T-typed ones
    S.append(Sym('if(%s)' % T, 'if', arg=T, enc=if_(T)))
    S.append(Sym('loop(%s)' % T, 'loop', arg=T, enc=loop(T)))
    S.append(Sym('else', 'else', enc=ELSE))
    S.append(Sym('end', 'end', enc=END))
    S.append(Sym('br 0', 'br', arg=0, enc=br(0)))
    S.append(Sym('br 1', 'br', arg=1, enc=br(1)))
    S.append(Sym('br_if 0', 'br_if', arg=0, enc=br_if(0)))
    S.append(Sym('br_table[0]1', 'br_table', arg=((0,), 1), enc=br_table([0], 1)))
    S.append(Sym('br_table[]0', 'br_table', arg=((), 0), enc=br_table([], 0)))
    S.append(Sym('return', 'return', enc=RETURN))
    return S, params, locs, T, local_groups


def typed_contexts(T, S):
    """contexts for the typed alphabets: the carried value has type T (i64/f32/f64) while the extra operands are i32, so the branch
    must move a value between C stack variables of different types and depths"""
    by = {x.name: x for x in S}
    cT = lambda: Sym('%s.const' % TNAME[TCH[T]], 'simple', (), (T,), T, 'const')
    ci = lambda: Sym('i32.const', 'simple', (), ('i',), 'i', 'const')
    blkT = by['block(%s)' % T]
    end = by['end']
    blk = Sym('block', 'block', arg='', enc=block(None))
    br0 = by['br 0']
    lset = next(x for x in S if x.kind == 'lset')
    lget = by['local.get %d' % lset.arg]
    drop = by['drop']
    return [
        ('T-above-i32-inside-block', [blkT, cT(), ci()], [end]),
        ('i32-below-T-block', [ci(), blkT, cT()], [end, lset, drop, lget]),
        ('dead-in-block-then-live', [blk, br0], [end, cT()]),
        # a construct with ANOTHER non-empty result type has just been closed inside the T-typed block: the outer label must still carry T
        ('after-nested-i32-block', [blkT, by['block(i32)'], ci(), end, drop], [end]),
        ('inside-i32-block-in-T-block', [blkT, cT(), by['block(i32)']], [end, drop, end]),
        # two T operands stay below a block whose body is dead code (where drops and branches are valid on an empty stack); afterwards they are
        # consumed by an instruction that names its operands by their types
        ('T-operands-below-dead-code-then-select', [cT(), cT(), blk, br0], [end, ci(), by['select']]),
    ]
