#!/usr/bin/env python3
"""Convert a wast2json script (tests/gen/<x>.json) into the line format ref/selftest reads."""
import json, sys

def val(v):
    return "%s:%s" % (v['type'], v['value'])

def convert(path, out):
    d = json.load(open(path))
    cur = -1
    names = {}
    n = 0
    for c in d['commands']:
        t = c['type']
        if t == 'module':
            cur = n; n += 1
            if 'name' in c: names[c['name']] = cur
            out.write("module %d %s\n" % (cur, c['filename']))
        elif t == 'assert_uninstantiable':
            if c.get('module_type', 'binary') == 'binary':
                out.write("uninstantiable %s\n" % c['filename'])
        elif t == 'register':
            idx = names[c['name']] if 'name' in c else cur
            out.write("register %d %s\n" % (idx, c['as']))
        elif t in ('assert_return', 'assert_trap', 'action', 'assert_exhaustion'):
            a = c['action']
            idx = names[a['module']] if 'module' in a else cur
            fld = a['field'].encode('utf-8').hex() or '00'
            if a['field'] == '': continue
            if a['type'] == 'invoke':
                head = "invoke %d %s %d %s" % (idx, fld, len(a['args']), " ".join(val(v) for v in a['args']))
            else:
                head = "get %d %s" % (idx, fld)
            if t == 'assert_return':
                exp = c['expected']
                out.write("%s ret %d %s\n" % (head, len(exp), " ".join(val(v) for v in exp)))
            elif t == 'assert_trap':
                out.write("%s trap\n" % head)
            elif t == 'action':
                out.write("%s action\n" % head)
            else:
                out.write("%s exhaustion\n" % head)

if __name__ == '__main__':
    convert(sys.argv[1], sys.stdout)
