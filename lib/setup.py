#!/usr/bin/env python3
import glob, os, subprocess, sys, tempfile
sys.path.insert(0, os.path.dirname(os.path.abspath(__file__)))
from vcommon import *
import spec2script

def main():
    ref = build_ref()
    selftest = os.path.join(ref['dir'], 'selftest')
    gen = os.path.join(REPO, 'tests', 'gen')
    tot = {'pass': 0, 'fail': 0, 'weak': 0}
    wd = scratch('selftest')
    def one(j):
        s = os.path.join(wd, os.path.basename(j) + '.txt')
        with open(s, 'w') as f:
            spec2script.convert(j, f)
        r = run([selftest, s, gen], timeout=600)
        return j, r.returncode, r.stdout.decode(errors='replace')
    for j, rc, out in pmap(one, sorted(glob.glob(os.path.join(gen, '*.json')))):
        last = out.strip().splitlines()[-1] if out.strip() else ''
        if rc != 0 or 'pass=' not in last:
            print('reference selftest FAILED on', j); print(out[-2000:]); return 1
        for k in tot:
            tot[k] += int(last.split(k + '=')[1].split()[0])
    print('reference interpreter vs spec test-suite: %(pass)d commands pass, %(fail)d fail, %(weak)d weak (NaN payload after reinterpret)' % tot)
    if tot['pass'] < 20000 or tot['fail']:
        return 1
    build_w2c2('plain')
    import mc_selftest
    if mc_selftest.main() != 0:
        return 1
    print('setup ok')
    return 0

if __name__ == '__main__':
    sys.exit(main())
