"""Expression-tree programs over numeric opcodes (C01, C02, C11): tree -> function body + signature."""
import itertools
from wasmenc import *

# tree nodes: ('p', type_char)            a fresh parameter (numbered in evaluation order)
#             ('c', type_char, bits)      a constant
#             ('op', code, [children])


def emit(tree, params):
    """returns body bytes; appends parameter types to params (list of type chars)"""
    k = tree[0]
    if k == 'p':
        params.append(tree[1])
        return local_get(len(params) - 1)
    if k == 'c':
        return const(tree[1], tree[2])
    code, ch = tree[1], tree[2]
    return b''.join(emit(c, params) for c in ch) + numop(code)


def result_type(tree):
    if tree[0] in ('p', 'c'):
        return tree[1]
    return numop_sig(tree[1])[1]


def describe(tree):
    if tree[0] == 'p':
        return tree[1] + '?'
    if tree[0] == 'c':
        return '%s:%#x' % (tree[1], tree[2])
    return '%s(%s)' % (NUMOP_NAME[tree[1]], ','.join(describe(c) for c in tree[2]))


def leaf_op(code):
    ps, r = numop_sig(code)
    return ('op', code, [('p', t) for t in ps])


def compositions(opcodes):
    """all type-correct compositions of two opcodes: op2 with op1 in each operand position"""
    for op2 in opcodes:
        ps2, _ = numop_sig(op2)
        for pos, want in enumerate(ps2):
            for op1 in opcodes:
                if numop_sig(op1)[1] != want:
                    continue
                ch = [('p', t) for t in ps2]
                ch[pos] = leaf_op(op1)
                yield ('op', op2, ch)


INT_OPS = list(range(0x45, 0x5b)) + list(range(0x67, 0x8b)) + [0xa7, 0xac, 0xad, 0xc0, 0xc1, 0xc2, 0xc3, 0xc4]
FLOAT_OPS = list(range(0x5b, 0x67)) + list(range(0x8b, 0xa7)) + list(range(0xa8, 0xac)) + list(range(0xae, 0xc0)) + list(range(0xFC00, 0xFC08))


def a32():
    s = {0, 1, 2, 3, 5, 7, 10, 31, 32, 33, 63, 64, 65, 0x7f, 0x80, 0xff, 0x100, 0x7fff, 0x8000, 0xffff, 0x10000,
         0x7fffffff, 0x80000000, 0x80000001, 0xffffffff, 0xfffffffe, 0x55555555, 0xaaaaaaaa, 0x12345678, 0xdeadbeef,
         0xffffff80, 0xffff8000, 0xffffffe0, 0xffffffc0}
    for k in range(32):
        s.add(1 << k)
        s.add((1 << k) - 1)
        s.add((-(1 << k)) & 0xffffffff)
    return sorted(s)


def a64():
    m = (1 << 64) - 1
    s = set(a32())
    s |= {0x7fffffffffffffff, 0x8000000000000000, 0x8000000000000001, m, m - 1, 0x5555555555555555, 0xaaaaaaaaaaaaaaaa,
          0x123456789abcdef0, 0xffffffff00000000, 0x00000000ffffffff, 0xffffffff80000000, 0xffffffffffffff80, 0xffffffffffff8000,
          0x100000000, 0x1ffffffff, 0xfffffffffffffffe}
    for k in range(64):
        s.add(1 << k)
        s.add((1 << k) - 1)
        s.add((-(1 << k)) & m)
    return sorted(s)


def r32():
    return [0, 1, 2, 31, 32, 33, 0x7fffffff, 0x80000000, 0xffffffff, 0xfffffffe, 0x12345678, 0xffffff80]


def r64():
    return [0, 1, 2, 63, 64, 65, 0x7fffffffffffffff, 0x8000000000000000, 0xffffffffffffffff, 0xffffffff, 0x80000000, 0x123456789abcdef0]


def f32_special():
    """f32 bit patterns: class-structured alphabet incl. both neighbours of every truncation boundary"""
    import struct
    def b(x): return struct.unpack('<I', struct.pack('<f', x))[0]
    s = {0x00000000, 0x80000000, 0x00000001, 0x80000001, 0x007fffff, 0x807fffff, 0x00800000, 0x80800000, 0x7f7fffff, 0xff7fffff,
         0x7f800000, 0xff800000, 0x7fc00000, 0xffc00000, 0x7fa00000, 0xffa00000, 0x7f800001, 0xff800001, 0x7fffffff, 0xffffffff,
         0x7fc00001, 0x7fe00000, 0x7f812345, 0xffd12345}
    vals = [1.0, 0.5, 1.5, 2.5, 3.5, 0.25, 0.75, 2.0, 3.0, 4.5, 0.49999997, 0.99999994, 1.0000001, 8388607.5, 8388608.0, 8388609.0,
            16777216.0, 16777215.0, 4194303.75, 4194304.5, 1e10, 1e-10, 3.4e38, 1e-40, 123456.789, 6.0, 7.0,
            2147483520.0, 2147483648.0, 2147483904.0, 4294967040.0, 4294967296.0, 4294967808.0,
            9223371487098961920.0, 9223372036854775808.0, 9223373136366403584.0, 18446742974197923840.0, 18446744073709551616.0,
            18446746272732807168.0]
    for v in vals:
        s.add(b(v)); s.add(b(-v))
    return sorted(s)


def f64_special():
    import struct
    def b(x): return struct.unpack('<Q', struct.pack('<d', x))[0]
    s = {0, 1 << 63, 1, (1 << 63) | 1, 0x000fffffffffffff, 0x800fffffffffffff, 0x0010000000000000, 0x8010000000000000,
         0x7fefffffffffffff, 0xffefffffffffffff, 0x7ff0000000000000, 0xfff0000000000000, 0x7ff8000000000000, 0xfff8000000000000,
         0x7ff4000000000000, 0xfff4000000000000, 0x7ff0000000000001, 0xfff0000000000001, 0x7fffffffffffffff, 0xffffffffffffffff,
         0x7ff8000000000001, 0x7ff0000020000000, 0x7ff8000000800000, 0xfff0000000400000, 0x7ff0123456789abc,
         0x36a0000000000000, 0x3690000000000000, 0x36a0000000000001, 0x369fffffffffffff,  # f32 subnormal rounding region
         0x47efffffe0000000, 0x47effffff0000000, 0x47efffffefffffff, 0x47f0000000000000,  # f32 max rounding boundary
         0x3810000000000000, 0x380fffffffffffff, 0x380ffffff0000000}
    vals = [1.0, 0.5, 1.5, 2.5, 3.5, 0.25, 0.75, 2.0, 3.0, 4.5, 0.49999999999999994, 0.9999999999999999, 1.0000000000000002,
            4503599627370495.5, 4503599627370496.0, 4503599627370497.0, 9007199254740992.0, 9007199254740991.0, 2251799813685247.75,
            1e100, 1e-100, 1.7e308, 1e-310, 123456.789, 6.0, 7.0, 16777216.0, 16777217.0, 1.0000000596046448, 1.0000001192092896,
            2147483647.0, 2147483647.5, 2147483647.9999998, 2147483648.0, 2147483648.5, 2147483649.0, 2147483648.9999995,
            4294967295.0, 4294967295.5, 4294967295.9999995, 4294967296.0, 4294967297.0,
            9223372036854774784.0, 9223372036854775808.0, 9223372036854777856.0, 18446744073709549568.0, 18446744073709551616.0,
            18446744073709555712.0, 0.9999999999999999, 3.4028234663852886e38, 3.4028235677973366e38, 3.402823669209385e38,
            1.401298464324817e-45, 7.006492321624085e-46, 7.006492321624087e-46]
    for v in vals:
        s.add(b(v)); s.add(b(-v))
    return sorted(s)


def rf32():
    return [0x00000000, 0x80000000, 0x3f800000, 0xbf800000, 0x3fc00000, 0x40200000, 0x4f000000, 0xcf000000, 0x4f800000, 0x5f000000,
            0x7f800000, 0xff800000, 0x7fc00000, 0x7fa00001, 0x00000001, 0x7f7fffff, 0x4effffff, 0xbf7fffff, 0x3effffff]


def rf64():
    return [0, 1 << 63, 0x3ff0000000000000, 0xbff0000000000000, 0x3ff8000000000000, 0x4004000000000000, 0x41e0000000000000,
            0xc1e0000000000000, 0xc1e0000000200000, 0x41f0000000000000, 0x43e0000000000000, 0xc3e0000000000000, 0x43f0000000000000,
            0x7ff0000000000000, 0xfff0000000000000, 0x7ff8000000000000, 0x7ff4000000000001, 1, 0x7fefffffffffffff, 0x41dfffffffc00000,
            0xbfefffffffffffff, 0x3fdfffffffffffff, 0x47efffffe0000000, 0x36a0000000000000]
