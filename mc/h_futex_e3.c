/* mc/h_futex_e3.c — C17 E3 (deadline arithmetic, single thread, no scheduler): the translated memory.atomic.wait32 is called with a
 * finite timeout while the host clock (clock_gettime, defined here) answers from an enumerated menu and pthread_cond_timedwait is
 * renamed to e3_timedwait, which records the absolute deadline it is given and reports ETIMEDOUT at once.  The deadline must be
 * exactly now + timeout, normalised (0 <= tv_nsec < 10^9): "returns 2 when its timeout elapses" is decided by that number.
 * Output: one line "E3 <now.sec> <now.nsec> <timeout> <ret> <calls> <deadline.sec> <deadline.nsec>" per case. */
#include <errno.h>
#include <stdio.h>
#include <stdlib.h>
#include <string.h>
#include <time.h>
#include <unistd.h>
#include <sys/wait.h>
#include <pthread.h>
#include "m.h"

void trap(Trap t) { printf("TRAP %d\n", (int)t); exit(3); }

static struct timespec now_answer, seen_deadline;
static long long neg_timeout;
static int neg_mode;
static int timedwait_calls, clock_calls;

int clock_gettime(clockid_t id, struct timespec* ts) { (void)id; clock_calls++; *ts = now_answer; return 0; }

int e3_timedwait(pthread_cond_t* c, pthread_mutex_t* m, const struct timespec* abstime) {
    (void)c; (void)m;
    if (neg_mode) { printf("E3N %lld timed %lld %ld\n", neg_timeout, (long long)abstime->tv_sec, (long)abstime->tv_nsec); fflush(stdout); _exit(0); }
    timedwait_calls++;
    seen_deadline = *abstime;
    return ETIMEDOUT;
}

/* negative timeouts mean "wait forever": the wait must block without a deadline (or with one that is far in the future).  Each case runs
 * in a forked child; the first blocking call it makes is reported and ends the child. */
int e3_wait(pthread_cond_t* c, pthread_mutex_t* m) {
    (void)c; (void)m;
    if (neg_mode) { printf("E3N %lld untimed 0 0\n", neg_timeout); fflush(stdout); _exit(0); }
    return 0;
}

int main(void) {
    static const long long secs[] = {0, 1, 1700000000LL, 2147483647LL, 4102444800LL};
    static const long nsecs[] = {0, 1, 499999999L, 500000000L, 999999998L, 999999999L};
    static const long long timeouts[] = {1, 999, 500000000LL, 999999999LL, 1000000000LL, 1000000001LL, 1500000000LL, 1999999999LL, 2000000000LL,
                                         3600000000000LL, 9007199254740993LL,
                                         /* the largest finite timeouts (within the last second below 2^63) */
                                         9223372036854775807LL, 9223372036854775806LL, 9223372035854775808LL};
    static mInstance inst;
    mInstantiate(&inst, NULL);
    m_init32(&inst, 64, 7);
    for (unsigned a = 0; a < sizeof secs / sizeof secs[0]; a++)
        for (unsigned b = 0; b < sizeof nsecs / sizeof nsecs[0]; b++)
            for (unsigned c = 0; c < sizeof timeouts / sizeof timeouts[0]; c++) {
                U32 r;
                now_answer.tv_sec = (time_t)secs[a]; now_answer.tv_nsec = nsecs[b];
                timedwait_calls = clock_calls = 0;
                memset(&seen_deadline, 0, sizeof seen_deadline);
                r = m_w32o0(&inst, 64, 7, (U64)timeouts[c]);
                printf("E3 %lld %ld %lld %u %d %lld %ld\n", secs[a], nsecs[b], timeouts[c], r, timedwait_calls, (long long)seen_deadline.tv_sec, (long)seen_deadline.tv_nsec);
            }
    {
        static const long long negs[] = {-1, -2, -5, -1000000000LL, -4294967296LL, (-9223372036854775807LL - 1)};
        fflush(stdout);
        for (unsigned k = 0; k < sizeof negs / sizeof negs[0]; k++) {
            pid_t pid = fork();
            if (pid == 0) {
                U32 r;
                now_answer.tv_sec = 1700000000; now_answer.tv_nsec = 5;
                neg_mode = 1; neg_timeout = negs[k];
                r = m_w32o0(&inst, 64, 7, (U64)negs[k]);
                printf("E3N %lld returned %u 0\n", negs[k], r); fflush(stdout);
                _exit(0);
            }
            if (pid > 0) { int st; waitpid(pid, &st, 0); }
        }
    }
    return 0;
}
