/* mc/h_pool.c — C09 E-sched harness: the REAL translator (all of /repo/w2c2/*.c compiled with the pthread renames and
 * -Dmain=w2c2_main) runs in-process as model thread 0; its worker threads are model threads.  Every lock / unlock /
 * cond_wait / cond_signal / cond_broadcast / create / join of the producer-worker protocol in c.c is a scheduling point.
 * Harness words = the w2c2 command line; the word "@OUT@" is replaced by <dir>/m.c where <dir> = a fresh mkdtemp directory under $C09S_BASE (one
 * fresh directory per execution).  End state: exit status + FNV-1a digest over the sorted (name, size, contents) of every
 * file the run left in <dir>; the directory is removed afterwards. */
#include <dirent.h>
#include <stdio.h>
#include <stdlib.h>
#include <string.h>
#include <sys/stat.h>
#include <unistd.h>
#include "sched.h"

int w2c2_main(int argc, char** argv);

static char outdir[512];
static int rc_main = -999;

void mc_harness_main(int argc, char** argv) {
    static char outpath[600];
    char* args[64];
    int n = 0;
    const char* base = getenv("C09S_BASE");
    if (!base) mc_fail("C09S_BASE not set");
    /* mkdtemp, not the pid: pids are recycled within one exploration and an execution that crashed leaves its directory behind */
    snprintf(outdir, sizeof outdir, "%s/x%d.XXXXXX", base, (int)getpid());
    if (!mkdtemp(outdir)) mc_fail("cannot create %s", outdir);
    snprintf(outpath, sizeof outpath, "%s/m.c", outdir);
    args[n++] = (char*)"w2c2";
    for (int i = 0; i < argc && n < 62; i++) args[n++] = strcmp(argv[i], "@OUT@") ? argv[i] : outpath;
    args[n] = NULL;
    rc_main = w2c2_main(n, args);
    mc_obs("rc %d", rc_main);
}

static int cmpname(const void* a, const void* b) { return strcmp(*(char* const*)a, *(char* const*)b); }

MC_NO_TSAN void mc_harness_end(int blocked) {
    unsigned long long h = 1469598103934665603ULL;
    char* names[256];
    int n = 0;
    DIR* d = opendir(outdir);
    if (d) {
        struct dirent* e;
        while ((e = readdir(d)) && n < 256) if (strcmp(e->d_name, ".") && strcmp(e->d_name, "..")) names[n++] = strdup(e->d_name);
        closedir(d);
    }
    qsort(names, (size_t)n, sizeof names[0], cmpname);
    for (int i = 0; i < n; i++) {
        char p[900];
        FILE* f;
        long size = 0;
        int c;
        for (const char* s = names[i]; *s; s++) { h ^= (unsigned char)*s; h *= 1099511628211ULL; }
        h ^= 0xff; h *= 1099511628211ULL;
        snprintf(p, sizeof p, "%s/%s", outdir, names[i]);
        f = fopen(p, "rb");
        if (f) {
            while ((c = getc_unlocked(f)) != EOF) { h ^= (unsigned char)c; h *= 1099511628211ULL; size++; }
            fclose(f);
        }
        h ^= 0xfe; h *= 1099511628211ULL;
        unlink(p);
    }
    rmdir(outdir);
    mc_end("blocked=%d rc=%d files=%d digest=%llx", blocked, rc_main, n, h);
}

int main(int argc, char** argv) { return mc_main(argc, argv); }
