/* mc/h_atomic.c — C16 E2 / C19 E2 harness: threads of one shared-memory instance family (generated mNewChild) execute
 * TRANSLATED atomic instructions on the same / overlapping cells.
 * Harness words, one per thread; operations separated by '.':   <kind>,<flavour>,<addr>,<a>[,<b>]
 *   kind    ld st add sub and or xor xchg cas            (cas: a = expected, b = replacement)
 *   flavour 0 i32  1 i64  2 i32.8  3 i32.16  4 i64.8  5 i64.16  6 i64.32
 * The 16 bytes at WINDOW.. are the shared window; it is initialised through translated i64.atomic.store calls by the
 * main thread before any other thread exists.  Log: "T1 i <k> <op text>" at invocation, "T1 r <k> <result hex>" at return.
 * End state: the raw window bytes (hex, address order).
 * The scheduling points inside an operation are the __atomic builtins (mc/atomic_points.h) and, in the forced
 * big-endian configuration, the mutex calls of the RMW path. */
#include <stdlib.h>
#include <string.h>
#include "sched.h"
#include "m.h"

#define WINDOW 64u

mInstance* mNewChild(mInstance* self);

void trap(Trap t) { mc_fail("trap %d", (int)t); for (;;) {} }

typedef struct { int kind, w; U32 addr; U64 a, b; char text[48]; } op_t;
typedef struct { int n; op_t op[6]; mInstance* inst; } prog_t;

enum { K_LD, K_ST, K_ADD, K_SUB, K_AND, K_OR, K_XOR, K_XCHG, K_CAS, K_N };
static const char* const KN[K_N] = {"ld", "st", "add", "sub", "and", "or", "xor", "xchg", "cas"};

#include "ops.inc"      /* generated: static U64 do_op(mInstance*, const op_t*) dispatching to m_<kind><flavour> */

static mInstance parent;
static prog_t prog[8];
static int nprog;

static void* body(void* a) {
    prog_t* p = (prog_t*)a;
    for (int k = 0; k < p->n; k++) {
        const op_t* o = &p->op[k];
        U64 r;
        mc_obs("i %d %s", k, o->text);
        r = do_op(p->inst, o);
        mc_obs("r %d %llx", k, (unsigned long long)r);
    }
    return NULL;
}

static void parse_op(op_t* o, const char* s, size_t len) {
    char buf[64];
    char* f[5] = {0};
    int nf = 0;
    if (len >= sizeof o->text) mc_fail("operation too long");
    memcpy(buf, s, len); buf[len] = 0;
    memcpy(o->text, s, len); o->text[len] = 0;
    for (char* q = buf; nf < 5; nf++) {
        f[nf] = q;
        q = strchr(q, ',');
        if (!q) { nf++; break; }
        *q++ = 0;
    }
    if (nf < 3) mc_fail("bad operation %s", o->text);
    o->kind = -1;
    for (int k = 0; k < K_N; k++) if (!strcmp(f[0], KN[k])) o->kind = k;
    if (o->kind < 0) mc_fail("bad kind %s", f[0]);
    o->w = atoi(f[1]);
    o->addr = (U32)strtoul(f[2], NULL, 0);
    o->a = nf > 3 ? strtoull(f[3], NULL, 0) : 0;
    o->b = nf > 4 ? strtoull(f[4], NULL, 0) : 0;
    if (o->w < 0 || o->w > 6 || o->addr < WINDOW || o->addr >= WINDOW + 16) mc_fail("bad flavour/address in %s", o->text);
}

void mc_harness_main(int argc, char** argv) {
    pthread_t t[8];
    op_t init;
    if (argc < 2) mc_fail("usage: <init lo64>:<init hi64> <thread word>...");
    nprog = argc - 1;
    if (nprog > 8) mc_fail("too many threads");
    mInstantiate(&parent, NULL);
    if (!parent.m0->shared) mc_fail("memory is not shared");
    {   /* window initialisation: two translated i64.atomic.store calls */
        char* e;
        memset(&init, 0, sizeof init);
        init.kind = K_ST; init.w = 1; init.addr = WINDOW; init.a = strtoull(argv[0], &e, 0);
        do_op(&parent, &init);
        init.addr = WINDOW + 8; init.a = *e == ':' ? strtoull(e + 1, NULL, 0) : 0;
        do_op(&parent, &init);
    }
    for (int i = 0; i < nprog; i++) {
        prog_t* p = &prog[i];
        const char* s = argv[i + 1];
        p->n = 0;
        while (*s) {
            const char* e = strchr(s, '.');
            size_t len = e ? (size_t)(e - s) : strlen(s);
            if (p->n >= 6) mc_fail("too many operations");
            parse_op(&p->op[p->n++], s, len);
            s += len;
            if (*s == '.') s++;
        }
        p->inst = mNewChild(&parent);
        if (p->inst->m0 != parent.m0) mc_fail("NewChild did not share the parent's memory");
    }
    for (int i = 0; i < nprog; i++) mc_thread_create(&t[i], NULL, body, &prog[i]);
    for (int i = 0; i < nprog; i++) mc_thread_join(t[i], NULL);
}

MC_NO_TSAN void mc_harness_end(int blocked) {
    const U8* d = parent.m0->data + WINDOW;
    mc_end("blocked=%d bytes=", blocked);
    for (int i = 0; i < 16; i++) mc_end("%x%x", d[i] >> 4, d[i] & 15);
}

int main(int argc, char** argv) { return mc_main(argc, argv); }
