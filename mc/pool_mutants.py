#!/usr/bin/env python3
"""Detection demonstration for the C09 E-sched part alone: each mutant of the producer/worker protocol in c.c is made in a scratch
copy (never in the repository) and only checks/c09_sched.py is run against it.   usage: mc/pool_mutants.py [--seed PATCH]"""
import json, os, shutil, subprocess, sys, tempfile
VERIF = os.path.dirname(os.path.dirname(os.path.abspath(__file__)))
MUTS = [
 ('task-cleared-after-unlock', "            writer->task = NULL;\n\n            pthread_mutex_unlock(&writer->mutex);\n", "            pthread_mutex_unlock(&writer->mutex);\n            writer->task = NULL;\n"),
 ('done-without-waiting-for-empty-slot', "        pthread_mutex_lock(&writer.mutex);\n\n        while (writer.task != NULL) {\n            pthread_cond_wait(\n                &writer.produce,\n                &writer.mutex\n            );\n        }\n\n        writer.done = true;", "        pthread_mutex_lock(&writer.mutex);\n\n        writer.done = true;"),
 ('producer-if-instead-of-while', "            while (writer.task != NULL) {\n                pthread_cond_wait(\n                    &writer.produce,\n                    &writer.mutex\n                );\n            }\n\n            task.filePrefix", "            if (writer.task != NULL) {\n                pthread_cond_wait(\n                    &writer.produce,\n                    &writer.mutex\n                );\n            }\n\n            task.filePrefix"),
 ('worker-signal-produce-dropped', "        pthread_mutex_lock(&writer->mutex);\n        pthread_cond_signal(&writer->produce);\n", "        pthread_mutex_lock(&writer->mutex);\n"),
 ('broadcast-to-signal-at-shutdown', "        pthread_cond_broadcast(&writer.consume);", "        pthread_cond_signal(&writer.consume);"),
 ('worker-while-to-if', "        while (!writer->done && writer->task == NULL) {", "        if (!writer->done && writer->task == NULL) {"),
]
DRIVER = '''
import sys, os
sys.path.insert(0, %r); sys.path.insert(0, %r)
import vcommon, c09_sched, mclib
chk = vcommon.Check('C09', 'model_checking', 'quick')
try:
    r = c09_sched.sched_part(chk, 'quick')
    print('RESULT', chk.violations, r['schedules'], r['exhaustive'])
except mclib.MachineryError as e:
    print('MACHINERY', str(e)[:500])
''' % (os.path.join(VERIF, 'lib'), os.path.join(VERIF, 'checks'))


def run(repo):
    r = subprocess.run([sys.executable, '-c', DRIVER], env=dict(os.environ, W2C2_REPO=repo), stdout=subprocess.PIPE, stderr=subprocess.STDOUT)
    out = r.stdout.decode(errors='replace')
    keys = []
    for ln in out.splitlines():
        if ln.startswith('VIOLATION') and 'replay=' in ln:
            try:
                keys.append(json.load(open(ln.split('replay=')[1].strip()))['key'])
            except Exception:
                keys.append('?')
    res = [l for l in out.splitlines() if l.startswith(('RESULT', 'MACHINERY'))]
    return sorted(set(keys)), res, out


def main():
    todo = MUTS
    if '--seed' in sys.argv:
        todo = [('seed:' + sys.argv[sys.argv.index('--seed') + 1], None, None)]
    for name, old, new in [('unchanged', '', '')] + todo:
        d = tempfile.mkdtemp(prefix='w2c2-poolmut.', dir='/dev/shm')
        try:
            for sub in ('w2c2',):
                shutil.copytree('/repo/' + sub, os.path.join(d, sub))
            if name.startswith('seed:'):
                subprocess.check_call(['patch', '-s', '-p1', '-d', d, '-i', os.path.abspath(name[5:])])
            elif old:
                p = os.path.join(d, 'w2c2', 'c.c')
                s = open(p).read()
                if s.count(old) != 1:
                    print('%-40s does not apply' % name); continue
                open(p, 'w').write(s.replace(old, new))
            keys, res, out = run(d)
            print('%-40s %s  keys=%s  %s' % (name, 'caught' if keys else ('clean' if name == 'unchanged' else 'NOT caught'), keys, res))
            sys.stdout.flush()
        finally:
            shutil.rmtree(d, ignore_errors=True)


if __name__ == '__main__':
    main()
