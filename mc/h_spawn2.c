/* mc/h_spawn2.c — C15 (e), two DIFFERENT translated modules (w2c2 -m) in one process, each importing wasi.thread-spawn.
 * Module "ma" exports wasi_thread_start, which adds 1 to the run counter cell[arg] of ITS memory; module "mb" either exports its
 * own wasi_thread_start, which adds 100 (build without -DB_NOEXPORT), or does not export one (-DB_NOEXPORT).
 * Harness words: one per parent thread: <module a|b><arg>[.<module><arg>...], e.g. "a1.b2" or "a1" "b2".
 * "thread-spawn runs THE MODULE'S wasi_thread_start ... or a negative value when that export is missing": what one module did must
 * not decide what happens for the other.  End state: per argument the counter in ma's memory and in mb's memory. */
#include <stdlib.h>
#include <string.h>
#include "sched.h"
#include "ma.h"
#include "mb.h"
#include "wasi.h"

void trap(Trap t) { mc_fail("trap %d", (int)t); for (;;) {} }
wasmMemory* wasiMemory(void* instance) { (void)instance; return NULL; }

/* with -m every import symbol carries the module prefix: the embedder forwards both to the one WASI implementation */
U32 wasi__threadX2Dspawn(wasmModuleInstance* instance, U32 startArg);
U32 ma_wasi__threadX2Dspawn(void* i, U32 a) { return wasi__threadX2Dspawn((wasmModuleInstance*)i, a); }
U32 mb_wasi__threadX2Dspawn(void* i, U32 a) { return wasi__threadX2Dspawn((wasmModuleInstance*)i, a); }

typedef struct { int n; char mod[4]; U32 arg[4]; } prog_t;
static maInstance rootA;
static mbInstance rootB;
static prog_t prog[4];
static int nprog;
static U32 allargs[16];
static int nargs;

static void* body(void* a) {
    prog_t* p = (prog_t*)a;
    for (int k = 0; k < p->n; k++) {
        U32 r;
        if (k > 0) mc_yield();
        mc_obs("i %d %c%u", k, p->mod[k], p->arg[k]);
        r = p->mod[k] == 'a' ? ma_spawn(&rootA, p->arg[k]) : mb_spawn(&rootB, p->arg[k]);
        mc_obs("r %d %c%u %d", k, p->mod[k], p->arg[k], (int)(I32)r);
    }
    return NULL;
}

void mc_harness_main(int argc, char** argv) {
    pthread_t t[4];
    nprog = argc;
    if (nprog > 4) mc_fail("too many parents");
    maInstantiate(&rootA, NULL);
    mbInstantiate(&rootB, NULL);
    for (int i = 0; i < nprog; i++) {
        const char* s = argv[i];
        prog[i].n = 0;
        while (*s && prog[i].n < 4) {
            prog[i].mod[prog[i].n] = *s++;
            U32 a = (U32)strtoul(s, (char**)&s, 10);
            if (a < 1 || a > 31) mc_fail("bad argument");
            prog[i].arg[prog[i].n++] = a;
            allargs[nargs++] = a;
            if (*s == '.') s++;
        }
    }
    for (int i = 0; i < nprog; i++) mc_thread_create(&t[i], NULL, body, &prog[i]);
    for (int i = 0; i < nprog; i++) mc_thread_join(t[i], NULL);
}

MC_NO_TSAN void mc_harness_end(int blocked) {
    mc_end("blocked=%d", blocked);
    for (int i = 0; i < nargs; i++) {
        U32 a = allargs[i], ca, cb;
        memcpy(&ca, rootA.m0->data + 4 * a, 4);
        memcpy(&cb, rootB.m0->data + 4 * a, 4);
        mc_end(" x%u:inA=%u,inB=%u", a, ca, cb);
    }
}

int main(int argc, char** argv) { return mc_main(argc, argv); }
