/* mc/h_spawn.c — C15 (e) harness: concurrent wasi thread-spawn calls on the REAL wasi.c under the controlled scheduler.
 * The translated module imports wasi.thread-spawn, has a shared memory and an instance-local mutable global, and (unless
 * built with -DNOEXPORT from the variant module) exports wasi_thread_start(tid, arg), which atomically increments the run
 * counter cell[arg] (address 4*arg), stores tid at 256+4*arg and sets the instance-local global to tid.
 * Harness words: one per parent thread, its spawn arguments separated by '.' (all arguments distinct, 1..31; for arguments >= 20 the
 * native thread creation fails).
 * Parent thread 1 calls through the root instance, the others through NewChild instances of it.
 * Scheduling points: pthread_create inside wasi.c (renamed), thread start/end, every __atomic builtin (atomic_points.h).
 * Log: "T1 i <k> <arg>" / "T1 r <k> <arg> <returned id as signed>".  End state: per argument run count and recorded tid,
 * the root's and every parent's instance-local global. */
#include <stdlib.h>
#include <string.h>
#include "sched.h"
#include "m.h"
#include "wasi.h"

mInstance* mNewChild(mInstance* self);

void trap(Trap t) { mc_fail("trap %d", (int)t); for (;;) {} }
wasmMemory* wasiMemory(void* instance) { return ((mInstance*)instance)->m0; }

typedef struct { int n; U32 arg[4]; mInstance* inst; } prog_t;
static mInstance root;
static prog_t prog[4];
static int nprog;
static U32 allargs[16];
static int nargs;

static void* body(void* a) {
    prog_t* p = (prog_t*)a;
    for (int k = 0; k < p->n; k++) {
        U32 r;
        if (k > 0) mc_yield();
        mc_obs("i %d %u", k, p->arg[k]);
        if (p->arg[k] >= 20) mc_fail_next_create();      /* environment: the native thread creation of this spawn fails (EAGAIN) */
        r = m_spawn(p->inst, p->arg[k]);
        mc_obs("r %d %u %d", k, p->arg[k], (int)(I32)r);
    }
    return NULL;
}

void mc_harness_main(int argc, char** argv) {
    pthread_t t[4];
    nprog = argc;
    if (nprog > 4) mc_fail("too many parents");
    mInstantiate(&root, NULL);
    if (!root.m0->shared) mc_fail("memory is not shared");
    for (int i = 0; i < nprog; i++) {
        const char* s = argv[i];
        prog[i].n = 0;
        while (*s && prog[i].n < 4) {
            U32 a = (U32)strtoul(s, (char**)&s, 10);
            if (a < 1 || a > 31) mc_fail("bad argument");
            prog[i].arg[prog[i].n++] = a;
            allargs[nargs++] = a;
            if (*s == '.') s++;
        }
        prog[i].inst = i == 0 ? &root : mNewChild(&root);
    }
    for (int i = 0; i < nprog; i++) mc_thread_create(&t[i], NULL, body, &prog[i]);
    for (int i = 0; i < nprog; i++) mc_thread_join(t[i], NULL);
}

MC_NO_TSAN void mc_harness_end(int blocked) {
    mc_end("blocked=%d", blocked);
    for (int i = 0; i < nargs; i++) {
        U32 a = allargs[i], cnt, tid;
        memcpy(&cnt, root.m0->data + 4 * a, 4);
        memcpy(&tid, root.m0->data + 256 + 4 * a, 4);
        mc_end(" a%u:runs=%u,tid=%d", a, cnt, (int)(I32)tid);
    }
    mc_end(" rootg=%u", root.g0);
    for (int i = 1; i < nprog; i++) mc_end(" p%dg=%u", i + 1, prog[i].inst->g0);
}

int main(int argc, char** argv) { return mc_main(argc, argv); }
