/* mc/sched.c — controlled scheduler + schedule explorer.  See sched.h for the model and the API.
 * MUST be compiled without -fsanitize=* and without the pthread renames. */
#define _GNU_SOURCE
#include "sched.h"
#include <errno.h>
#include <fcntl.h>
#include <linux/futex.h>
#include <signal.h>
#include <stdarg.h>
#include <stdint.h>
#include <stdio.h>
#include <stdlib.h>
#include <string.h>
#include <sched.h>
#include <sys/mman.h>
#include <sys/syscall.h>
#include <sys/wait.h>
#include <unistd.h>

#if defined(__SANITIZE_THREAD__) || defined(__SANITIZE_ADDRESS__)
#error "sched.c must be compiled without sanitizers"
#endif
#ifdef pthread_create
#error "sched.c must be compiled without the pthread renames"
#endif

extern void __tsan_acquire(void* addr) __attribute__((weak));
extern void __tsan_release(void* addr) __attribute__((weak));

/* sanitizer defaults (harmless when the runtime is absent); the environment may still override */
const char* __tsan_default_options(void) { return "halt_on_error=0:exitcode=66:report_signal_unsafe=0:report_thread_leaks=0:atexit_sleep_ms=0:history_size=2"; }
const char* __asan_default_options(void) { return "detect_leaks=0:exitcode=67:abort_on_error=0:allocator_may_return_null=1"; }
const char* __ubsan_default_options(void) { return "halt_on_error=1:exitcode=68:print_stacktrace=1"; }

/* ------------------------------------------------------------------ result area (shared with the driver) */
#define MAX_STEPS 2048
#define MAX_ALT 32
#define OBS_MAX 16384
#define END_MAX 4096
#define TRACE_MAX 65536
#define ERR_MAX 512

enum { ST_NONE = 0, ST_OK = 1, ST_BLOCKED = 2, ST_HORIZON = 3, ST_MACHINERY = 4, ST_FAIL = 5 };
#define COST_PREEMPT 1
#define COST_DEV 2

typedef struct {
    uint8_t n, chosen;
    uint8_t cost[MAX_ALT];
    uint32_t sig;
} step_t;

typedef struct {
    volatile int complete;
    int nsteps, ntrans, obs_len, end_len, trace_len;
    char err[ERR_MAX];
    step_t steps[MAX_STEPS];
    char obs[OBS_MAX];
    char end[END_MAX];
    char trace[TRACE_MAX];
} result_t;

static result_t* R;
static const uint8_t* g_prefix;
static const uint32_t* g_prefix_sig;
static int g_prefix_len;
static int opt_spurious = 0, opt_horizon = 5000, opt_verbose = 0, opt_envpor = 1, opt_cpu = -1, opt_stack_kb = 256;

/* ------------------------------------------------------------------ tiny formatter (no libc on shared data) */
static size_t fmt_u(char* d, size_t cap, size_t n, unsigned long long v, unsigned base, int neg) {
    char tmp[24];
    int k = 0;
    do { unsigned dg = (unsigned)(v % base); tmp[k++] = (char)(dg < 10 ? '0' + dg : 'a' + dg - 10); v /= base; } while (v);
    if (neg && n + 1 < cap) d[n++] = '-';
    while (k && n + 1 < cap) d[n++] = tmp[--k];
    return n;
}

static size_t mc_vfmt(char* d, size_t cap, const char* f, va_list ap) {
    size_t n = 0;
    if (cap == 0) return 0;
    for (; *f; f++) {
        if (*f != '%') { if (n + 1 < cap) d[n++] = *f; continue; }
        f++;
        int l = 0;
        while (*f == 'l') { l++; f++; }
        switch (*f) {
        case 'd': { long long v = l >= 2 ? va_arg(ap, long long) : l == 1 ? va_arg(ap, long) : va_arg(ap, int);
                    n = fmt_u(d, cap, n, v < 0 ? 0ull - (unsigned long long)v : (unsigned long long)v, 10, v < 0); break; }
        case 'u': case 'x': { unsigned long long v = l >= 2 ? va_arg(ap, unsigned long long) : l == 1 ? va_arg(ap, unsigned long) : va_arg(ap, unsigned);
                    n = fmt_u(d, cap, n, v, *f == 'u' ? 10 : 16, 0); break; }
        case 's': { const char* s = va_arg(ap, const char*); if (!s) s = "(null)"; while (*s && n + 1 < cap) d[n++] = *s++; break; }
        case 'c': { int c = va_arg(ap, int); if (n + 1 < cap) d[n++] = (char)c; break; }
        case '%': if (n + 1 < cap) d[n++] = '%'; break;
        case 0: f--; break;
        default: if (n + 1 < cap) d[n++] = '?'; break;
        }
    }
    d[n] = 0;
    return n;
}

static size_t mc_fmt(char* d, size_t cap, const char* f, ...) {
    va_list ap; va_start(ap, f); size_t n = mc_vfmt(d, cap, f, ap); va_end(ap); return n;
}

/* ------------------------------------------------------------------ model state */
enum { OP_NONE, OP_START, OP_YIELD, OP_LOCK, OP_UNLOCK, OP_CWAIT, OP_CBLOCKED, OP_REACQ, OP_SIGNAL, OP_BROADCAST,
       OP_CREATE, OP_JOIN, OP_MDESTROY, OP_FINISHED };
static const char* OPN[] = { "run", "start", "yield", "lock", "unlock", "cond_wait", "blocked", "reacquire", "signal", "broadcast",
                             "create", "join", "mutex_destroy", "finished" };

typedef struct {
    int used, op, mi, ci, timed, rc, target, joined;
    uint32_t go;
    pthread_t real;
    void* (*fn)(void*);
    void* arg;
    void* ret;
} thr_t;

static thr_t th[MC_MAX_THREADS];
static int nth, cur;
static __thread int self_id;
static int active;          /* inside an execution */
static int in_end;

#define MAX_OBJ 128
static struct { void* addr; int live; int owner; } mx[MAX_OBJ];
static struct { void* addr; int live; } cv[MAX_OBJ];
static int nmx, ncv;
static uint32_t run_hash = 2166136261u;

static void terminal(int status) __attribute__((noreturn));
static void machinery(const char* f, ...) __attribute__((noreturn));

static void vseterr(const char* f, va_list ap) { mc_vfmt(R->err, ERR_MAX, f, ap); }

static void machinery(const char* f, ...) {
    va_list ap; va_start(ap, f); vseterr(f, ap); va_end(ap);
    R->complete = ST_MACHINERY;
    _exit(3);
}

static void model_fail(const char* f, ...) __attribute__((noreturn));
static void model_fail(const char* f, ...) {
    va_list ap; va_start(ap, f); vseterr(f, ap); va_end(ap);
    terminal(ST_FAIL);
}

static void trace_add(const char* f, ...) {
    if (!opt_verbose) return;
    va_list ap; va_start(ap, f);
    if (R->trace_len < TRACE_MAX - 200) R->trace_len += (int)mc_vfmt(R->trace + R->trace_len, (size_t)(TRACE_MAX - R->trace_len), f, ap);
    va_end(ap);
}

static int sync_log;
void mc_log_sync(int on) { sync_log = on; }

/* synchronisation events in the observation log (only when the harness asked for them with mc_log_sync(1)):
 *   "T1 L0" lock of mutex 0 acquired   "T1 A0" re-acquired after a condition wait   "T1 U0" unlocked
 *   "T1 C2" went to sleep on condition variable 2 (mutex released)   "T3 S2>1" signal on c2 woke T1 ("S2>-": nobody)
 *   "T3 B2>1,2" broadcast   "E TO1" the timeout of T1's timed wait fired   "E SP1" spurious wake-up of T1 */
static void sync_ev(const char* f, ...) {
    if (!sync_log) return;
    if (R->obs_len > OBS_MAX - 100) machinery("observation log overflow");
    va_list ap; va_start(ap, f);
    R->obs_len += (int)mc_vfmt(R->obs + R->obs_len, (size_t)(OBS_MAX - R->obs_len - 2), f, ap);
    va_end(ap);
    R->obs[R->obs_len++] = '\n'; R->obs[R->obs_len] = 0;
}

static int mx_find(void* a) {
    for (int i = nmx - 1; i >= 0; i--) if (mx[i].live && mx[i].addr == a) return i;
    if (nmx >= MAX_OBJ) machinery("too many mutexes");
    mx[nmx].addr = a; mx[nmx].live = 1; mx[nmx].owner = -1;
    return nmx++;
}

static int cv_find(void* a) {
    for (int i = ncv - 1; i >= 0; i--) if (cv[i].live && cv[i].addr == a) return i;
    if (ncv >= MAX_OBJ) machinery("too many condition variables");
    cv[ncv].addr = a; cv[ncv].live = 1;
    return ncv++;
}

/* ------------------------------------------------------------------ hand-off */
static void wake(int t) {
    __atomic_store_n(&th[t].go, 1u, __ATOMIC_SEQ_CST);
    syscall(SYS_futex, &th[t].go, FUTEX_WAKE_PRIVATE, 1, NULL, NULL, 0);
}

static void park(int t) {
    while (__atomic_load_n(&th[t].go, __ATOMIC_SEQ_CST) == 0)
        syscall(SYS_futex, &th[t].go, FUTEX_WAIT_PRIVATE, 0, NULL, NULL, 0);
    __atomic_store_n(&th[t].go, 0u, __ATOMIC_SEQ_CST);
}

/* ------------------------------------------------------------------ enabled transitions */
enum { K_THREAD, K_TIMEOUT, K_SPURIOUS, K_STOP, K_WAKE };
typedef struct { uint8_t kind, t, cost; } trans_t;

static int thread_enabled(int t) {
    if (!th[t].used) return 0;
    switch (th[t].op) {
    case OP_LOCK: case OP_REACQ: return mx[th[t].mi].owner < 0;
    case OP_CBLOCKED: case OP_FINISHED: return 0;
    case OP_JOIN: return th[th[t].target].op == OP_FINISHED;
    default: return 1;
    }
}

/* Partial-order reduction for environment DEVIATIONS (opt_envpor): timeout(t)/spurious(t) only changes t from "asleep" to
 * "wants its mutex back".  Nothing can tell the difference before that mutex is free (then t is runnable and competes for
 * it), and between two events on that mutex (lock, unlock, release by a condition wait - an "epoch") all scheduling points
 * are equivalent for it: the deviation commutes with every transition in between, and a woken t that is not chosen costs
 * nothing.  So a deviation for t is offered once per epoch of its mutex, at the first scheduling point of the epoch at which
 * the mutex is free (and again at that same point after another deviation was taken there).  Firing it anywhere else is
 * equivalent to firing it at such a point, with the same preemption/deviation costs; in particular "the timeout fires
 * before the notifier's signal" is reached by firing it in the epoch that precedes the notifier's critical section.
 * Forced timeouts (no thread runnable) are not deviations and are unaffected.  --envpor 0 switches the reduction off. */
static int mx_epoch[MAX_OBJ];
static int env_off_epoch[MC_MAX_THREADS], env_off_point[MC_MAX_THREADS];
static int thread_point;     /* number of thread transitions executed so far */

static int env_relevant(int t) {
    if (!opt_envpor) return 1;
    int m = th[t].mi;
    if (mx[m].owner >= 0) return 0;
    if (env_off_epoch[t] == mx_epoch[m] && env_off_point[t] != thread_point) return 0;
    env_off_epoch[t] = mx_epoch[m];
    env_off_point[t] = thread_point;
    return 1;
}

static int build_enabled(trans_t* en) {
    int n = 0, nthreads, ntime = 0;
    int cur_en = thread_enabled(cur);
    if (cur_en) { en[n].kind = K_THREAD; en[n].t = (uint8_t)cur; en[n].cost = 0; n++; }
    for (int t = 0; t < nth; t++)
        if (t != cur && thread_enabled(t)) { en[n].kind = K_THREAD; en[n].t = (uint8_t)t; en[n].cost = cur_en ? COST_PREEMPT : 0; n++; }
    nthreads = n;
    for (int t = 0; t < nth; t++)
        if (th[t].used && th[t].op == OP_CBLOCKED && th[t].timed && n < MAX_ALT && (nthreads == 0 || env_relevant(t))) {
            en[n].kind = K_TIMEOUT; en[n].t = (uint8_t)t; en[n].cost = nthreads ? COST_DEV : 0; n++; ntime++;
        }
    if (opt_spurious) {
        int first = n;
        for (int t = 0; t < nth; t++)
            if (th[t].used && th[t].op == OP_CBLOCKED && n < MAX_ALT - 1 && env_relevant(t)) { en[n].kind = K_SPURIOUS; en[n].t = (uint8_t)t; en[n].cost = COST_DEV; n++; }
        if (nthreads == 0 && ntime == 0 && n > first) {   /* nothing can run: STOP is the default, spurious wake-ups are alternatives */
            memmove(en + 1, en, (size_t)n * sizeof(trans_t));
            en[0].kind = K_STOP; en[0].t = 0; en[0].cost = 0; n++;
        }
    }
    return n;
}

static uint32_t fnv(uint32_t h, uint32_t v) { h ^= v; h *= 16777619u; return h; }

static uint32_t en_hash(const trans_t* en, int n) {
    uint32_t h = run_hash;
    for (int i = 0; i < n; i++) {
        h = fnv(h, en[i].kind); h = fnv(h, en[i].t);
        if (en[i].kind != K_STOP) { const thr_t* x = &th[en[i].t]; h = fnv(h, (uint32_t)x->op); h = fnv(h, (uint32_t)x->mi); h = fnv(h, (uint32_t)x->ci); }
    }
    return h;
}

static void describe(char* d, size_t cap, const trans_t* tr) {
    const thr_t* x = &th[tr->t];
    switch (tr->kind) {
    case K_STOP: mc_fmt(d, cap, "STOP"); break;
    case K_TIMEOUT: mc_fmt(d, cap, "timeout(T%d)", tr->t); break;
    case K_SPURIOUS: mc_fmt(d, cap, "spurious(T%d)", tr->t); break;
    case K_WAKE: mc_fmt(d, cap, "wake(T%d)", tr->t); break;
    default:
        switch (x->op) {
        case OP_LOCK: case OP_UNLOCK: case OP_REACQ: case OP_MDESTROY: mc_fmt(d, cap, "T%d:%s(m%d)", tr->t, OPN[x->op], x->mi); break;
        case OP_CWAIT: mc_fmt(d, cap, "T%d:%s(c%d,m%d)", tr->t, x->timed ? "cond_timedwait" : "cond_wait", x->ci, x->mi); break;
        case OP_SIGNAL: case OP_BROADCAST: mc_fmt(d, cap, "T%d:%s(c%d)", tr->t, OPN[x->op], x->ci); break;
        case OP_JOIN: mc_fmt(d, cap, "T%d:join(T%d)", tr->t, x->target); break;
        default: mc_fmt(d, cap, "T%d:%s", tr->t, OPN[x->op]); break;
        }
    }
}

/* take the next choice of the schedule among n >= 2 alternatives */
static int take_choice(const trans_t* en, int n) {
    int idx = R->nsteps;
    if (idx >= MAX_STEPS) terminal(ST_HORIZON);
    uint32_t sig = en_hash(en, n);
    run_hash = 2166136261u;
    int c = 0;
    if (idx < g_prefix_len) {
        c = g_prefix[idx];
        if (c >= n) machinery("replay: choice %d out of range (%d enabled) at choice point %d", c, n, idx);
        if (g_prefix_sig && g_prefix_sig[idx] != sig) machinery("replay: enabled set changed at choice point %d (signature %x, expected %x)", idx, sig, g_prefix_sig[idx]);
    }
    step_t* s = &R->steps[idx];
    s->n = (uint8_t)n; s->chosen = (uint8_t)c; s->sig = sig;
    for (int i = 0; i < n; i++) s->cost[i] = en[i].cost;
    R->nsteps = idx + 1;
    if (opt_verbose) {
        char b[64];
        trace_add("  choice#%d among [", idx);
        for (int i = 0; i < n; i++) { describe(b, sizeof b, &en[i]); trace_add("%s%s%s", i ? " " : "", b, en[i].cost & COST_PREEMPT ? "^p" : en[i].cost & COST_DEV ? "^d" : ""); }
        trace_add("] -> %d\n", c);
    }
    return c;
}

static void thread_states(void) {
    /* one letter per thread: F finished, C asleep on a condition variable, L waits for a mutex, J joins, R other */
    char b[MC_MAX_THREADS + 8];
    int k = 0;
    for (int t = 0; t < nth; t++) {
        char c = 'R';
        switch (th[t].op) { case OP_FINISHED: c = 'F'; break; case OP_CBLOCKED: c = 'C'; break; case OP_LOCK: case OP_REACQ: c = 'L'; break; case OP_JOIN: c = 'J'; break; default: break; }
        b[k++] = c;
    }
    b[k] = 0;
    mc_end("thr=%s ", b);
    for (int i = 0; i < nmx; i++) if (mx[i].live && mx[i].owner >= 0) mc_end("held:m%d=T%d ", i, mx[i].owner);
}

static void terminal(int status) {
    if (!in_end) {
        in_end = 1;
        if (status == ST_OK || status == ST_BLOCKED || status == ST_HORIZON) {
            thread_states();
            mc_harness_end(status != ST_OK);
        }
    }
    R->complete = status;
    _exit(0);
}

/* the running thread `self` is at a scheduling point (th[self].op describes what it wants to do next, or
 * that it is blocked / finished).  Returns when `self` has been chosen to perform that operation. */
static void schedule(int self) {
    for (;;) {
        trans_t en[MAX_ALT];
        int n = build_enabled(en);
        if (++R->ntrans > opt_horizon) terminal(ST_HORIZON);
        if (n == 0) {
            int all = 1;
            for (int t = 0; t < nth; t++) if (th[t].op != OP_FINISHED) all = 0;
            terminal(all ? ST_OK : ST_BLOCKED);
        }
        int c = 0;
        if (n > 1) c = take_choice(en, n);
        else { run_hash = fnv(run_hash, en[0].kind); run_hash = fnv(run_hash, en[0].t); run_hash = fnv(run_hash, (uint32_t)th[en[0].t].op); }
        trans_t tr = en[c];
        if (opt_verbose) { char b[64]; describe(b, sizeof b, &tr); trace_add("%s\n", b); }
        switch (tr.kind) {
        case K_STOP: terminal(ST_BLOCKED);
        case K_TIMEOUT: th[tr.t].op = OP_REACQ; th[tr.t].rc = ETIMEDOUT; sync_ev("E TO%d", tr.t); continue;
        case K_SPURIOUS: th[tr.t].op = OP_REACQ; th[tr.t].rc = 0; sync_ev("E SP%d", tr.t); continue;
        default: break;
        }
        thread_point++;
        if (tr.t == self) { cur = self; return; }
        cur = tr.t;
        wake(tr.t);
        if (th[self].op == OP_FINISHED) return;   /* the real thread exits */
        park(self);
        return;
    }
}

static int enter(int op) {
    if (!active) { fprintf(stderr, "mc: scheduler call outside an execution\n"); abort(); }
    int self = self_id;
    if (cur != self) machinery("thread T%d runs although T%d was scheduled", self, cur);
    th[self].op = op;
    return self;
}

/* ------------------------------------------------------------------ API */
int mc_self(void) { return self_id; }
int mc_thread_count(void) { return nth; }
int mc_thread_blocked_on_cond(int t) { return t >= 0 && t < nth && th[t].op == OP_CBLOCKED; }
int mc_thread_finished(int t) { return t >= 0 && t < nth && th[t].op == OP_FINISHED; }

void mc_yield(void) {
    int self = enter(OP_YIELD);
    schedule(self);
    th[self].op = OP_NONE;
}

int mc_mutex_init(pthread_mutex_t* m, const pthread_mutexattr_t* a) {
    (void)a;
    if (!active) return 0;     /* objects initialised before the execution starts are registered lazily */
    int i = mx_find(m);
    mx[i].owner = -1;
    return 0;
}

int mc_mutex_destroy(pthread_mutex_t* m) {
    if (!active) return 0;
    int i = mx_find(m);
    if (mx[i].owner >= 0) model_fail("mutex m%d destroyed while T%d owns it", i, mx[i].owner);
    for (int t = 0; t < nth; t++)
        if (th[t].used && (th[t].op == OP_LOCK || th[t].op == OP_REACQ || th[t].op == OP_CBLOCKED) && th[t].mi == i)
            model_fail("mutex m%d destroyed while T%d waits for it", i, t);
    mx[i].live = 0;
    return 0;
}

int mc_mutex_lock(pthread_mutex_t* m) {
    int self = enter(OP_LOCK);
    int i = mx_find(m);
    th[self].mi = i;
    schedule(self);
    if (mx[i].owner >= 0) machinery("T%d scheduled to lock m%d owned by T%d", self, i, mx[i].owner);
    mx[i].owner = self; mx_epoch[i]++;
    th[self].op = OP_NONE;
    sync_ev("T%d L%d", self, i);
    if (__tsan_acquire) __tsan_acquire(m);
    return 0;
}

int mc_mutex_unlock(pthread_mutex_t* m) {
    int self = enter(OP_UNLOCK);
    int i = mx_find(m);
    th[self].mi = i;
    schedule(self);
    th[self].op = OP_NONE;
    if (mx[i].owner != self) model_fail("T%d unlocks mutex m%d which it does not own (owner %d)", self, i, mx[i].owner);
    if (__tsan_release) __tsan_release(m);
    mx[i].owner = -1; mx_epoch[i]++;
    sync_ev("T%d U%d", self, i);
    return 0;
}

int mc_cond_init(pthread_cond_t* c, const pthread_condattr_t* a) {
    (void)a;
    if (!active) return 0;
    (void)cv_find(c);
    return 0;
}

int mc_cond_destroy(pthread_cond_t* c) {
    if (!active) return 0;
    int i = cv_find(c);
    for (int t = 0; t < nth; t++)
        if (th[t].used && th[t].op == OP_CBLOCKED && th[t].ci == i) model_fail("condition variable c%d destroyed while T%d waits on it", i, t);
    cv[i].live = 0;
    return 0;
}

static int cond_wait_common(pthread_cond_t* c, pthread_mutex_t* m, int timed) {
    int self = enter(OP_CWAIT);
    int ci = cv_find(c), mi = mx_find(m);
    th[self].ci = ci; th[self].mi = mi; th[self].timed = timed;
    schedule(self);
    if (mx[mi].owner != self) model_fail("T%d waits on c%d without owning m%d", self, ci, mi);
    if (__tsan_release) __tsan_release(m);
    mx[mi].owner = -1; mx_epoch[mi]++;
    env_off_epoch[self] = -1;
    th[self].op = OP_CBLOCKED; th[self].rc = 0;
    sync_ev("T%d C%d", self, ci);
    schedule(self);
    if (th[self].op != OP_REACQ || mx[mi].owner >= 0) machinery("T%d resumed from cond wait in state %d", self, th[self].op);
    mx[mi].owner = self; mx_epoch[mi]++;
    th[self].op = OP_NONE;
    sync_ev("T%d A%d", self, mi);
    if (__tsan_acquire) __tsan_acquire(m);
    return th[self].rc;
}

int mc_cond_wait(pthread_cond_t* c, pthread_mutex_t* m) { return cond_wait_common(c, m, 0); }
int mc_cond_timedwait(pthread_cond_t* c, pthread_mutex_t* m, const struct timespec* ts) { (void)ts; return cond_wait_common(c, m, 1); }

static int cond_wake(int ci, int all) {
    int w[MC_MAX_THREADS], k = 0;
    int self = self_id;
    for (int t = 0; t < nth; t++) if (th[t].used && th[t].op == OP_CBLOCKED && th[t].ci == ci) w[k++] = t;
    if (k == 0) { sync_ev("T%d %c%d>-", self, all ? 'B' : 'S', ci); return 0; }
    if (all) {
        char b[8 * MC_MAX_THREADS]; size_t n = 0;
        for (int i = 0; i < k; i++) { th[w[i]].op = OP_REACQ; th[w[i]].rc = 0; n += mc_fmt(b + n, sizeof b - n, "%s%d", i ? "," : "", w[i]); }
        sync_ev("T%d B%d>%s", self, ci, b);
        return k;
    }
    int pick = 0;
    if (k > 1) {
        trans_t en[MC_MAX_THREADS];
        for (int i = 0; i < k; i++) { en[i].kind = K_WAKE; en[i].t = (uint8_t)w[i]; en[i].cost = 0; }
        R->ntrans++;
        pick = take_choice(en, k);
    }
    th[w[pick]].op = OP_REACQ; th[w[pick]].rc = 0;
    trace_add("  wakes T%d\n", w[pick]);
    sync_ev("T%d S%d>%d", self, ci, w[pick]);
    return 1;
}

int mc_cond_signal(pthread_cond_t* c) {
    int self = enter(OP_SIGNAL);
    int ci = cv_find(c);
    th[self].ci = ci;
    schedule(self);
    th[self].op = OP_NONE;
    cond_wake(ci, 0);
    return 0;
}

int mc_cond_broadcast(pthread_cond_t* c) {
    int self = enter(OP_BROADCAST);
    int ci = cv_find(c);
    th[self].ci = ci;
    schedule(self);
    th[self].op = OP_NONE;
    cond_wake(ci, 1);
    return 0;
}

static void* trampoline(void* p) {
    int id = (int)(intptr_t)p;
    self_id = id;
    park(id);
    th[id].op = OP_NONE;
    void* r = th[id].fn(th[id].arg);
    th[id].ret = r;
    th[id].op = OP_FINISHED;
    schedule(id);
    return r;
}

int mc_thread_create(pthread_t* t, const pthread_attr_t* a, void* (*fn)(void*), void* arg) {
    (void)a;
    int self = enter(OP_CREATE);
    schedule(self);
    th[self].op = OP_NONE;
    if (nth >= MC_MAX_THREADS) machinery("too many threads");
    int id = nth++;
    memset(&th[id], 0, sizeof th[id]);
    th[id].used = 1; th[id].op = OP_START; th[id].fn = fn; th[id].arg = arg; th[id].mi = th[id].ci = -1;
    /* small stacks: sanitizer runtimes clear the shadow of the whole stack at thread start (8 MB default = slow) */
    pthread_attr_t at;
    pthread_attr_init(&at);
    pthread_attr_setstacksize(&at, (size_t)opt_stack_kb * 1024);
    int rc = pthread_create(&th[id].real, &at, trampoline, (void*)(intptr_t)id);
    pthread_attr_destroy(&at);
    if (rc) machinery("pthread_create failed: %d", rc);
    *t = th[id].real;
    return 0;
}

/* pthread_create of the CODE UNDER TEST is renamed to this one: a second scheduling point right AFTER the creation, so that the new thread may
   run (to completion) before the creator executes its next statement - e.g. before it reads something the new thread frees as its first
   action.  (The harness mains create their model threads with mc_thread_create: nothing of interest happens between their creations.) */
static __thread int fail_next_create;
void mc_fail_next_create(void) { fail_next_create = 1; }

int mc_thread_create_ut(pthread_t* t, const pthread_attr_t* a, void* (*fn)(void*), void* arg) {
    int rc;
    if (fail_next_create) {
        /* environment answer: the host cannot create another thread.  Still a scheduling point (the other threads may run here). */
        fail_next_create = 0;
        mc_yield();
        return EAGAIN;
    }
    rc = mc_thread_create(t, a, fn, arg);
    mc_yield();
    return rc;
}

int mc_thread_join(pthread_t t, void** ret) {
    int self = enter(OP_JOIN);
    int id = -1;
    for (int i = 1; i < nth; i++) if (th[i].used && !th[i].joined && pthread_equal(th[i].real, t)) id = i;
    if (id < 0) model_fail("T%d joins an unknown or already joined thread", self);
    th[self].target = id;
    schedule(self);
    th[self].op = OP_NONE;
    void* r = NULL;
    pthread_join(th[id].real, &r);
    th[id].joined = 1;
    if (ret) *ret = th[id].ret;
    return 0;
}

void mc_obs(const char* f, ...) {
    if (!R) return;
    if (R->obs_len > OBS_MAX - 300) machinery("observation log overflow");
    R->obs_len += (int)mc_fmt(R->obs + R->obs_len, (size_t)(OBS_MAX - R->obs_len), "T%d ", self_id);
    va_list ap; va_start(ap, f);
    R->obs_len += (int)mc_vfmt(R->obs + R->obs_len, (size_t)(OBS_MAX - R->obs_len - 2), f, ap);
    va_end(ap);
    R->obs[R->obs_len++] = '\n'; R->obs[R->obs_len] = 0;
    if (opt_verbose) { trace_add("    obs: "); va_start(ap, f); if (R->trace_len < TRACE_MAX - 400) R->trace_len += (int)mc_vfmt(R->trace + R->trace_len, 300, f, ap); va_end(ap); trace_add("\n"); }
}

void mc_end(const char* f, ...) {
    if (!R) return;
    if (R->end_len > END_MAX - 300) machinery("end state overflow");
    va_list ap; va_start(ap, f);
    R->end_len += (int)mc_vfmt(R->end + R->end_len, (size_t)(END_MAX - R->end_len - 1), f, ap);
    va_end(ap);
}

void mc_fail(const char* f, ...) {
    va_list ap; va_start(ap, f); vseterr(f, ap); va_end(ap);
    terminal(ST_FAIL);
}

/* ------------------------------------------------------------------ one execution (in the forked child) */
static int h_argc; static char** h_argv;

static void run_execution(result_t* res, const uint8_t* prefix, const uint32_t* sigs, int plen) {
    R = res;
    R->complete = ST_NONE; R->nsteps = R->ntrans = R->obs_len = R->end_len = R->trace_len = 0;
    R->err[0] = R->obs[0] = R->end[0] = R->trace[0] = 0;
    g_prefix = prefix; g_prefix_sig = sigs; g_prefix_len = plen;
    memset(th, 0, sizeof th);
    th[0].used = 1; th[0].op = OP_NONE; th[0].real = pthread_self(); th[0].mi = th[0].ci = -1;
    nth = 1; cur = 0; self_id = 0; nmx = ncv = 0; in_end = 0; active = 1; sync_log = 0; thread_point = 0;
    memset(mx_epoch, 0, sizeof mx_epoch); memset(env_off_epoch, 0xff, sizeof env_off_epoch);
    mc_harness_main(h_argc, h_argv);
    th[0].op = OP_FINISHED;
    schedule(0);
    for (;;) pause();      /* other threads still run; whoever reaches the terminal state calls _exit */
}

/* ------------------------------------------------------------------ driver */
typedef struct item {
    struct item* next;
    int len, pc, dc;
    uint8_t* ch;
    uint32_t* sig;
} item_t;

static item_t* item_new(const step_t* steps, int len, int last_choice, int pc, int dc) {
    item_t* it = malloc(sizeof *it + (size_t)len * 5 + 8);
    it->next = NULL; it->len = len; it->pc = pc; it->dc = dc;
    it->sig = (uint32_t*)(it + 1);
    it->ch = (uint8_t*)(it->sig + len);
    for (int i = 0; i < len; i++) { it->ch[i] = steps[i].chosen; it->sig[i] = steps[i].sig; }
    if (len) it->ch[len - 1] = (uint8_t)last_choice;
    return it;
}

typedef struct { pid_t pid; item_t* it; result_t* res; int errfd; int index; } slot_t;

typedef struct outcome {
    struct outcome* next;
    uint32_t h;
    char* key;            /* status \x1f san \x1f err \x1f obs \x1f end */
    long count;
    int level, san, slen;
    uint8_t* sched;       /* smallest schedule (length, then lexicographic) */
    char* serr;
    char status[24];
    int nsteps_full; uint8_t* ns;   /* enabled-set sizes along that schedule */
} outcome_t;

#define OHASH 4096
static outcome_t* otab[OHASH];
static int n_outcomes;

static double now_s(void) { struct timespec ts; clock_gettime(CLOCK_MONOTONIC, &ts); return (double)ts.tv_sec + 1e-9 * (double)ts.tv_nsec; }

static void json_str(FILE* f, const char* s) {
    fputc('"', f);
    for (; *s; s++) {
        unsigned char c = (unsigned char)*s;
        if (c == '"' || c == '\\') { fputc('\\', f); fputc(c, f); }
        else if (c == '\n') fputs("\\n", f);
        else if (c == '\t') fputs("\\t", f);
        else if (c < 0x20 || c >= 0x7f) fprintf(f, "\\u%04x", c);
        else fputc(c, f);
    }
    fputc('"', f);
}

static void status_name(char* d, size_t cap, int wst, const result_t* r) {
    if (WIFSIGNALED(wst)) snprintf(d, cap, "signal:%d", WTERMSIG(wst));
    else if (r->complete == ST_OK) snprintf(d, cap, "ok");
    else if (r->complete == ST_BLOCKED) snprintf(d, cap, "blocked");
    else if (r->complete == ST_HORIZON) snprintf(d, cap, "horizon");
    else if (r->complete == ST_FAIL) snprintf(d, cap, "fail");
    else if (r->complete == ST_MACHINERY) snprintf(d, cap, "machinery");
    else snprintf(d, cap, "exit:%d", WEXITSTATUS(wst));
}

static int opt_timeout = 60;

static void launch(slot_t* s, item_t* it, int verbose) {
    s->it = it;
    lseek(s->errfd, 0, SEEK_SET);
    if (ftruncate(s->errfd, 0)) {}
    s->res->complete = ST_NONE; s->res->nsteps = 0; s->res->ntrans = 0; s->res->obs_len = s->res->end_len = s->res->trace_len = 0;
    s->res->err[0] = s->res->obs[0] = s->res->end[0] = s->res->trace[0] = 0;
    fflush(stdout);
    pid_t p = fork();
    if (p < 0) { perror("fork"); exit(2); }
    if (p == 0) {
        if (opt_cpu >= 0) {
            cpu_set_t cs; CPU_ZERO(&cs);
            long nc = sysconf(_SC_NPROCESSORS_ONLN);
            CPU_SET((unsigned)((opt_cpu + s->index) % (nc > 0 ? nc : 1)), &cs);
            sched_setaffinity(0, sizeof cs, &cs);      /* all threads of one execution on one CPU: hand-offs become cheap */
        }
        alarm((unsigned)opt_timeout);
        dup2(s->errfd, 2); dup2(s->errfd, 1);
        opt_verbose = verbose;
        run_execution(s->res, it ? it->ch : NULL, it ? it->sig : NULL, it ? it->len : 0);
        _exit(4);
    }
    s->pid = p;
}

static char* read_err(slot_t* s, size_t cap) {
    char* b = malloc(cap + 1);
    ssize_t n = pread(s->errfd, b, cap, 0);
    if (n < 0) n = 0;
    b[n] = 0;
    for (ssize_t i = 0; i < n; i++) if (!b[i]) b[i] = ' ';
    return b;
}

static int sched_less(const uint8_t* a, int la, const uint8_t* b, int lb) {
    if (la != lb) return la < lb;
    return memcmp(a, b, (size_t)la) < 0;
}

/* effective schedule = choices up to the last non-zero one */
static int eff_len(const result_t* r) {
    int l = r->nsteps;
    while (l > 0 && r->steps[l - 1].chosen == 0) l--;
    return l;
}

/* signature of the sanitizer reports of one execution: the module offsets of the innermost frame (#0) of every
 * stack in the reports plus the SUMMARY lines (offsets are stable across executions of one binary).  It tells
 * different reports apart while exploring with symbolize=0; the caller replays one schedule per signature. */
static void san_signature(const char* serr, char* d, size_t cap) {
    size_t n = 0;
    d[0] = 0;
    for (const char* p = serr; p && *p;) {
        const char* e = strchr(p, '\n');
        size_t l = e ? (size_t)(e - p) : strlen(p);
        const char* q = p;
        while (q < p + l && *q == ' ') q++;
        if (!strncmp(q, "SUMMARY: ", 9)) {
            if (n + l + 2 < cap) { memcpy(d + n, p, l); n += l; d[n++] = '|'; d[n] = 0; }
        } else if (!strncmp(q, "#0 ", 3)) {
            const char* o = NULL;
            for (const char* r = q; r < p + l; r++) if (*r == '(' && r + 1 < p + l && r[1] != 'B') o = r;   /* "(module+0x..)", not "(BuildId: ..)" */
            if (o) {
                const char* c = memchr(o, ')', (size_t)(p + l - o));
                const char* sl = o;
                for (const char* r = o; c && r < c; r++) if (*r == '/') sl = r;
                if (c && n + (size_t)(c - sl) + 2 < cap) { memcpy(d + n, sl + 1, (size_t)(c - sl - 1)); n += (size_t)(c - sl - 1); d[n++] = ','; d[n] = 0; }
            }
        }
        if (!e) break;
        p = e + 1;
    }
}

static outcome_t* record_outcome(const char* status, int san, const result_t* r, const char* serr, int level) {
    char ssig[2048];
    san_signature(san ? serr : "", ssig, sizeof ssig);
    size_t kl = strlen(status) + strlen(r->err) + strlen(ssig) + (size_t)r->obs_len + (size_t)r->end_len + 16;
    char* key = malloc(kl);
    snprintf(key, kl, "%s\x1f%d\x1f%s%s\x1f%s\x1f%s", status, san, r->err, ssig, r->obs, r->end);
    uint32_t h = 2166136261u;
    for (const char* p = key; *p; p++) h = fnv(h, (unsigned char)*p);
    outcome_t* o;
    int el = eff_len(r);
    uint8_t tmp[MAX_STEPS];
    for (int i = 0; i < el; i++) tmp[i] = r->steps[i].chosen;
    for (o = otab[h % OHASH]; o; o = o->next) if (o->h == h && !strcmp(o->key, key)) break;
    if (o) {
        free(key);
        o->count++;
        if (sched_less(tmp, el, o->sched, o->slen)) {
            free(o->sched); o->sched = malloc((size_t)el + 1); memcpy(o->sched, tmp, (size_t)el); o->slen = el;
            free(o->ns); o->ns = malloc((size_t)r->nsteps + 1); o->nsteps_full = r->nsteps;
            for (int i = 0; i < r->nsteps; i++) o->ns[i] = r->steps[i].n;
        }
        if (level < o->level) o->level = level;
        return o;
    }
    o = calloc(1, sizeof *o);
    o->h = h; o->key = key; o->count = 1; o->level = level; o->san = san;
    snprintf(o->status, sizeof o->status, "%s", status);
    o->sched = malloc((size_t)el + 1); memcpy(o->sched, tmp, (size_t)el); o->slen = el;
    o->ns = malloc((size_t)r->nsteps + 1); o->nsteps_full = r->nsteps;
    for (int i = 0; i < r->nsteps; i++) o->ns[i] = r->steps[i].n;
    o->serr = strdup(serr ? serr : "");
    o->next = otab[h % OHASH]; otab[h % OHASH] = o;
    n_outcomes++;
    return o;
}

static int has_sanitizer_report(const char* s) {
    return strstr(s, "Sanitizer") != NULL || strstr(s, "runtime error:") != NULL;
}

static void print_outcome(const outcome_t* o) {
    /* key = status \x1f san \x1f err \x1f obs \x1f end */
    char* k = strdup(o->key);
    char* f[5]; int nf = 0; f[nf++] = k;
    for (char* p = k; *p && nf < 5; p++) if (*p == '\x1f') { *p = 0; f[nf++] = p + 1; }
    while (nf < 5) f[nf++] = (char*)"";
    printf("{\"type\":\"outcome\",\"count\":%ld,\"level\":%d,\"status\":", o->count, o->level);
    json_str(stdout, o->status);
    printf(",\"san\":%d,\"sched\":[", o->san);
    for (int i = 0; i < o->slen; i++) printf("%s%d", i ? "," : "", o->sched[i]);
    printf("],\"enabled\":[");
    for (int i = 0; i < o->nsteps_full; i++) printf("%s%d", i ? "," : "", o->ns[i]);
    printf("],\"err\":"); json_str(stdout, f[2]);
    printf(",\"obs\":"); json_str(stdout, f[3]);
    printf(",\"end\":"); json_str(stdout, f[4]);
    printf(",\"stderr\":"); json_str(stdout, o->serr);
    printf("}\n");
    free(k);
}

static int parse_sched(const char* s, uint8_t* out, int cap) {
    int n = 0;
    while (*s) {
        while (*s == ',' || *s == ' ' || *s == '[' || *s == ']') s++;
        if (!*s) break;
        char* e; long v = strtol(s, &e, 10);
        if (e == s) break;
        if (n < cap) out[n++] = (uint8_t)v;
        s = e;
    }
    return n;
}

static slot_t make_slot(void) {
    slot_t s; memset(&s, 0, sizeof s);
    s.res = mmap(NULL, sizeof(result_t), PROT_READ | PROT_WRITE, MAP_SHARED | MAP_ANONYMOUS, -1, 0);
    if (s.res == MAP_FAILED) { perror("mmap"); exit(2); }
    s.errfd = (int)syscall(SYS_memfd_create, "mcerr", 0);
    if (s.errfd < 0) { perror("memfd_create"); exit(2); }
    return s;
}

static int wait_slot(slot_t* s, int* wst) {
    for (;;) { pid_t p = waitpid(s->pid, wst, 0); if (p == s->pid) return 0; if (p < 0 && errno != EINTR) { perror("waitpid"); exit(2); } }
}

static int do_replay(const char* sched, int verbose) {
    uint8_t ch[MAX_STEPS];
    int n = parse_sched(sched, ch, MAX_STEPS);
    item_t* it = malloc(sizeof *it);
    it->next = NULL; it->len = n; it->ch = ch; it->sig = NULL; it->pc = it->dc = 0;
    slot_t s = make_slot();
    int wst;
    launch(&s, it, verbose);
    wait_slot(&s, &wst);
    char st[32]; status_name(st, sizeof st, wst, s.res);
    char* serr = read_err(&s, 60000);
    int san = has_sanitizer_report(serr) || (WIFEXITED(wst) && (WEXITSTATUS(wst) >= 66 && WEXITSTATUS(wst) <= 68));
    printf("{\"type\":\"replay\",\"status\":"); json_str(stdout, st);
    printf(",\"san\":%d,\"exit\":%d,\"sched\":[", san, WIFEXITED(wst) ? WEXITSTATUS(wst) : -WTERMSIG(wst));
    for (int i = 0; i < s.res->nsteps; i++) printf("%s%d", i ? "," : "", s.res->steps[i].chosen);
    printf("],\"enabled\":[");
    for (int i = 0; i < s.res->nsteps; i++) printf("%s%d", i ? "," : "", s.res->steps[i].n);
    printf("],\"transitions\":%d,\"err\":", s.res->ntrans); json_str(stdout, s.res->err);
    printf(",\"obs\":"); json_str(stdout, s.res->obs);
    printf(",\"end\":"); json_str(stdout, s.res->end);
    printf(",\"trace\":"); json_str(stdout, s.res->trace);
    printf(",\"stderr\":"); json_str(stdout, serr);
    printf("}\n");
    return s.res->complete == ST_MACHINERY ? 2 : 0;
}

static int same_result(const result_t* a, const result_t* b) {
    if (a->complete != b->complete || a->nsteps != b->nsteps || a->ntrans != b->ntrans) return 0;
    for (int i = 0; i < a->nsteps; i++) if (a->steps[i].n != b->steps[i].n || a->steps[i].chosen != b->steps[i].chosen || a->steps[i].sig != b->steps[i].sig) return 0;
    return !strcmp(a->obs, b->obs) && !strcmp(a->end, b->end) && !strcmp(a->err, b->err);
}

static int do_explore(int P, int D, int jobs, double deadline_s, long maxexec) {
    double t0 = now_s();
    if (jobs < 1) jobs = 1;
    if (jobs > 64) jobs = 64;
    slot_t slots[64];
    for (int j = 0; j < jobs; j++) { slots[j] = make_slot(); slots[j].index = j; }

    /* determinism self-check: the first schedule twice */
    {
        slot_t extra = make_slot();
        int w1, w2;
        launch(&slots[0], NULL, 0); wait_slot(&slots[0], &w1);
        launch(&extra, NULL, 0); wait_slot(&extra, &w2);
        if (slots[0].res->complete == ST_MACHINERY) { printf("{\"type\":\"machinery\",\"err\":"); json_str(stdout, slots[0].res->err); printf("}\n"); return 2; }
        if (!same_result(slots[0].res, extra.res) || WIFSIGNALED(w1) != WIFSIGNALED(w2)) {
            printf("{\"type\":\"machinery\",\"err\":\"determinism self-check failed: the first schedule gave different observations when executed twice\",\"obs1\":");
            json_str(stdout, slots[0].res->obs); printf(",\"obs2\":"); json_str(stdout, extra.res->obs); printf("}\n");
            return 2;
        }
        munmap(extra.res, sizeof(result_t)); close(extra.errfd);
    }

    item_t** level_q = calloc((size_t)P + 2, sizeof(item_t*));
    item_t* root = malloc(sizeof *root); memset(root, 0, sizeof *root);
    level_q[0] = root;
    long execs = 0, transitions = 0, cum = 0;
    int maxsteps = 0, maxchoice = 0, bounds_completed = -1, exhaustive = 1;
    long dev_hist[8] = {0};

    for (int p = 0; p <= P; p++) {
        if (deadline_s > 0 && now_s() - t0 > deadline_s) { exhaustive = 0; break; }
        item_t* stack = level_q[p]; level_q[p] = NULL;
        long level_execs = 0;
        int inflight = 0, abandoned = 0;
        for (int j = 0; j < jobs; j++) slots[j].pid = 0;
        while (stack || inflight) {
            while (stack && inflight < jobs && !abandoned) {
                int j = 0; while (slots[j].pid) j++;
                item_t* it = stack; stack = it->next;
                launch(&slots[j], it, 0);
                inflight++;
            }
            if (!inflight) break;
            int wst; pid_t pid;
            do { pid = waitpid(-1, &wst, 0); } while (pid < 0 && errno == EINTR);
            if (pid < 0) { perror("waitpid"); return 2; }
            int j = 0; while (j < jobs && slots[j].pid != pid) j++;
            if (j == jobs) continue;
            slot_t* s = &slots[j];
            s->pid = 0; inflight--;
            result_t* r = s->res;
            item_t* it = s->it;
            execs++; level_execs++;
            transitions += r->ntrans;
            if (r->ntrans > maxsteps) maxsteps = r->ntrans;
            if (r->nsteps > maxchoice) maxchoice = r->nsteps;
            char st[32]; status_name(st, sizeof st, wst, r);
            if (r->complete == ST_MACHINERY) {
                printf("{\"type\":\"machinery\",\"err\":"); json_str(stdout, r->err); printf(",\"sched\":[");
                for (int i = 0; i < it->len; i++) printf("%s%d", i ? "," : "", it->ch[i]);
                printf("]}\n");
                return 2;
            }
            char* serr = read_err(s, 12000);
            int san = has_sanitizer_report(serr) || (WIFEXITED(wst) && WEXITSTATUS(wst) >= 66 && WEXITSTATUS(wst) <= 68);
            if (it->dc < 8) dev_hist[it->dc]++;
            record_outcome(st, san, r, serr, p);
            free(serr);
            /* alternatives */
            if (r->nsteps < it->len && r->complete != ST_NONE) {
                printf("{\"type\":\"machinery\",\"err\":\"execution ended inside its own prefix\",\"status\":\"%s\",\"steps\":%d,\"sched\":[", st, r->nsteps);
                for (int i = 0; i < it->len; i++) printf("%s%d", i ? "," : "", it->ch[i]);
                printf("]}\n");
                return 2;
            }
            int pc = it->pc, dc = it->dc;
            for (int i = it->len; i < r->nsteps; i++) {
                const step_t* sp = &r->steps[i];
                for (int alt = 0; alt < sp->n; alt++) {
                    if (alt == sp->chosen) continue;
                    int npc = pc + ((sp->cost[alt] & COST_PREEMPT) ? 1 : 0);
                    int ndc = dc + ((sp->cost[alt] & COST_DEV) ? 1 : 0);
                    if (npc > P || ndc > D) continue;
                    item_t* ni = item_new(r->steps, i + 1, alt, npc, ndc);
                    if (npc == p) { ni->next = stack; stack = ni; }
                    else { ni->next = level_q[npc]; level_q[npc] = ni; }
                }
                pc += (sp->cost[sp->chosen] & COST_PREEMPT) ? 1 : 0;
                dc += (sp->cost[sp->chosen] & COST_DEV) ? 1 : 0;
            }
            if (it != root) free(it);
            if ((deadline_s > 0 && now_s() - t0 > 2 * deadline_s) || (maxexec > 0 && execs > maxexec)) abandoned = 1;
        }
        cum += level_execs;
        printf("{\"type\":\"level\",\"p\":%d,\"schedules\":%ld,\"cum\":%ld,\"distinct\":%d,\"complete\":%s}\n", p, level_execs, cum, n_outcomes, abandoned ? "false" : "true");
        if (abandoned) { exhaustive = 0; break; }
        bounds_completed = p;
    }
    for (int b = 0; b < OHASH; b++) for (outcome_t* o = otab[b]; o; o = o->next) print_outcome(o);
    printf("{\"type\":\"done\",\"execs\":%ld,\"transitions\":%ld,\"maxsteps\":%d,\"maxchoicepoints\":%d,\"distinct\":%d,\"bounds_completed\":%d,\"pb\":%d,\"db\":%d,"
           "\"dev_hist\":[%ld,%ld,%ld,%ld],\"exhaustive\":%s,\"selfcheck\":\"ok\",\"wall\":%.3f}\n",
           execs, transitions, maxsteps, maxchoice, n_outcomes, bounds_completed, P, D, dev_hist[0], dev_hist[1], dev_hist[2], dev_hist[3],
           exhaustive ? "true" : "false", now_s() - t0);
    return 0;
}

int mc_main(int argc, char** argv) {
    int P = 2, D = 0, jobs = 1, verbose = 1;
    double deadline = 0;
    long maxexec = 0;
    const char* mode = argc > 1 ? argv[1] : "";
    const char* sched = "";
    int i = 2;
    for (; i < argc; i++) {
        if (!strcmp(argv[i], "--")) { i++; break; }
        if (i + 1 >= argc) break;
        if (!strcmp(argv[i], "--pb")) P = atoi(argv[++i]);
        else if (!strcmp(argv[i], "--db")) D = atoi(argv[++i]);
        else if (!strcmp(argv[i], "--spurious")) opt_spurious = atoi(argv[++i]);
        else if (!strcmp(argv[i], "--horizon")) opt_horizon = atoi(argv[++i]);
        else if (!strcmp(argv[i], "--jobs")) jobs = atoi(argv[++i]);
        else if (!strcmp(argv[i], "--deadline")) deadline = atof(argv[++i]);
        else if (!strcmp(argv[i], "--maxexec")) maxexec = atol(argv[++i]);
        else if (!strcmp(argv[i], "--timeout")) opt_timeout = atoi(argv[++i]);
        else if (!strcmp(argv[i], "--sched")) sched = argv[++i];
        else if (!strcmp(argv[i], "--verbose")) verbose = atoi(argv[++i]);
        else if (!strcmp(argv[i], "--envpor")) opt_envpor = atoi(argv[++i]);
        else if (!strcmp(argv[i], "--cpu")) opt_cpu = atoi(argv[++i]);
        else if (!strcmp(argv[i], "--stack")) opt_stack_kb = atoi(argv[++i]);
        else { fprintf(stderr, "mc: unknown option %s\n", argv[i]); return 2; }
    }
    h_argc = argc - i; h_argv = argv + i;
    if (!strcmp(mode, "explore")) return do_explore(P, D, jobs, deadline, maxexec);
    if (!strcmp(mode, "replay")) return do_replay(sched, verbose);
    fprintf(stderr, "usage: %s explore|replay [options] -- <harness words>   (see mc/sched.h)\n", argv[0]);
    return 2;
}
