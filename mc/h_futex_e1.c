/* mc/h_futex_e1.c — C17 E1 (emission, single thread, REAL pthreads, no scheduler): which cell does the translated
 * wait examine?  Cells at addr and addr+16 hold different values (no byte palindromes: a missing or doubled byte reversal in the
 * big-endian configuration changes the outcome too); timeout 0.  Return code 1 = "not equal" (the examined
 * cell differs from expected), 2 = "timed out" (the examined cell equals expected).  Prints one line per probe. */
#include <stdio.h>
#include <stdlib.h>
#include "m.h"

void trap(Trap t) { printf("TRAP %d\n", (int)t); exit(3); }

int main(void) {
    mInstance inst;
    const U32 addr = 64;
    mInstantiate(&inst, NULL);
    m_init32(&inst, addr, 0x11223344u); m_init32(&inst, addr + 4, 0x01020304u);
    m_init32(&inst, addr + 16, 0x55667788u); m_init32(&inst, addr + 20, 0x05060708u);
    /* expected = value of the cell at addr (A) or at addr+16 (B) */
    printf("w32o0 expA %u\n", m_w32o0(&inst, addr, 0x11223344u, 0));
    printf("w32o0 expB %u\n", m_w32o0(&inst, addr, 0x55667788u, 0));
    printf("w32o16 expA %u\n", m_w32o16(&inst, addr, 0x11223344u, 0));
    printf("w32o16 expB %u\n", m_w32o16(&inst, addr, 0x55667788u, 0));
    /* the 64-bit probes examine cells written by a 64-bit store: in the forced big-endian configuration an access is reversed at its own
       width, so two 32-bit stores do not compose to the little-endian 64-bit value there (an artefact of the emulation, not of the code) */
    m_init64(&inst, addr, 0x0102030411223344ull); m_init64(&inst, addr + 16, 0x0506070855667788ull);
    printf("w64o0 expA %u\n", m_w64o0(&inst, addr, 0x0102030411223344ull, 0));
    printf("w64o0 expB %u\n", m_w64o0(&inst, addr, 0x0506070855667788ull, 0));
    printf("w64o16 expA %u\n", m_w64o16(&inst, addr, 0x0102030411223344ull, 0));
    printf("w64o16 expB %u\n", m_w64o16(&inst, addr, 0x0506070855667788ull, 0));
    /* all 64 bits are compared: expected values that differ from the cell only in the upper / only in the lower half */
    printf("w64o0 expHiB %u\n", m_w64o0(&inst, addr, 0x0506070811223344ull, 0));
    printf("w64o0 expLoB %u\n", m_w64o0(&inst, addr, 0x0102030455667788ull, 0));
    /* only 32 bits are compared by wait32: the neighbouring word differs from anything in the expected operand */
    m_init32(&inst, addr, 0x11223344u); m_init32(&inst, addr + 4, 0xdeadbeefu);      /* 32-bit cells written by 32-bit stores (see above) */
    printf("w32o0 expA-again %u\n", m_w32o0(&inst, addr, 0x11223344u, 0));
    /* nobody waits: notify returns 0 whatever the offset, and the map must be empty again */
    printf("no0 %u\n", m_no0(&inst, addr, 1));
    printf("no16 %u\n", m_no16(&inst, addr, 1));
    return 0;
}
