#!/usr/bin/env python3
"""Regenerates the proposed patches of mc/FINDINGS.md against the CURRENT $W2C2_REPO (default /repo) working tree:
edits a scratch copy under /dev/shm and writes unified diffs (diff -u, paths a/... b/...) to mc/fixes/*.patch.
usage: make_fixes.py [--keep DIR]   (--keep: leave the patched copy of w2c2/ and futex/ in DIR, e.g. to point W2C2_REPO at it)"""
import os, shutil, subprocess, sys, tempfile

HERE = os.path.dirname(os.path.abspath(__file__))
SRC = os.environ.get('W2C2_REPO', '/repo')


def edit(path, pairs):
    s = open(path).read()
    for old, new in pairs:
        if old not in s:
            raise SystemExit('fix does not apply to %s: %r' % (path, old[:80]))
        s = s.replace(old, new, 1)
    open(path, 'w').write(s)


GROW_OLD_HEAD = '''    bool doRealloc = true;

    const U32 oldPages = memory->pages;
    const U32 newPages = memory->pages + delta;

    if (newPages < oldPages || newPages > memory->maxPages) {
        return (U32) -1;
    }

    if (newPages == 0) {
        return 0;
    }

    if (memory->shared) {
        doRealloc = false;
#ifdef WASM_MUTEX_TYPE
        WASM_MUTEX_LOCK(&memory->mutex);
#else
        abort();
#endif
    }

    {
        const U32 newSize = newPages * WASM_PAGE_SIZE;
        if (doRealloc) {
            const U32 oldSize = oldPages * WASM_PAGE_SIZE;
            const U32 deltaSize = delta * WASM_PAGE_SIZE;
            U8* newData = (U8*)realloc(memory->data, newSize);
            if (newData == NULL) {
                return (U32) -1;
            }

            memset(newData + oldSize, 0, deltaSize);
            memory->data = newData;
        }

        memory->pages = newPages;
        memory->size = newSize;
    }
'''
GROW_NEW_HEAD = '''    bool doRealloc = true;
    U32 oldPages = 0;
    U32 newPages = 0;
    U32 result = (U32) -1;

    if (memory->shared) {
        doRealloc = false;
#ifdef WASM_MUTEX_TYPE
        WASM_MUTEX_LOCK(&memory->mutex);
#else
        abort();
#endif
    }

    /* Read the current size only while holding the mutex of a shared memory:
       otherwise concurrent grows compute their results from the same old size */
    oldPages = memory->pages;
    newPages = oldPages + delta;

    if (newPages < oldPages || newPages > memory->maxPages) {
        result = (U32) -1;
    } else if (newPages == 0) {
        result = 0;
    } else {
        const U32 newSize = newPages * WASM_PAGE_SIZE;
        bool allocated = true;
        if (doRealloc) {
            const U32 oldSize = oldPages * WASM_PAGE_SIZE;
            const U32 deltaSize = delta * WASM_PAGE_SIZE;
            U8* newData = (U8*)realloc(memory->data, newSize);
            if (newData == NULL) {
                allocated = false;
            } else {
                memset(newData + oldSize, 0, deltaSize);
                memory->data = newData;
            }
        }

        if (allocated) {
            memory->pages = newPages;
            memory->size = newSize;
            result = oldPages;
        }
    }
'''
GROW_OLD_TAIL = '''        WASM_MUTEX_UNLOCK(&memory->mutex);
#else
        abort();
#endif
    }

    return oldPages;
}
'''
GROW_NEW_TAIL = '''        WASM_MUTEX_UNLOCK(&memory->mutex);
#else
        abort();
#endif
    }

    return result;
}
'''

SIZE_HELPER_ANCHOR = '''static
W2C2_INLINE
void
wasmMemoryCopy(
'''
SIZE_HELPER = '''/* memory.size: the page count of a shared memory is written by wasmMemoryGrow
   under the memory's mutex, so it has to be read under it as well */
static
W2C2_INLINE
U32
wasmMemorySize(
    wasmMemory* memory
) {
#ifdef WASM_MUTEX_TYPE
    if (memory->shared) {
        U32 pages = 0;
        WASM_MUTEX_LOCK(&memory->mutex);
        pages = memory->pages;
        WASM_MUTEX_UNLOCK(&memory->mutex);
        return pages;
    }
#endif
    return memory->pages;
}

'''
SIZE_EMIT_OLD = '''            MUST (wasmCWriteAssign(writer))
            MUST (wasmCWriteStringMemoryUse(
                writer->builder,
                writer->module,
                instruction.memoryIndex,
                false
            ))
            MUST (wasmCWrite(writer, ".pages;\\n"))
'''
SIZE_EMIT_NEW = '''            MUST (wasmCWriteAssign(writer))
            MUST (wasmCWrite(writer, "wasmMemorySize("))
            MUST (wasmCWriteStringMemoryUse(
                writer->builder,
                writer->module,
                instruction.memoryIndex,
                true
            ))
            MUST (wasmCWrite(writer, ");\\n"))
'''

NOTIFY_OLD = '''        MUST (wasmCWriteStringStackName(
                writer->builder,
                stackIndex1,
                writer->typeStack->valueTypes[stackIndex1]
        ))
        MUST (wasmCWriteComma(writer))
        MUST (wasmCWriteStringStackName(
                writer->builder,
                stackIndex0,
                writer->typeStack->valueTypes[stackIndex0]
        ))
        MUST (wasmCWrite(writer, ");\\n"))

        wasmTypeStackDrop(writer->typeStack, 2);
'''
NOTIFY_NEW = '''        MUST (wasmCWriteStringStackName(
                writer->builder,
                stackIndex1,
                writer->typeStack->valueTypes[stackIndex1]
        ))
        if (instruction.offset != 0) {
            MUST (wasmCWritePlus(writer))
            MUST (stringBuilderAppendU32(writer->builder, instruction.offset))
            MUST (wasmCWriteChar(writer, 'U'))
        }
        MUST (wasmCWriteComma(writer))
        MUST (wasmCWriteStringStackName(
                writer->builder,
                stackIndex0,
                writer->typeStack->valueTypes[stackIndex0]
        ))
        MUST (wasmCWrite(writer, ");\\n"))

        wasmTypeStackDrop(writer->typeStack, 2);
'''
WAIT_SIG_OLD = '''wasmCWriteMemoryAtomicWaitExpr(
    const WasmCFunctionWriter* writer,
    const bool isWait64
) {'''
WAIT_SIG_NEW = '''wasmCWriteMemoryAtomicWaitExpr(
    const WasmCFunctionWriter* writer,
    const WasmMemoryArgumentInstruction instruction,
    const bool isWait64
) {'''
WAIT_ADDR_OLD = '''        MUST (wasmCWriteStringStackName(
                writer->builder,
                stackIndex2,
                writer->typeStack->valueTypes[stackIndex2]
        ))
        MUST (wasmCWriteComma(writer))
'''
WAIT_ADDR_NEW = '''        MUST (wasmCWriteStringStackName(
                writer->builder,
                stackIndex2,
                writer->typeStack->valueTypes[stackIndex2]
        ))
        if (instruction.offset != 0) {
            MUST (wasmCWritePlus(writer))
            MUST (stringBuilderAppendU32(writer->builder, instruction.offset))
            MUST (wasmCWriteChar(writer, 'U'))
        }
        MUST (wasmCWriteComma(writer))
'''


def apply_all(root, which=('grow', 'size', 'offset')):
    if 'grow' in which:
        edit(os.path.join(root, 'w2c2/w2c2_base.h'), [(GROW_OLD_HEAD, GROW_NEW_HEAD), (GROW_OLD_TAIL, GROW_NEW_TAIL)])
    if 'size' in which:
        edit(os.path.join(root, 'w2c2/w2c2_base.h'), [(SIZE_HELPER_ANCHOR, SIZE_HELPER + SIZE_HELPER_ANCHOR)])
        edit(os.path.join(root, 'w2c2/c.c'), [(SIZE_EMIT_OLD, SIZE_EMIT_NEW)])
    if 'offset' in which:
        edit(os.path.join(root, 'w2c2/c.c'), [(NOTIFY_OLD, NOTIFY_NEW), (WAIT_SIG_OLD, WAIT_SIG_NEW), (WAIT_ADDR_OLD, WAIT_ADDR_NEW),
                                              ('    MUST (wasmCWriteMemoryAtomicWaitExpr(writer, false))', '    MUST (wasmCWriteMemoryAtomicWaitExpr(writer, instruction, false))'),
                                              ('    MUST (wasmCWriteMemoryAtomicWaitExpr(writer, true))', '    MUST (wasmCWriteMemoryAtomicWaitExpr(writer, instruction, true))')])


def main():
    keep = sys.argv[sys.argv.index('--keep') + 1] if '--keep' in sys.argv else None
    work = tempfile.mkdtemp(prefix='w2c2-fixes.', dir='/dev/shm')
    try:
        for name, which in (('C18-grow-reads-size-under-lock', ('grow',)), ('C18-memory-size-under-lock', ('size',)), ('C17-wait-notify-memarg-offset', ('offset',))):
            for side in ('a', 'b'):
                shutil.rmtree(os.path.join(work, side), ignore_errors=True)
                os.makedirs(os.path.join(work, side))
                for sub in ('w2c2', 'futex'):
                    shutil.copytree(os.path.join(SRC, sub), os.path.join(work, side, sub))
            apply_all(os.path.join(work, 'b'), which)
            r = subprocess.run(['diff', '-ru', 'a', 'b'], cwd=work, stdout=subprocess.PIPE)
            lines = []
            for ln in r.stdout.decode().splitlines():
                if ln.startswith('diff -ru '):
                    continue
                if ln.startswith('--- a/') or ln.startswith('+++ b/'):
                    ln = ln.split('\t')[0]          # drop the timestamp
                lines.append(ln)
            open(os.path.join(HERE, name + '.patch'), 'w').write('\n'.join(lines) + '\n')
            print('wrote', name + '.patch', len(lines), 'lines')
        if keep:
            os.makedirs(keep, exist_ok=True)
            for sub in ('w2c2', 'futex'):
                shutil.rmtree(os.path.join(keep, sub), ignore_errors=True)
                shutil.copytree(os.path.join(SRC, sub), os.path.join(keep, sub))
            apply_all(keep)
            print('patched copy in', keep)
    finally:
        shutil.rmtree(work, ignore_errors=True)


if __name__ == '__main__':
    main()
