#!/usr/bin/env python3
"""Mutation run for the scheduler-based checks (C16 atomicity part, C17, C18).
Every mutant is made in a SCRATCH COPY of $W2C2_REPO/{w2c2,futex} under /dev/shm (never in the repository), the check is run
with W2C2_REPO pointing at the copy, the VIOLATION keys are collected from the replay files, the copy is deleted.

usage: mc/mutants.py [C16|C17|C18 ...] [--only NAME]        prints one line per mutant: caught / NOT caught + keys"""
import glob, json, os, shutil, subprocess, sys, tempfile

VERIF = os.path.dirname(os.path.dirname(os.path.abspath(__file__)))
SRC = os.environ.get('W2C2_REPO', '/repo')

MUTANTS = {
    'C18': [   # each edit list has a variant for the tree as found and one for the tree with mc/fixes/C18-*.patch applied
        ('unlock-before-size-written', 'w2c2/w2c2_base.h',
         [[('        memory->pages = newPages;\n        memory->size = newSize;\n    }\n\n    if (memory->shared) {\n#ifdef WASM_MUTEX_TYPE\n        WASM_MUTEX_UNLOCK(&memory->mutex);\n#else\n        abort();\n#endif\n    }\n',
            '        memory->pages = newPages;\n        if (memory->shared) { WASM_MUTEX_UNLOCK(&memory->mutex); }\n        memory->size = newSize;\n    }\n')],
          [('            memory->pages = newPages;\n            memory->size = newSize;\n            result = oldPages;\n        }\n    }\n\n    if (memory->shared) {\n#ifdef WASM_MUTEX_TYPE\n        WASM_MUTEX_UNLOCK(&memory->mutex);\n#else\n        abort();\n#endif\n    }\n',
            '            memory->pages = newPages;\n            result = oldPages;\n        }\n    }\n\n    if (memory->shared) {\n#ifdef WASM_MUTEX_TYPE\n        WASM_MUTEX_UNLOCK(&memory->mutex);\n#else\n        abort();\n#endif\n    }\n    if (result != (U32) -1 && newPages != 0) { memory->size = newPages * WASM_PAGE_SIZE; }\n')]]),
        ('lock-removed', 'w2c2/w2c2_base.h',
         [[('        doRealloc = false;\n#ifdef WASM_MUTEX_TYPE\n        WASM_MUTEX_LOCK(&memory->mutex);\n#else', '        doRealloc = false;\n#ifdef WASM_MUTEX_TYPE\n#else'),
           ('        WASM_MUTEX_UNLOCK(&memory->mutex);\n#else\n        abort();\n#endif\n    }\n\n    return oldPages;', '#else\n        abort();\n#endif\n    }\n\n    return oldPages;')],
          [('        doRealloc = false;\n#ifdef WASM_MUTEX_TYPE\n        WASM_MUTEX_LOCK(&memory->mutex);\n#else', '        doRealloc = false;\n#ifdef WASM_MUTEX_TYPE\n#else'),
           ('        WASM_MUTEX_UNLOCK(&memory->mutex);\n#else\n        abort();\n#endif\n    }\n\n    return result;', '#else\n        abort();\n#endif\n    }\n\n    return result;')]]),
        ('reads-size-before-lock', 'w2c2/w2c2_base.h',     # re-introduces the defect of the tree as found (only applies to the fixed tree)
         [[('    U32 oldPages = 0;\n    U32 newPages = 0;\n    U32 result = (U32) -1;\n', '    U32 oldPages = memory->pages;\n    U32 newPages = 0;\n    U32 result = (U32) -1;\n'),
           ('    oldPages = memory->pages;\n    newPages = oldPages + delta;\n\n    if (newPages < oldPages', '    newPages = oldPages + delta;\n\n    if (newPages < oldPages')]]),
        ('max-test-dropped', 'w2c2/w2c2_base.h',
         [[('if (newPages < oldPages || newPages > memory->maxPages) {', 'if (newPages < oldPages) {')]]),
        ('memory-size-plain-read', 'w2c2/w2c2_base.h',   # only applies to the fixed tree
         [[('        WASM_MUTEX_LOCK(&memory->mutex);\n        pages = memory->pages;\n        WASM_MUTEX_UNLOCK(&memory->mutex);\n', '        pages = memory->pages;\n')]]),
    ],
    'C17': [
        ('enqueue-after-unlocking', 'futex/futex.c',
         '        /* Add wait to wait list */\n', '        WASM_MUTEX_UNLOCK(mutex);\n        WASM_MUTEX_LOCK(mutex);\n        /* Add wait to wait list */\n'),
        ('status-test-dropped-in-notify', 'futex/futex.c',
         '            if (wait->status == waitStatusWaiting) {', '            if (1) {'),
        ('mapremove-when-list-not-empty', 'futex/futex.c',
         '        if (*waitList == NULL) {\n            Wait* removedWaitList', '        if (*waitList != NULL) {\n            Wait* removedWaitList'),
        ('notified-count-le-count', 'futex/futex.c',
         'while (wait && notifiedCount < count) {', 'while (wait && notifiedCount <= count) {'),
        ('list-head-not-updated', 'futex/futex.c',
         '        *waitList = (Wait*)listRemove(\n            (ListLink*)*waitList,\n            &wait->link\n        );', '        (void)listRemove(\n            (ListLink*)*waitList,\n            &wait->link\n        );'),
        ('signal-dropped', 'futex/futex.c',
         '                WASM_COND_SIGNAL(&wait->cond);\n', ''),
        ('timeout-reported-although-notified', 'futex/futex.c',
         '        isTimeout = wait->status == waitStatusWaiting;', '        isTimeout = timeout >= 0;'),
    ],
    'C16': [
        ('rmw-add-as-load-op-store', 'w2c2/w2c2_base.h',
         '#define atomic_add_U32(a, v) __atomic_fetch_add((U32*)(a), v, __ATOMIC_SEQ_CST)',
         'static U32 mutant_add_U32(U32* a, U32 v) { U32 o = *a; *a = o + v; return o; }\n#define atomic_add_U32(a, v) mutant_add_U32((U32*)(a), v)'),
        ('cmpxchg-as-load-compare-store', 'w2c2/w2c2_base.h',
         '#define atomic_compare_exchange_U64(a, expected_ptr, desired) \\\n    __atomic_compare_exchange_helper((U64*)(a), expected_ptr, desired)',
         'static U64 mutant_cas_U64(U64* a, U64* e, U64 d) { U64 o = __atomic_load_n(a, __ATOMIC_SEQ_CST); if (o == *e) __atomic_store_n(a, d, __ATOMIC_SEQ_CST); return o; }\n'
         '#define atomic_compare_exchange_U64(a, expected_ptr, desired) mutant_cas_U64((U64*)(a), expected_ptr, desired)'),
        ('xchg8-as-atomic-load-then-store', 'w2c2/w2c2_base.h',
         '#define atomic_exchange_U8(a, v) __atomic_exchange_n((U8*)(a), v, __ATOMIC_SEQ_CST)',
         'static U8 mutant_xchg_U8(U8* a, U8 v) { U8 o = __atomic_load_n(a, __ATOMIC_SEQ_CST); __atomic_store_n(a, v, __ATOMIC_SEQ_CST); return o; }\n#define atomic_exchange_U8(a, v) mutant_xchg_U8((U8*)(a), v)'),
    ],
}


def run_check(prop, repo, tier='quick'):
    rp = os.path.join(VERIF, 'replays')
    before = set(glob.glob(os.path.join(rp, prop + '-*.json')))
    env = dict(os.environ, W2C2_REPO=repo)
    script = {'C16': 'c16.py', 'C17': 'c17.py', 'C18': 'c18.py'}[prop]
    if prop == 'C16' and not os.path.exists(os.path.join(VERIF, 'checks', 'c16.py')):
        script = 'c16_sched.py'
    r = subprocess.run([sys.executable, os.path.join(VERIF, 'checks', script), tier], stdout=subprocess.PIPE, stderr=subprocess.STDOUT, env=env)
    out = r.stdout.decode(errors='replace')
    keys = []
    for ln in out.splitlines():
        if ln.startswith('VIOLATION') and 'replay=' in ln:
            f = ln.split('replay=')[1].strip()
            try:
                keys.append(json.load(open(f))['key'])
            except Exception:
                keys.append('?')
    return r.returncode, sorted(set(keys)), out


def main():
    args = [a for a in sys.argv[1:] if not a.startswith('--')]
    only = sys.argv[sys.argv.index('--only') + 1] if '--only' in sys.argv else None
    if only:
        args = [a for a in args if a != only]
    props = args or ['C18', 'C17', 'C16']
    # evidence files are rewritten by each run: keep the originals
    saved = {p: open(os.path.join(VERIF, 'evidence', p + '.json')).read() for p in props if os.path.exists(os.path.join(VERIF, 'evidence', p + '.json'))}
    try:
        for prop in props:
            base = None
            for m in MUTANTS[prop]:
                name, rel = m[:2]
                variants = m[2] if isinstance(m[2], list) else [[(m[2], m[3])]]
                if only and name != only:
                    continue
                d = tempfile.mkdtemp(prefix='w2c2-mutant.', dir='/dev/shm')
                try:
                    for sub in ('w2c2', 'futex'):
                        shutil.copytree(os.path.join(SRC, sub), os.path.join(d, sub))
                    if base is None:
                        base = set(run_check(prop, d)[1])
                        print('%s baseline (unchanged copy): keys %s' % (prop, sorted(base)))
                    p = os.path.join(d, rel)
                    s = open(p).read()
                    edits = next((v for v in variants if all(o in s for o, n in v)), None)
                    if edits is None:
                        print('%s %-36s mutant does not apply to this tree' % (prop, name))
                        continue
                    for o2, n2 in edits:
                        s = s.replace(o2, n2, 1)
                    open(p, 'w').write(s)
                    rc, keys, out = run_check(prop, d)
                    newkeys = sorted(set(keys) - base)
                    print('%s %-36s %s rc=%d new keys: %s' % (prop, name, 'caught' if newkeys and rc == 1 else 'NOT caught' if rc in (0, 1) else 'MACHINERY?', rc, newkeys))
                    if rc not in (0, 1):
                        print(out[-1500:])
                    sys.stdout.flush()
                finally:
                    shutil.rmtree(d, ignore_errors=True)
    finally:
        for p, txt in saved.items():
            open(os.path.join(VERIF, 'evidence', p + '.json'), 'w').write(txt)


if __name__ == '__main__':
    main()
