/* mc/selftest.c — validates the scheduler/explorer machinery on a 2-thread toy.
 * cases (first harness word):
 *   plain      counter++ on a plain int, no yield between load and store: no lost update can be scheduled
 *              (no scheduling point inside), but TSan must report the race on every schedule
 *   split      load; mc_yield(); store: the lost update must be found at preemption bound 1 (not at 0)
 *   locked     the same split increment inside a mutex: always 2, TSan silent
 *   cond       consumer waits on a condition variable for a flag set by the producer (signal); with
 *              "cond-nosignal" the producer forgets the signal: blocked outcome must be found
 *   timed      like cond-nosignal but with timedwait: the timeout transition frees the consumer
 */
#include <errno.h>
#include <string.h>
#include "sched.h"

static int counter;
static pthread_mutex_t mu;
static pthread_cond_t cv;
static int flag;
static const char* mode = "plain";

static void* inc(void* a) {
    (void)a;
    mc_yield();
    if (!strcmp(mode, "plain")) {
        counter++;
    } else if (!strcmp(mode, "split")) {
        int v = counter;
        mc_yield();
        counter = v + 1;
    } else {
        pthread_mutex_lock(&mu);
        int v = counter;
        mc_yield();
        counter = v + 1;
        pthread_mutex_unlock(&mu);
    }
    return NULL;
}

static void* consumer(void* a) {
    (void)a;
    int rc = 0;
    pthread_mutex_lock(&mu);
    while (!flag && rc != ETIMEDOUT) {
        if (!strcmp(mode, "timed")) { struct timespec ts = {0, 0}; rc = pthread_cond_timedwait(&cv, &mu, &ts); }
        else rc = pthread_cond_wait(&cv, &mu);
    }
    mc_obs("consumer flag=%d rc=%s", flag, rc == ETIMEDOUT ? "ETIMEDOUT" : "0");
    pthread_mutex_unlock(&mu);
    return NULL;
}

static void* producer(void* a) {
    (void)a;
    pthread_mutex_lock(&mu);
    flag = 1;
    if (!strcmp(mode, "cond")) pthread_cond_signal(&cv);
    pthread_mutex_unlock(&mu);
    return NULL;
}

void mc_harness_main(int argc, char** argv) {
    pthread_t t[2];
    if (argc > 0) mode = argv[0];
    pthread_mutex_init(&mu, NULL);
    pthread_cond_init(&cv, NULL);
    if (!strncmp(mode, "cond", 4) || !strcmp(mode, "timed")) {
        pthread_create(&t[0], NULL, consumer, NULL);
        pthread_create(&t[1], NULL, producer, NULL);
    } else {
        pthread_create(&t[0], NULL, inc, NULL);
        pthread_create(&t[1], NULL, inc, NULL);
    }
    pthread_join(t[0], NULL);
    pthread_join(t[1], NULL);
}

MC_NO_TSAN void mc_harness_end(int blocked) {
    mc_end("counter=%d flag=%d blocked=%d", counter, flag, blocked);
}

int main(int argc, char** argv) { return mc_main(argc, argv); }
