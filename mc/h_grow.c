/* mc/h_grow.c — C18 harness: threads of one instance family (generated mNewChild) grow / query / access one
 * shared memory.  Harness words: one word per thread, operations separated by '.':
 *   g<delta>  memory.grow delta      z  memory.size      w<addr>  i32.store addr <- unique value      r<addr>  i32.load addr
 *   f<addr>  memory.fill addr..addr+3      c<addr>  memory.copy addr <- addr+8 (4 bytes)
 * Observation log: "T<id> i <k> <op>" when operation k of that thread is invoked (right after its
 * scheduling point) and "T<id> r <k> <op> <result>" when it returns: the log order is the real-time order. */
#include <stdlib.h>
#include <string.h>
#include "sched.h"
#include "m.h"

mInstance* mNewChild(mInstance* self);

void trap(Trap t) { mc_fail("trap %d", (int)t); for (;;) {} }

typedef struct { char kind; U32 arg; } op_t;
typedef struct { int n; op_t op[8]; mInstance* inst; int id; } prog_t;

#ifdef IMPORTED_MEM
/* the module imports its shared memory: the embedder allocates it and answers the import */
#define MEM(inst) ((inst)->env__mem)
static wasmMemory* the_mem;
static void* resolve(const char* module, const char* name) {
    if (!strcmp(module, "env") && !strcmp(name, "mem")) return the_mem;
    mc_fail("unexpected import %s.%s", module, name);
    return NULL;
}
#else
#define MEM(inst) ((inst)->m0)
#define resolve NULL
#endif

static mInstance parent;
static prog_t prog[8];
static int nprog;
static U8* data0;
static U32 max0;

static void* body(void* a) {
    prog_t* p = (prog_t*)a;
    for (int k = 0; k < p->n; k++) {
        op_t o = p->op[k];
        if (k > 0) mc_yield();          /* scheduling point before each operation (thread start is one already) */
        mc_obs("i %d %c%u", k, o.kind, o.arg);
        switch (o.kind) {
        case 'g': { U32 r = m_grow(p->inst, o.arg); mc_obs("r %d g%u %u", k, o.arg, r); break; }
        case 'z': { U32 r = m_size(p->inst); mc_obs("r %d z0 %u", k, r); break; }
        case 'w': { U32 v = 0x1000u * (U32)p->id + (U32)k + 1u; m_store(p->inst, o.arg, v); mc_obs("r %d w%u %u", k, o.arg, v); break; }
        case 'r': { U32 r = m_load(p->inst, o.arg); mc_obs("r %d r%u %u", k, o.arg, r); break; }
        /* bulk operations on the thread's own cells: f = memory.fill of the 4 bytes of a cell (counts as a store of b*0x01010101),
           c = memory.copy of the cell 8 bytes further up onto this cell */
        case 'f': { U32 b = (0x10u * (U32)p->id + (U32)k + 1u) & 0xffu; m_fill(p->inst, o.arg, b, 4); mc_obs("r %d f%u %u", k, o.arg, b * 0x01010101u); break; }
        case 'c': { m_copy(p->inst, o.arg, o.arg + 8, 4); mc_obs("r %d c%u 0", k, o.arg); break; }
        default: mc_fail("bad op %c", o.kind);
        }
    }
    return NULL;
}

void mc_harness_main(int argc, char** argv) {
    pthread_t t[8];
    nprog = argc;
    if (nprog > 8) mc_fail("too many threads");
#ifdef IMPORTED_MEM
    the_mem = WASM_MEMORY_ALLOCATE_SHARED(MEM_INIT, MEM_MAX);
#endif
    mInstantiate(&parent, resolve);
    data0 = MEM(&parent)->data;
    max0 = MEM(&parent)->maxPages;
    for (int i = 0; i < nprog; i++) {
        prog_t* p = &prog[i];
        const char* s = argv[i];
        p->id = i + 1;
        p->n = 0;
        while (*s && p->n < 8) {
            p->op[p->n].kind = *s++;
            p->op[p->n].arg = (U32)strtoul(s, (char**)&s, 10);
            p->n++;
            if (*s == '.') s++;
        }
        p->inst = mNewChild(&parent);          /* one child instance per model thread, sharing the parent's memory */
        if (MEM(p->inst) != MEM(&parent)) mc_fail("NewChild did not share the parent's memory");
    }
    mc_obs("init pages=%u max=%u shared=%d", MEM(&parent)->pages, MEM(&parent)->maxPages, (int)MEM(&parent)->shared);
    for (int i = 0; i < nprog; i++) mc_thread_create(&t[i], NULL, body, &prog[i]);
    for (int i = 0; i < nprog; i++) mc_thread_join(t[i], NULL);
}

MC_NO_TSAN void mc_harness_end(int blocked) {
    wasmMemory* m = MEM(&parent);
    mc_end("pages=%u size=%u max=%u data=%s blocked=%d", m->pages, m->size, m->maxPages, m->data == data0 ? "same" : "moved", blocked);
    (void)max0;
}

int main(int argc, char** argv) { return mc_main(argc, argv); }
