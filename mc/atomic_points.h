/* mc/atomic_points.h — force-included (-include) into the TUs of the code under test for C16/C19 E2.
 * Every __atomic builtin the runtime header uses becomes a scheduling point of the controlled scheduler:
 * a function-like macro that names itself is not expanded again, so the builtin itself is still what executes.
 * A correct read-modify-write is ONE builtin call = one scheduling point followed by one indivisible step; a
 * read-modify-write that was rewritten as atomic-load + atomic-store has two points, and the explorer puts the
 * other threads between them (ThreadSanitizer cannot see that kind of breakage: both accesses are atomic). */
#ifndef MC_ATOMIC_POINTS_H
#define MC_ATOMIC_POINTS_H
void mc_yield(void);
void mc_fail(const char* fmt, ...);
/* WebAssembly atomic accesses are sequentially consistent: every builtin the runtime uses must be invoked with __ATOMIC_SEQ_CST.  The
 * controlled scheduler is sequentially consistent itself and cannot show what a weaker order would allow on real hardware, so the order
 * argument is checked where the call is made. */
static inline void mc_atomic_point(int order, int order2) {
    if (order != __ATOMIC_SEQ_CST || order2 != __ATOMIC_SEQ_CST)
        mc_fail("atomic builtin invoked with memory order %d/%d, sequentially consistent (%d) is required", order, order2, __ATOMIC_SEQ_CST);
    mc_yield();
}
#define __atomic_load_n(p, o) (mc_atomic_point(o, __ATOMIC_SEQ_CST), __atomic_load_n(p, o))
#define __atomic_store_n(p, v, o) (mc_atomic_point(o, __ATOMIC_SEQ_CST), __atomic_store_n(p, v, o))
#define __atomic_fetch_add(p, v, o) (mc_atomic_point(o, __ATOMIC_SEQ_CST), __atomic_fetch_add(p, v, o))
#define __atomic_fetch_sub(p, v, o) (mc_atomic_point(o, __ATOMIC_SEQ_CST), __atomic_fetch_sub(p, v, o))
#define __atomic_fetch_and(p, v, o) (mc_atomic_point(o, __ATOMIC_SEQ_CST), __atomic_fetch_and(p, v, o))
#define __atomic_fetch_or(p, v, o) (mc_atomic_point(o, __ATOMIC_SEQ_CST), __atomic_fetch_or(p, v, o))
#define __atomic_fetch_xor(p, v, o) (mc_atomic_point(o, __ATOMIC_SEQ_CST), __atomic_fetch_xor(p, v, o))
#define __atomic_exchange_n(p, v, o) (mc_atomic_point(o, __ATOMIC_SEQ_CST), __atomic_exchange_n(p, v, o))
#define __atomic_compare_exchange_n(p, e, d, w, s, f) (mc_atomic_point(s, f), __atomic_compare_exchange_n(p, e, d, w, s, f))
#define __atomic_thread_fence(o) (mc_atomic_point(o, __ATOMIC_SEQ_CST), __atomic_thread_fence(o))
/* other spellings a rewrite might reach for */
#define __atomic_add_fetch(p, v, o) (mc_atomic_point(o, __ATOMIC_SEQ_CST), __atomic_add_fetch(p, v, o))
#define __atomic_sub_fetch(p, v, o) (mc_atomic_point(o, __ATOMIC_SEQ_CST), __atomic_sub_fetch(p, v, o))
#define __atomic_and_fetch(p, v, o) (mc_atomic_point(o, __ATOMIC_SEQ_CST), __atomic_and_fetch(p, v, o))
#define __atomic_or_fetch(p, v, o) (mc_atomic_point(o, __ATOMIC_SEQ_CST), __atomic_or_fetch(p, v, o))
#define __atomic_xor_fetch(p, v, o) (mc_atomic_point(o, __ATOMIC_SEQ_CST), __atomic_xor_fetch(p, v, o))
#define __sync_fetch_and_add(p, v) (mc_yield(), __sync_fetch_and_add(p, v))
#define __sync_val_compare_and_swap(p, e, d) (mc_yield(), __sync_val_compare_and_swap(p, e, d))
#define __sync_bool_compare_and_swap(p, e, d) (mc_yield(), __sync_bool_compare_and_swap(p, e, d))
#endif
