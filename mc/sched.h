/* mc/sched.h — controlled thread scheduler + schedule explorer (stateless model checking of the
 * REAL code, CHESS-style iterative preemption bounding).  DESIGN.md section 1.5.
 *
 * ------------------------------------------------------------------------------------------------
 * What it is
 * ------------------------------------------------------------------------------------------------
 * Model threads are real pthreads, but exactly one of them runs at any time.  A thread gives up the
 * processor only at a *scheduling point*: entry to mc_mutex_lock/unlock, mc_cond_wait/timedwait/
 * signal/broadcast, mc_thread_create/join, thread start, thread end, and mc_yield().  At every
 * scheduling point the scheduler computes the list of enabled transitions in canonical order
 *
 *     [running thread, if it is still enabled] [other enabled threads, ascending id]
 *     [timeout(t) for every thread t blocked in mc_cond_timedwait, ascending id]
 *     [spurious(t) for every thread t blocked in mc_cond_wait/timedwait, ascending id]   (--spurious 1)
 *
 * and takes the next choice of the schedule (an index into that list).  When the list has one entry
 * nothing is recorded; otherwise the point is a *choice point*.  A schedule is the list of choices
 * made at the choice points; after the given prefix is used up every choice is 0.
 *   - "preemption"  = choosing another thread although the running thread is still enabled;
 *   - "deviation"   = choosing timeout(t) while some thread could still run, or any spurious(t).
 *     When no thread is enabled the timeouts are free (time simply passes); when no thread is enabled
 *     and no timeout is pending the execution ends as "blocked" (= deadlock unless the harness'
 *     oracle says those threads are supposed to sleep forever); spurious wake-ups are then offered as
 *     alternatives to a virtual STOP transition (choice 0).
 *   - mc_cond_signal with k > 1 waiters is a choice point with k free alternatives (which waiter).
 *   - reduction (--envpor 1, default): a deviation timeout(t)/spurious(t) only turns t from "asleep" into "wants its mutex
 *     back"; nothing can observe that before the mutex is free, and between two events on that mutex all points are
 *     equivalent for it.  It is therefore offered once per such epoch, at the first scheduling point at which the mutex is
 *     free.  Firing it elsewhere is equivalent (commutes, same costs).  --envpor 0 offers it at every point; mc/selftest.py
 *     checks that both modes produce the same set of outcomes.
 * Semantics modelled: mutex = (owner, blocked set); condition variable = waiter set, a woken waiter
 * must re-acquire the mutex; mc_cond_timedwait ignores the absolute time (the environment decides).
 * Misuse (unlock by non-owner, wait without the mutex, destroy while in use, use before init of a
 * destroyed object) ends the execution with status "fail".
 *
 * The hand-off between threads uses raw syscall(SYS_futex) on per-thread words and sched.c is
 * compiled WITHOUT any sanitizer, so ThreadSanitizer sees no happens-before edge from the hand-off.
 * mc_mutex_lock/unlock and the cond operations call __tsan_acquire/__tsan_release on the mutex
 * address (weak references: absent in non-TSan builds), so only the code's own locking orders
 * accesses.  Every enumerated schedule is a serial execution on which TSan decides whether two
 * conflicting plain accesses were ordered by the code's synchronisation.
 *
 * ------------------------------------------------------------------------------------------------
 * How the code under test gets here: no source change, compile it with MC_RENAMES (see mc/mcbuild.py)
 * ------------------------------------------------------------------------------------------------
 *   -Dpthread_mutex_lock=mc_mutex_lock -Dpthread_mutex_unlock=mc_mutex_unlock
 *   -Dpthread_cond_wait=mc_cond_wait -Dpthread_cond_timedwait=mc_cond_timedwait
 *   -Dpthread_cond_signal=mc_cond_signal -Dpthread_cond_broadcast=mc_cond_broadcast
 *   -Dpthread_mutex_init=mc_mutex_init -Dpthread_mutex_destroy=mc_mutex_destroy
 *   -Dpthread_cond_init=mc_cond_init -Dpthread_cond_destroy=mc_cond_destroy
 *   -Dpthread_create=mc_thread_create_ut -Dpthread_join=mc_thread_join
 * <pthread.h>'s own prototypes are renamed consistently, so this header only re-declares them.
 * sched.c itself is compiled WITHOUT the renames (it needs the real pthread_create/join).
 *
 * ------------------------------------------------------------------------------------------------
 * How to write a harness
 * ------------------------------------------------------------------------------------------------
 *   #include "sched.h"
 *   static void* body(void* arg) {            // a model thread
 *       mc_yield();                           // scheduling point before each operation it drives
 *       mc_obs("inv grow 1");                 // observation log: one global, ordered log; every
 *       r = m_grow(inst, 1);                  //   entry is tagged with the model thread id, so it
 *       mc_obs("res grow 1 %u", r);           //   holds the per-thread results AND the real-time order
 *       return NULL;
 *   }
 *   void mc_harness_main(int argc, char** argv) {   // runs as model thread 0; argv = words after "--"
 *       ... build the instance described by argv (the "case") ...
 *       pthread_t t[2]; mc_thread_create(&t[0], NULL, body, a0); ... mc_thread_join(t[0], NULL); ...
 *   }
 *   MC_NO_TSAN void mc_harness_end(int blocked) {   // called once at the terminal state, by whichever
 *       mc_end("pages=%u", mem->pages);             //   thread reached it (blocked=1: some threads can
 *   }                                               //   never run again).  Canonical end state: no
 *                                                   //   pointers, no pids.  Mark it MC_NO_TSAN: it
 *   int main(int c, char** v) { return mc_main(c, v); }   // inspects state it did not synchronise for.
 * mc_obs/mc_end/mc_fail use an own formatter (%d %u %x %s %c with l/ll, no libc) and storage owned by
 * the un-instrumented scheduler, so they add no synchronisation and no sanitizer noise.
 * mc_fail(fmt,...) ends the execution with status "fail" (harness-detected error).
 *
 * ------------------------------------------------------------------------------------------------
 * How the explorer is invoked (mc_main)
 * ------------------------------------------------------------------------------------------------
 *   drv explore [--pb P] [--db D] [--spurious 0|1] [--horizon N] [--jobs J] [--deadline SEC]
 *               [--maxexec N] [--cpu K] [--envpor 0|1] [--stack KB] -- <harness words>
 *       (--stack: stack size of model threads, default 256 KB; raise it for code with deep recursion)
 *       (--cpu K pins the executions of in-flight slot j to CPU K+j: one running thread at a time, so one CPU is best)
 *       iterates the preemption bound p = 0..P (deviation bound D fixed), every execution in a forked
 *       child, J children in flight.  explore(prefix): replay the prefix (enabled-set signature or
 *       range mismatch => status "machinery", exit 2), then choice 0 to the end; for every later
 *       choice point and every alternative whose cumulative cost stays within (P,D) a new prefix is
 *       queued at the level of its preemption cost.  Prints JSON lines:
 *         {"type":"level","p":..,"schedules":..,"cum":..,"distinct":..,"complete":..}
 *         {"type":"outcome","count":..,"level":..,"status":"ok|blocked|horizon|fail|signal:N|exit:N",
 *          "san":0|1,"sched":[..],"obs":"..","end":"..","err":"..","stderr":".."}   one per DISTINCT
 *          (status,san,obs,end); "sched" is the smallest schedule that produced it
 *         {"type":"done","execs":..,"transitions":..,"maxsteps":..,"bounds_completed":..,"exhaustive":..,
 *          "selfcheck":"ok"}      (the first schedule is executed twice and compared)
 *       exit 0 = exploration ran (the oracle on the outcomes is the caller's), exit 2 = machinery error.
 *   drv replay --sched 0,2,1 [--spurious 0|1] [--horizon N] -- <harness words>
 *       executes exactly that schedule (zeros afterwards) and prints one JSON object with the trace of
 *       transitions taken, the observations, the end state and the child's stderr.
 * The deadline is honoured between levels (and a level that overruns it by 2x is abandoned and reported
 * as incomplete: "exhaustive":false, bounds_completed = last complete level).
 */
#ifndef MC_SCHED_H
#define MC_SCHED_H
#include <pthread.h>
#include <time.h>

#ifdef __cplusplus
extern "C" {
#endif

#if defined(__clang__)
#define MC_NO_TSAN __attribute__((no_sanitize("thread"))) __attribute__((noinline))
#elif defined(__GNUC__)
#define MC_NO_TSAN __attribute__((no_sanitize_thread)) __attribute__((noinline))
#else
#define MC_NO_TSAN
#endif

/* 1 when the including TU is compiled with -fsanitize=thread (gcc: __SANITIZE_THREAD__, clang: __has_feature) */
#if defined(__SANITIZE_THREAD__)
#define MC_TSAN_BUILD 1
#elif defined(__has_feature)
#if __has_feature(thread_sanitizer)
#define MC_TSAN_BUILD 1
#endif
#endif
#ifndef MC_TSAN_BUILD
#define MC_TSAN_BUILD 0
#endif

#define MC_MAX_THREADS 16

int mc_mutex_init(pthread_mutex_t* m, const pthread_mutexattr_t* a);
int mc_mutex_destroy(pthread_mutex_t* m);
int mc_mutex_lock(pthread_mutex_t* m);
int mc_mutex_unlock(pthread_mutex_t* m);
int mc_cond_init(pthread_cond_t* c, const pthread_condattr_t* a);
int mc_cond_destroy(pthread_cond_t* c);
int mc_cond_wait(pthread_cond_t* c, pthread_mutex_t* m);
int mc_cond_timedwait(pthread_cond_t* c, pthread_mutex_t* m, const struct timespec* abstime);
int mc_cond_signal(pthread_cond_t* c);
int mc_cond_broadcast(pthread_cond_t* c);
int mc_thread_create(pthread_t* t, const pthread_attr_t* a, void* (*fn)(void*), void* arg);
void mc_fail_next_create(void);      /* the next pthread_create of the code under test, called by this thread, fails with EAGAIN */
int mc_thread_create_ut(pthread_t* t, const pthread_attr_t* a, void* (*fn)(void*), void* arg);   /* + a scheduling point after the creation */
int mc_thread_join(pthread_t t, void** ret);
void mc_yield(void);
int mc_self(void);                 /* model thread id: 0 = harness main, then in creation order */

void mc_obs(const char* fmt, ...);  /* "T<id> <text>\n" appended to the global observation log */
void mc_end(const char* fmt, ...);  /* appended to the canonical end state */
void mc_fail(const char* fmt, ...); /* harness-detected failure: status "fail", execution ends */
void mc_log_sync(int on);           /* 1: the scheduler also logs synchronisation events into the observation log, in order:
                                       "T1 L0" T1 acquired mutex 0, "T1 A0" re-acquired it after a condition wait, "T1 U0" unlocked,
                                       "T1 C2" went to sleep on condition variable 2, "T3 S2>1" signal woke T1 ("S2>-" nobody),
                                       "T3 B2>1,2" broadcast, "E TO1" timeout of T1 fired, "E SP1" spurious wake-up of T1.
                                       This is how an oracle learns the order in which critical sections were entered. */

/* introspection for end-state functions */
int mc_thread_blocked_on_cond(int tid);   /* 1 if the thread sleeps in cond_wait/timedwait */
int mc_thread_finished(int tid);
int mc_thread_count(void);

/* provided by the harness */
void mc_harness_main(int argc, char** argv);
void mc_harness_end(int blocked);

int mc_main(int argc, char** argv);

#ifdef __cplusplus
}
#endif
#endif
