/* mc/h_futex.c — C17 harness (E2 protocol): waiter and notifier threads of one instance family call the TRANSLATED
 * memory.atomic.wait32/wait64/notify (and i32.atomic.store) functions; futex.c/list.c/map.c and w2c2_base.h are the
 * real ones, compiled with the pthread renames.
 * Harness words, one per thread:
 *   W:<bits 32|64>:<addr>:<memarg offset 0|16>:<expected: old|new>:<timeout ns, -1 = infinite>
 *   N:<addr>:<memarg offset 0|16>:<count>:<store 0|1>
 * Cells: the 32-bit word at effective address x initially holds 0xA0000000+x ("old"), the following word 0xB0000000+x;
 * "new" = old+1; a notifier with store=1 first does i32.atomic.store(effective address, new), then notifies.
 * Log: "T1 i W", "T1 r W <ret>", "T3 s <effaddr> <value>", "T3 i N", "T3 r N <ret>" + the scheduler's sync events. */
#include <stdlib.h>
#include <string.h>
#include "sched.h"
#include "m.h"
#include "../futex/map.h"

mInstance* mNewChild(mInstance* self);

void trap(Trap t) { mc_fail("trap %d", (int)t); for (;;) {} }

typedef struct { char kind; int bits; U32 addr, off, count; int exp_new, store; I64 timeout; mInstance* inst; } prog_t;

static mInstance parent;
static prog_t prog[8];
static int nprog;

static U32 old32(U32 x) { return 0xA0000000u + x; }

static void* body(void* a) {
    prog_t* p = (prog_t*)a;
    U32 eff = p->addr + p->off;
    /* thread start is the scheduling point before the (first) operation */
    if (p->kind == 'W') {
        U32 r;
        U64 hi = (U64)(0xB0000000u + eff) << 32;
        U64 e32 = p->exp_new ? old32(eff) + 1u : old32(eff);
        mc_obs("i W");
        if (p->bits == 32) r = p->off ? m_w32o16(p->inst, p->addr, (U32)e32, (U64)p->timeout) : m_w32o0(p->inst, p->addr, (U32)e32, (U64)p->timeout);
        else r = p->off ? m_w64o16(p->inst, p->addr, hi | e32, (U64)p->timeout) : m_w64o0(p->inst, p->addr, hi | e32, (U64)p->timeout);
        mc_obs("r W %u", r);
    } else {
        U32 r;
        if (p->store) {
            m_st32(p->inst, eff, old32(eff) + 1u);
            mc_obs("s %u %u", eff, old32(eff) + 1u);
            mc_yield();
        }
        mc_obs("i N");
        r = p->off ? m_no16(p->inst, p->addr, p->count) : m_no0(p->inst, p->addr, p->count);
        mc_obs("r N %u", r);
    }
    return NULL;
}

static long fld(const char** s) {
    long v = strtol(*s, (char**)s, 10);
    if (**s == ':') (*s)++;
    return v;
}

void mc_harness_main(int argc, char** argv) {
    pthread_t t[8];
    nprog = argc;
    if (nprog > 8) mc_fail("too many threads");
    mInstantiate(&parent, NULL);
    if (!parent.m0->shared) mc_fail("memory is not shared");
    for (int i = 0; i < nprog; i++) {
        prog_t* p = &prog[i];
        const char* s = argv[i];
        memset(p, 0, sizeof *p);
        p->kind = *s; s += 2;
        if (p->kind == 'W') {
            p->bits = (int)fld(&s); p->addr = (U32)fld(&s); p->off = (U32)fld(&s);
            p->exp_new = !strncmp(s, "new", 3); s += 4;
            p->timeout = (I64)strtoll(s, NULL, 10);
        } else if (p->kind == 'N') {
            p->addr = (U32)fld(&s); p->off = (U32)fld(&s); p->count = (U32)strtoul(s, (char**)&s, 10); if (*s == ':') s++; p->store = (int)fld(&s);
        } else mc_fail("bad thread word %s", argv[i]);
        U32 eff = p->addr + p->off;
        m_init32(&parent, eff, old32(eff));              /* plain stores before any thread exists */
        m_init32(&parent, eff + 4, 0xB0000000u + eff);
        p->inst = mNewChild(&parent);
        if (p->inst->m0 != parent.m0) mc_fail("NewChild did not share the parent's memory");
    }
    mc_log_sync(1);
    for (int i = 0; i < nprog; i++) mc_thread_create(&t[i], NULL, body, &prog[i]);
    for (int i = 0; i < nprog; i++) mc_thread_join(t[i], NULL);
    /* every thread has returned, so nobody waits any more: a final notify(count = 2^32-1) on each address used must find
       nothing to wake (return 0); it walks the bucket chain and the wait list of that address, so a node or wait record
       that was freed but left linked is touched by the protocol itself (AddressSanitizer reports it inside futex.c/map.c) */
    for (int i = 0; i < nprog; i++) {
        U32 eff = prog[i].addr + prog[i].off;
        int seen = 0;
        for (int j = 0; j < i; j++) if (prog[j].addr + prog[j].off == eff) seen = 1;
        if (!seen) mc_obs("p %u %u", eff, m_no0(&parent, eff, 0xFFFFFFFFu));
    }
}

/* canonical end state: the futex map (bucket, key, number of wait records on that key's list), sorted by construction
 * (buckets ascending; chain order within a bucket is reported as found) */
/* the walk below must not itself trip over a dangling pointer left in the map: in ASan builds freed memory is poisoned and
   is reported as "[dangling ...]" in the end state (the oracle judges it) instead of being dereferenced */
int __asan_address_is_poisoned(void const volatile* addr) __attribute__((weak));
static int dangling(const void* p, size_t n) {
    if (!__asan_address_is_poisoned) return 0;
    return __asan_address_is_poisoned(p) || __asan_address_is_poisoned((const char*)p + n - 1);
}

MC_NO_TSAN void mc_harness_end(int blocked) {
    Map* map = (Map*)parent.m0->futex;
    int nodes = 0;
    mc_end("blocked=%d map=", blocked);
    if (!map) { mc_end("none"); return; }
    for (size_t b = 0; b < map->bucketCount; b++) {
        for (MapNode* n = map->buckets[b]; n; n = (MapNode*)n->link.next) {
            int len = 0;
            if (dangling(n, sizeof *n)) { mc_end("[dangling map node in bucket %u]", (unsigned)b); nodes++; break; }
            for (ListLink* l = (ListLink*)n->value; l && len < 100; l = l->next) {
                if (dangling(l, sizeof *l)) { mc_end("[dangling wait record on key %u]", n->key); break; }
                len++;
            }
            mc_end("[b%u k%u n%d]", (unsigned)b, n->key, len);
            if (++nodes > 50) { mc_end("..."); return; }
        }
    }
    if (!nodes) mc_end("empty");
}

int main(int argc, char** argv) { return mc_main(argc, argv); }
