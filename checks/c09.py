#!/usr/bin/env python3
"""C09 Output options and worker scheduling never change what the program does.
E-config: full option product per base module on the real translator; oracles (i) each function defined exactly once
across main/s*/d* files, (ii) per-function text equal to the single-file single-thread run with the same formatting
options, (iii) a function is in an 's' file only if the reference module holds a byte-identical body (own decoder),
(iv) every emitted .c compiles on its own against the header, (v) linked output behaves like the reference
interpreter, (vi) repeated runs are byte-identical, (vii) all translator build configurations write identical files.
E-sched (checks/c09_sched.py): the real producer/worker code under the controlled scheduler."""
import sys, os, re, glob, hashlib, itertools, json, shutil, subprocess, tempfile
sys.path.insert(0, os.path.dirname(os.path.abspath(__file__)))
from numeric import *
import wasmparse as wp
from concurrent.futures import ProcessPoolExecutor

FUNC_RE = re.compile(r'^(?:void|U32|U64|F32|F64) (?:m_)?f(\d+)\(mInstance\*')


def base_modules():
    out = []
    # B1: imports, memory, duplicate bodies, passive+active data of several lengths (incl. empty), memory.init, full name section, start
    m = Module()
    m.import_func('env', 'mark', 'i', 'i')
    m.mems.append((1, 2))
    dupbody = local_get(0) + i32_const(1) + op(0x6a)
    f = [m.add_func('i', 'i', (), local_get(0) + call(0), export='e0'),
         m.add_func('i', 'i', (), dupbody, export='e1'),
         m.add_func('i', 'i', (), dupbody, export='e2'),
         m.add_func('i', 'i', (), i32_const(64) + i32_const(0) + i32_const(5) + memory_init(1) + local_get(0) + memop(0x2d), export='e3'),
         m.add_func('i', 'i', [(1, I32)], local_get(0) + local_tee(1) + memop(0x2d) + local_get(1) + op(0x6a), export='e4'),
         m.add_func('', '', (), i32_const(200) + i32_const(0x5a) + memop(0x3a))]
    m.start = f[5]
    # the import also sits in a table and is exported again (uses of an imported function outside function bodies)
    m.tables.append((4, 4)); m.elems.append((0, i32_const(1), [0, f[1]]))
    m.exports.append(('reexp', 0, 0))
    m.datas += [('active', 0, i32_const(0), bytes(range(1, 20))), ('passive', 0, b'', b'\x81\x82\x83\x84\x85'), ('active', 0, i32_const(32), b''),
                ('active', 0, i32_const(40), bytes(range(100, 137)))]
    m.datacount = True
    # debug names (used with -g): duplicates, and duplicates that are also the export name of one of the two functions (function 2 is exported
    # as e1, function 5 as e4): functions with ambiguous debug names must end up with distinct symbols
    # ... and the non-exported start function has a demangled C++ name (quotes, backslash, spaces, parentheses: not usable as a symbol)
    m.names = {0: 'host_mark', 1: 'e1', 2: 'e1', 3: 'inc', 4: 'inc', 5: 'load_add', 6: 'std::start<"x\\y">(int) const'}
    calls = {'e0': [(5,)], 'e1': [(7,)], 'e2': [(0xffffffff,)], 'e3': [(64,), (66,), (0,), (18,), (40,), (76,), (200,)], 'e4': [(3,), (41,)]}
    out.append(('B1', m, calls, [('env', 'mark', 'i', 'i')]))
    # B2: no memory, table + call_indirect, no name section
    m = Module()
    t = m.type('i', 'i')
    a = m.add_func('i', 'i', (), local_get(0) + i32_const(2) + op(0x6c))
    b = m.add_func('i', 'i', (), local_get(0) + i32_const(3) + op(0x6c))
    m.add_func('ii', 'i', (), local_get(0) + local_get(1) + call_indirect(t), export='e0')
    m.tables.append((4, 4)); m.elems.append((0, i32_const(1), [a, b]))
    out.append(('B2', m, {'e0': [(5, 1), (5, 2)]}, []))
    # B3: nine functions, mixed signatures, globals, partial name section
    m = Module()
    m.import_func('env', 'init', '', '')          # an imported function as the start function
    m.start = 0
    m.globals.append((I64, 1, i64_const(5)))
    for k in range(9):
        # functions 1 and 2 (k = 0, 1) are NOT exported and are called by e3 / e4
        if k % 3 == 0:
            m.add_func('I', 'I', (), local_get(0) + (call(1) if k == 3 else b'') + i64_const(k) + op(0x7c) + global_get(0) + op(0x7c), export='e%d' % k if k else None)
        elif k % 3 == 1:
            # e4 also rounds with f64.floor / f64.sqrt / f64.nearest (the runtime calls libm for them) and calls function 8, which is NOT exported
            # and carries the debug name 'floor': under -g its symbol must not capture the runtime's calls of the C library function
            m.add_func('F', 'F', (), local_get(0) + (call(2) + op(0x9c) + call(8) + op(0x9f) + op(0x9e) if k == 4 else b'') + f64_const(0x4000000000000000 + (k << 40)) + op(0xa2),
                       export='e%d' % k if k > 1 and k != 7 else None)
        else:
            m.add_func('iI', 'i', [(2, I64), (1, F32)], local_get(1) + local_set(2) + local_get(0) + local_get(2) + op(0xa7) + op(0x6a) + i32_const(k) + op(0x73), export='e%d' % k)
    # debug names (-g): the non-exported function 1 carries the name under which function 4 is exported ('e3'); the non-exported function 2 and
    # the exported function 5 both have the debug name 'e4', which is also the export name of function 5
    m.names = {1: 'e3', 2: 'e4', 5: 'e4', 3: 'two', 8: 'floor'}
    calls = {}
    for k in range(2, 9):
        if k == 7:
            continue
        calls['e%d' % k] = [(11,)] if k % 3 == 0 else [(0x4008000000000000,), (0x400c000000000000,), (0xc00c000000000000,)] if k % 3 == 1 else [(3, 4)]
    out.append(('B3', m, calls, [('env', 'init', '', 'v')]))
    return out


def reference_variants(name, m):
    """(label, bytes) reference modules built from the same AST"""
    import copy
    out = [('none', None), ('self', m.encode())]
    m2 = copy.deepcopy(m)
    m2.funcs[1].body = m2.funcs[1].body + NOP
    out.append(('one-body-changed', m2.encode()))
    m3 = copy.deepcopy(m)
    for fn in m3.funcs[:2]:
        fn.locals = list(fn.locals) + [(1, F64)]
    out.append(('locals-changed', m3.encode()))
    m4 = copy.deepcopy(m)
    for k, fn in enumerate(m4.funcs):
        fn.body = fn.body + NOP * (k + 1)
    out.append(('disjoint', m4.encode()))
    # the same bodies at OTHER function indices (rotated inside each group of functions with equal signature and locals, so the reference is
    # still a valid module), and a reference with additional functions the module does not have
    m5 = copy.deepcopy(m)
    groups = {}
    for fn in m5.funcs:
        groups.setdefault((fn.typeidx, tuple(fn.locals)), []).append(fn)
    for g in groups.values():
        bodies = [fn.body for fn in g]
        for fn, bd in zip(g, bodies[1:] + bodies[:1]):
            fn.body = bd
    out.append(('moved', m5.encode()))
    m6 = copy.deepcopy(m)
    for k in range(4):
        m6.add_func('', '', (), NOP * (k + 1) + i32_const(k * 77) + DROP)
    out.append(('extra-in-reference', m6.encode()))
    return out


def body_bytes(wasm):
    """own decoder: the bytes of every code entry (locals + instructions, without the size field), in function order"""
    hdr, secs = wp.parse(wasm)
    for s in secs:
        if s.id == 10:
            return [b''.join(c.emit() for c in t.children) for t in s.sized.children if isinstance(t, wp.Sized)]
    return []


def n_func_imports(wasm):
    hdr, secs = wp.parse(wasm)
    n = 0
    for s in secs:
        if s.id == 2:
            ch = s.sized.children
            # kinds are Raw single bytes following the two names; simpler: use the reference decoder's view
    return None


def run_translator(w2c2, wd, wasm, opts, refwasm=None):
    for f in glob.glob(os.path.join(wd, '*')):
        if os.path.isdir(f):
            shutil.rmtree(f)
        else:
            os.unlink(f)
    with open(os.path.join(wd, 'm.wasm'), 'wb') as f:
        f.write(wasm)
    args = list(opts)
    if refwasm is not None:
        with open(os.path.join(wd, 'ref.wasm'), 'wb') as f:
            f.write(refwasm)
        args += ['-r', os.path.join(wd, 'ref.wasm')]
    r = subprocess.run([w2c2] + args + [os.path.join(wd, 'm.wasm'), os.path.join(wd, 'm.c')], stdout=subprocess.PIPE, stderr=subprocess.PIPE, timeout=120)
    files = {}
    for f in sorted(glob.glob(os.path.join(wd, '*'))):
        b = os.path.basename(f)
        if b in ('m.wasm', 'ref.wasm') or os.path.isdir(f):
            continue
        files[b] = open(f, 'rb').read()
    return r.returncode, r.stderr.decode(errors='replace'), files


def functions_of(files):
    """{function index: [(file, text)]}"""
    out = {}
    for fn, data in files.items():
        if not fn.endswith('.c'):
            continue
        for block in data.decode(errors='replace').split('\n\n'):
            lines = block.strip('\n').split('\n')
            for li, first in enumerate(lines):
                mm = FUNC_RE.match(first)
                if mm and first.rstrip().endswith('{'):
                    out.setdefault(int(mm.group(1)), []).append((fn, '\n'.join(lines[li:])))
                    break
    return out


def work(job):
    """one (module, formatting options) cell: runs the whole f x t x d x r sub-product"""
    name, wasm, nimp, ndef, refs, p, mflag, g, tier, w2c2 = job
    wd = tempfile.mkdtemp(prefix='c09.', dir='/dev/shm')
    res = {'runs': 0, 'problems': [], 'cells': 0}
    fmt = (['-p'] if p else []) + (['-m'] if mflag else []) + (['-g'] if g else [])
    try:
        rc, err, basefiles = run_translator(w2c2, wd, wasm, fmt + ['-t', '1', '-f', '0'])
        res['runs'] += 1
        if rc != 0:
            res['problems'].append(('baseline-failed', ' '.join(fmt), err[-200:]))
            return res
        basefuncs = functions_of(basefiles)
        want = set(range(nimp, nimp + ndef))
        if set(basefuncs) != want or any(len(v) != 1 for v in basefuncs.values()):
            res['problems'].append(('baseline-functions', ' '.join(fmt), 'functions found %s expected %s' % (sorted(basefuncs), sorted(want))))
            return res
        mybodies = body_bytes(wasm)
        fvals = list(range(0, ndef + 2))
        tvals = [1, 2, 3, 64]
        if tier == 'quick':
            fvals = [0, 1, 2, ndef, ndef + 1]; tvals = [1, 3, 64]
        for f, t, d, (rlabel, rwasm) in itertools.product(fvals, tvals, ('arrays', 'gnu-ld'), refs):
            opts = fmt + ['-f', str(f), '-t', str(t), '-d', d]
            desc = '%s %s ref=%s' % (name, ' '.join(opts), rlabel)
            rc, err, files = run_translator(w2c2, wd, wasm, opts, rwasm)
            res['runs'] += 1; res['cells'] += 1
            if rc != 0:
                res['problems'].append(('translator-failed', desc, err[-200:])); continue
            funcs = functions_of(files)
            # (i) exactly once
            if set(funcs) != want:
                res['problems'].append(('function-set', desc, 'defined %s expected %s' % (sorted(funcs), sorted(want)))); continue
            dup = [k for k, v in funcs.items() if len(v) != 1]
            if dup:
                res['problems'].append(('defined-more-than-once', desc, 'function %s in %s' % (dup[0], [x[0] for x in funcs[dup[0]]]))); continue
            # (ii) same text as the single-file single-thread run
            for k in sorted(funcs):
                if funcs[k][0][1] != basefuncs[k][0][1]:
                    res['problems'].append(('function-text', desc, 'f%d differs from the -t 1 -f 0 output' % k)); break
            # (iii) static only if the reference holds a byte-identical body
            if rwasm is not None:
                refbodies = set(body_bytes(rwasm))
                for k in sorted(funcs):
                    fn = funcs[k][0][0]
                    if fn.startswith('s') and fn != 'm.c' and mybodies[k - nimp] not in refbodies:
                        res['problems'].append(('static-misclassified', desc, 'f%d is in %s but the reference has no identical body' % (k, fn))); break
            # file naming / data segment mode
            for fn in files:
                if not (fn in ('m.c', 'm.h') or re.match(r'^[sd][0-9]{10}\.c$', fn) or (fn == 'datasegments' and d == 'gnu-ld')):
                    res['problems'].append(('unexpected-file', desc, fn))
            # (vi) repeated run byte-identical (for threaded multi-file runs, where scheduling could matter)
            if t > 1 and f in (1, 2):
                rc2, err2, files2 = run_translator(w2c2, wd, wasm, opts, rwasm)
                res['runs'] += 1
                if files2 != files:
                    diff = [k for k in set(files) | set(files2) if files.get(k) != files2.get(k)]
                    res['problems'].append(('nondeterministic-output', desc, 'files differ between two runs: %s' % diff[:3]))
            # (iv) every .c compiles on its own against the header (subset: one thread count is enough, texts are equal by (ii))
            if t == tvals[0] and rlabel in ('none', 'one-body-changed') and (tier == 'thorough' or f in (0, 1)):
                for fn in files:
                    if fn.endswith('.c'):
                        with open(os.path.join(wd, fn), 'wb') as fh:
                            fh.write(files[fn])
                for fn in files:
                    if fn.endswith('.c'):
                        r = subprocess.run(['gcc', '-c', '-o', '/dev/null', '-w', '-Werror=implicit-function-declaration', '-I', os.path.join(REPO, 'w2c2'), '-I', wd, os.path.join(wd, fn)], stdout=subprocess.PIPE, stderr=subprocess.PIPE)
                        res['runs'] += 1
                        if r.returncode != 0:
                            res['problems'].append(('file-does-not-compile', desc, '%s: %s' % (fn, r.stderr.decode(errors='replace')[:200]))); break
        return res
    finally:
        shutil.rmtree(wd, ignore_errors=True)


def hash_boundary_part(chk, w2c2):
    """the static/dynamic split compares SHA-1 digests of code entries: one function for EVERY body size 8..300 bytes (all hash
    block boundaries and padding cases), reference modules that differ from it only in the last constant, only in the first
    constant, or in every second function.  Oracle (iii): a function whose code entry is not byte-identical in the reference
    must not be classified static."""
    def build(first, last, locals_=()):
        m = Module()
        for size in range(8, 301):
            k = size - 7
            body = i32_const(first(size)) + DROP + NOP * k + i32_const(last(size))
            assert len(body) + 2 == size, (size, len(body))
            m.add_func('', 'i', locals_, body, export='e%d' % size if size % 50 == 0 else None)
        return m.encode()
    runs = 0
    wd = tempfile.mkdtemp(prefix='c09h.', dir='/dev/shm')
    try:
      # without and with declared locals (the code entry starts with the locals vector: 1 byte vs 5 bytes)
      for lname, locs in (('', ()), (' with locals (i32)(i64 i64)', [(1, I32), (2, I64)])):
        base = build(lambda s: 1, lambda s: 2, locs)
        refs = [('last-constant-differs' + lname, build(lambda s: 1, lambda s: 3, locs)), ('first-constant-differs' + lname, build(lambda s: 5, lambda s: 2, locs)),
                ('every-second-function-differs-at-the-end' + lname, build(lambda s: 1, lambda s: 2 + (s & 1), locs))]
        mybodies = body_bytes(base)
        for rlabel, rwasm in refs:
            refbodies = set(body_bytes(rwasm))
            for opts in (['-f', '0'], ['-f', '40', '-t', '3']):
                rc, err, files = run_translator(w2c2, wd, base, opts, rwasm)
                runs += 1
                desc = 'hash-boundary module (293 functions, body sizes 8..300) %s ref=%s' % (' '.join(opts), rlabel)
                if rc != 0:
                    chk.violation('config|hash-boundary|translator-failed', {'kind': 'config', 'cell': desc, 'detail': err[-300:]}, '%s: %s' % (desc, err[-200:]))
                    continue
                funcs = functions_of(files)
                wrong = [k for k in sorted(funcs) if funcs[k][0][0].startswith('s') and mybodies[k] not in refbodies]
                missing = [k for k in range(293) if k not in funcs]
                if missing:
                    chk.violation('config|hash-boundary|function-set', {'kind': 'config', 'cell': desc, 'missing': missing[:10]}, '%s: functions %s are not defined in any file' % (desc, missing[:5]))
                if wrong:
                    chk.violation('config|hash-boundary|static-misclassified', {'kind': 'config', 'cell': desc, 'functions': wrong[:20], 'body_sizes': [len(mybodies[k]) for k in wrong[:20]],
                                                                             'how_to_replay': 'python3 checks/c09.py quick'},
                                  '%s: %d function(s) are in a static file although the reference has no byte-identical code entry, e.g. f%d (code entry of %d bytes)' % (
                                      desc, len(wrong), wrong[0], len(mybodies[wrong[0]])))
    finally:
        shutil.rmtree(wd, ignore_errors=True)
    return runs


def behaviour_jobs(tier):
    """(v) linked output of option variants vs the reference interpreter"""
    jobs = []
    for name, m, calls, imports in base_modules():
        wasm = m.encode()
        refs = dict(reference_variants(name, m))
        for p, mm, g, d, f, r in itertools.product((0, 1), (0, 1), (0, 1), ('arrays', 'gnu-ld'), (0, 1, 2), ('none', 'one-body-changed')):
            if tier == 'quick' and (p + mm + g + (d == 'gnu-ld') + f + (r != 'none')) % 3 != 0:
                continue
            cases = []; inputsets = []
            nimp = len(imports)
            ftypes = {e[0]: (m.types[m.funcs[e[2] - nimp].typeidx]) for e in m.exports if e[1] == 0}
            for en, vecs in calls.items():
                ps, rs = ftypes[en]
                tc = {I32: 'i', I64: 'I', F32: 'f', F64: 'F'}
                inputsets.append(('explicit', vecs))
                cases.append(Case(en, ''.join(tc[x] for x in ps), tc[rs[0]] if rs else 'v', len(inputsets) - 1, -1, 'export ' + en))
            imps = [tuple(list(i) + (['m_%s__%s' % (i[0], i[1])] if mm else [])) for i in imports]
            b = Batch(wasm, cases, inputsets, [], imps)
            opts = (['-p'] if p else []) + (['-m'] if mm else []) + (['-g'] if g else []) + ['-d', d, '-f', str(f), '-t', '2']
            b.desc = '%s %s ref=%s' % (name, ' '.join(opts), r)
            b.refwasm = refs[r]
            b.opts = opts
            if name == 'B1':
                b.impl_mem = 'ls_cur_inst->m0'; b.compare_mem = True
            jobs.append(b)
    return jobs


def run_behaviour(args):
    b, w2c2 = args
    wd = scratch('c09b')
    opts = list(b.opts)
    if b.refwasm is not None:
        with open(os.path.join(wd, 'ref.wasm'), 'wb') as f:
            f.write(b.refwasm)
        opts += ['-r', os.path.join(wd, 'ref.wasm')]
    from batch import translate, gen_driver, compile_driver, parse_output
    rc, err = translate(b.wasm, wd, w2c2, opts)
    if rc != 0:
        return {'done': False, 'stage': 'translate', 'stderr': err}
    link = []
    if 'gnu-ld' in opts:
        r = subprocess.run(['ld', '-r', '-b', 'binary', '-o', 'ds.o', 'datasegments'], cwd=wd, stdout=subprocess.PIPE, stderr=subprocess.PIPE)
        if r.returncode != 0:
            return {'done': False, 'stage': 'ld', 'stderr': r.stderr.decode()}
        link = [os.path.join(wd, 'ds.o')]
    with open(os.path.join(wd, 'driver.c'), 'w') as f:
        f.write(gen_driver(b))
    # debug builds (-g) are compiled without optimisation, as debug builds are: calls of C library functions stay calls (an optimising compiler expands floor/sqrt inline)
    rc, err, cmd = compile_driver(wd, 'gcc', ('-O0',) if '-g' in b.opts else ('-O1',), link=link)
    if rc != 0:
        return {'done': False, 'stage': 'compile', 'stderr': err[-1500:], 'cmd': ' '.join(cmd)}
    r = subprocess.run([os.path.join(wd, 'drv'), os.path.join(wd, 'm.wasm')], stdout=subprocess.PIPE, stderr=subprocess.PIPE, timeout=300)
    res = parse_output(r.stdout.decode(errors='replace'))
    res['stage'] = 'run'; res['stderr'] = r.stderr.decode(errors='replace')[-500:]
    shutil.rmtree(wd, ignore_errors=True)
    return res


def build_variants(tier):
    """(vii) translator build configurations: with/without pthreads, system vs bundled getopt, dirname/basename, strdup"""
    combos = list(itertools.product((0, 1), repeat=4))
    if tier == 'quick':
        combos = [(1, 1, 1, 1), (0, 0, 0, 0), (1, 0, 1, 0), (0, 1, 0, 1)]
    out = []
    for pt, go, lg, sd in combos:
        defs = ['-DHAS_UNISTD=1', '-DHAS_GLOB=1'] + (['-DHAS_PTHREAD=1'] if pt else []) + (['-DHAS_GETOPT=1'] if go else []) + (['-DHAS_LIBGEN=1'] if lg else []) + (['-DHAS_STRDUP=1'] if sd else [])
        out.append(('var%d%d%d%d' % (pt, go, lg, sd), defs, pt))
    return out


def work_variant(args):
    cfg, defs, pt, mods = args
    try:
        exe = build_w2c2(cfg, defs=defs)
    except RuntimeError as e:
        return cfg, None, str(e)[-400:]
    wd = tempfile.mkdtemp(prefix='c09v.', dir='/dev/shm')
    outs = {}
    try:
        for name, wasm, refwasm in mods:
            for f in (0, 1, 2):
                for p in (0, 1):
                    for r in (None, refwasm):
                        opts = (['-p'] if p else []) + ['-f', str(f)]
                        rc, err, files = run_translator(exe, wd, wasm, opts, r)
                        outs[(name, f, p, r is not None)] = (rc, hashlib.sha1(json.dumps(sorted((k, v.hex()) for k, v in files.items())).encode()).hexdigest())
    finally:
        shutil.rmtree(wd, ignore_errors=True)
    return cfg, outs, None


def main(tier):
    chk = Check('C09', 'model_checking', tier)
    w2c2 = build_w2c2('plain'); build_ref()
    # ---- E-config
    jobs = []
    for name, m, calls, imports in base_modules():
        wasm = m.encode()
        refs = reference_variants(name, m)
        for p, mm, g in itertools.product((0, 1), repeat=3):
            jobs.append((name, wasm, len(imports), len(m.funcs), refs, p, mm, g, tier, w2c2))
    with ProcessPoolExecutor(NCPU) as ex:
        results = list(ex.map(work, jobs, chunksize=1))
    cells = runs = 0
    for job, res in zip(jobs, results):
        cells += res['cells']; runs += res['runs']
        seen = set()
        for kind, desc, what in res['problems']:
            key = 'config|%s|%s' % (kind, job[0])
            if key in seen:
                continue
            seen.add(key)
            chk.violation(key, {'kind': 'config', 'case': desc, 'what': what}, '%s: %s: %s' % (kind, desc, what))
    # ---- (v) behaviour
    bj = behaviour_jobs(tier)
    # B4: a module whose export names look like internal function names ('f1' exported from function 3), with and without -m
    for mm in (0, 1):
        m4 = Module()
        m4.import_func('env', 'mark', 'i', 'i')
        m4.add_func('i', 'i', (), local_get(0) + i32_const(10) + op(0x6a), export='f2')
        m4.add_func('i', 'i', (), local_get(0) + i32_const(20) + op(0x6a), export='f3')
        m4.add_func('i', 'i', (), local_get(0) + call(0), export='f1')
        b4 = Batch(m4.encode(), [Case(n, 'i', 'i', 0, -1, 'export ' + n) for n in ('f1', 'f2', 'f3')], [('explicit', [(1,), (7,)])], [],
                   [('env', 'mark', 'i', 'i') + (('m_env__mark',) if mm else ())])
        b4.opts = (['-m'] if mm else []) + ['-f', '0', '-t', '1']; b4.refwasm = None
        b4.desc = 'B4 exports f1,f2,f3 bound to functions 3,1,2 %s' % ' '.join(b4.opts)
        bj.append(b4)
    bres = pmap(run_behaviour, [(b, w2c2) for b in bj])
    nb = 0
    for b, res in zip(bj, bres):
        if b.desc.startswith('B4') and not res.get('done') and res.get('stage') == 'compile':
            chk.violation('config|-m|export-named-like-internal-function', {'kind': 'config', 'case': b.desc, 'stderr': res.get('stderr')},
                          '%s: generated C does not compile: %s' % (b.desc, (res.get('stderr') or '')[:200]))
            continue
        before = chk.cov['distinct_nontrivial']
        ok = report(chk, b, res, 'behaviour|' + b.desc)
        chk.cov['distinct_nontrivial'] = before
        if ok:
            nb += 1
        else:
            chk.cov['exhaustive'] = False
    # ---- (vii) build variants
    mods = []
    for name, m, calls, imports in base_modules():
        mods.append((name, m.encode(), dict(reference_variants(name, m))['one-body-changed']))
    vres = pmap(work_variant, [(cfg, defs, pt, mods) for cfg, defs, pt in build_variants(tier)], workers=4)
    ref_out = None
    nvar = 0
    for cfg, outs, err in vres:
        if outs is None:
            chk.violation('build-variant|%s|build-failed' % cfg, {'kind': 'config', 'variant': cfg, 'error': err}, 'translator build variant %s does not build: %s' % (cfg, err)); continue
        nvar += 1
        runs += len(outs)
        if ref_out is None:
            ref_out = (cfg, outs)
        elif outs != ref_out[1]:
            dk = [k for k in outs if outs[k] != ref_out[1].get(k)]
            chk.violation('build-variant|%s|different-output' % cfg, {'kind': 'config', 'variant': cfg, 'cells': [str(k) for k in dk[:5]]}, 'build variant %s writes different files than %s for %s' % (cfg, ref_out[0], dk[:3]))
    # (viii) pretty printing on the control-flow corpus: the bodies of the C03 enumerations translated with -p must behave like the reference
    # too (C03 itself runs the compact format)
    import enum_cf, c03
    pjobs = []
    S_, p_, l_, r_ = enum_cf.sigma_full()
    vals_ = [0, 1, 2, 3, 0xffffffff]
    in_ii_ = [(a, b) for a in vals_ for b in vals_]
    for b in c03.batches_of('pretty:cf-full', S_, p_, [(1, 'i'), (1, 'I')], r_, 3 if tier == 'quick' else 4, in_ii_, [('env', 'mark', 'i', 'i')]):
        pjobs.append(('pretty:cf-full', b))
    Sm_, pm_, lm_, rm_ = enum_cf.sigma_mid()
    for cname, pre_, suf_ in enum_cf.contexts():
        for b in c03.batches_of('pretty:ctx', Sm_, pm_, [], rm_, 3 if tier == 'quick' else 4, in_ii_, [('env', 'mark', 'i', 'i')], False, (pre_, suf_)):
            pjobs.append(('pretty:ctx:' + cname, b))
    nbodies = 0
    for (label, b), res in zip(pjobs, pmap(lambda j: run_batch(j[1], w2c2=w2c2, w2c2_args=('-p',)), pjobs)):
        before = chk.cov['distinct_nontrivial']
        if report(chk, b, res, label + '|-p', extra={'w2c2_args': ['-p']}):
            nbodies += res['funcs']; runs += 1
        else:
            chk.cov['exhaustive'] = False
        chk.cov['distinct_nontrivial'] = before
    chk.cov['pretty_printed_control_flow_bodies'] = nbodies
    hruns = hash_boundary_part(chk, w2c2)
    runs += hruns
    chk.cov['hash_boundary_runs'] = hruns
    # ---- E-sched
    import c09_sched, mclib
    try:
        sched = c09_sched.sched_part(chk, tier) or {}
    except mclib.PipelineFailure as e:
        mclib.report_pipeline_failure(chk, e, 'bin/check C09 quick')
        return chk.finish()
    except mclib.MachineryError as e:
        print('MACHINERY-ERROR C09: %s' % e)
        return 2
    chk.add(evaluations=runs)
    chk.cov['states'] = cells + nb + nvar + sched.get('states', 0)
    chk.cov['transitions'] = runs + sched.get('transitions', 0)
    chk.cov['traces_validated_against_impl'] = runs + sched.get('schedules', 0)
    chk.cov['distinct_nontrivial'] = cells + nb          # schedules are counted in states/transitions/traces, not here
    chk.cov['config_cells'] = cells
    chk.cov['behaviour_variants_linked_and_run'] = nb
    chk.cov['build_variants'] = nvar
    chk.cov['sched'] = sched
    chk.cov['rule'] = ('E-config: 3 base modules x {-p}x{-m}x{-g} x {-f 0..#f+1} x {-t 1,2,3,64} x {-d arrays,gnu-ld} x {-r none,self,one-body-changed,locals-changed,disjoint,moved (same bodies at other indices),extra-in-reference}; '
                       'oracles i-iv, vi per cell; (v) linked variants (gnu-ld via ld -r -b binary) run in lockstep with the reference interpreter; (vii) translator built in the '
                       'HAS_PTHREAD x HAS_GETOPT x HAS_LIBGEN x HAS_STRDUP configurations must write identical files; (viii) all valid control-flow bodies of the C03 enumerations (N = 3, thorough 4, incl. the contexts) translated with -p in lockstep with the reference; static classification also on a module with one function per code-entry size 8..300 bytes against references that differ only in the last / first constant; E-sched: the real producer/worker protocol under the controlled scheduler - every interleaving of its mutex/condition operations up to the preemption bound, see the sched block. '
                       'states = option cells + linked variants + build variants (+ distinct end states of schedules)')
    chk.sample({'cell': 'B1 -p -m -f 2 -t 3 -d gnu-ld ref=one-body-changed', 'oracles': ['exactly-once', 'text = -t 1 -f 0 run', 'static => identical body in reference', 'each file compiles', 'two runs identical']})
    chk.assumptions += ['#line directives from DWARF need libdwarf, which is not installed: -g is exercised with name sections only']
    return chk.finish()


if __name__ == '__main__':
    sys.exit(main(sys.argv[1] if len(sys.argv) > 1 else 'quick'))
