"""Common machinery of the WASI checks C12..C15: the specification-signature shim module, the build of
the harness against the real wasi.c (from vcommon.REPO, on every run), the fork-per-history server
pool, breadth-first search over operation histories with canonical-state deduplication, replay."""
import json, os, re, subprocess, sys, time, hashlib
sys.path.insert(0, os.path.join(os.path.dirname(os.path.abspath(__file__)), '..', 'lib'))
import vcommon
from vcommon import REPO, VERIF, WASI_DEFS, NCPU, scratch, run, pmap, Check
import wasmenc
from batch import translate

WASIX = os.path.join(VERIF, 'wasix')

# ---------------------------------------------------------------- specification signatures
# Core-wasm signatures of the WASI functions as the witx documents define them (snapshot-preview1; the
# snapshot-0 "wasi_unstable" signatures are identical for these functions).  i = i32, I = i64.
SPEC = {
    'args_get': 'ii', 'args_sizes_get': 'ii', 'environ_get': 'ii', 'environ_sizes_get': 'ii',
    'clock_res_get': 'ii', 'clock_time_get': 'iIi',
    'fd_advise': 'iIIi', 'fd_allocate': 'iII', 'fd_close': 'i', 'fd_datasync': 'i', 'fd_fdstat_get': 'ii',
    'fd_fdstat_set_flags': 'ii', 'fd_filestat_get': 'ii', 'fd_filestat_set_size': 'iI', 'fd_filestat_set_times': 'iIIi',
    'fd_pread': 'iiiIi', 'fd_prestat_get': 'ii', 'fd_prestat_dir_name': 'iii', 'fd_pwrite': 'iiiIi', 'fd_read': 'iiii',
    'fd_readdir': 'iiiIi', 'fd_seek': 'iIii', 'fd_sync': 'i', 'fd_tell': 'ii', 'fd_write': 'iiii',
    'path_create_directory': 'iii', 'path_filestat_get': 'iiiii', 'path_filestat_set_times': 'iiiiIIi',
    'path_link': 'iiiiiii', 'path_open': 'iiiiiIIii', 'path_readlink': 'iiiiii', 'path_remove_directory': 'iii',
    'path_rename': 'iiiiii', 'path_symlink': 'iiiii', 'path_unlink_file': 'iii', 'poll_oneoff': 'iiii',
    'proc_exit': 'i', 'random_get': 'ii', 'sched_yield': '',
}
NAMESPACES = (('p1', 'wasi_snapshot_preview1'), ('un', 'wasi_unstable'))


def shim_wasm():
    """module importing every WASI function of both name spaces with its specification signature and
    exporting one forwarding function each (export names p1_<name> / un_<name>)"""
    m = wasmenc.Module()
    imps = []
    for short, ns in NAMESPACES:
        for name, params in sorted(SPEC.items()):
            res = '' if name == 'proc_exit' else 'i'
            imps.append((short, name, params, res, m.import_func(ns, name, params, res)))
    for short, name, params, res, idx in imps:
        body = b''.join(wasmenc.local_get(k) for k in range(len(params))) + wasmenc.call(idx)
        m.add_func(params, res, (), body, export='%s_%s' % (short, name))
    return m.encode()


# nonnull-attribute is left to ASan, which reports the actual NULL read with its stack
def build_translator():
    """w2c2 from REPO's working tree.  Own cache name ('wasix-<sha>') so that concurrent runs of other checks, which
    prune the shared 'plain-*' cache, cannot remove the binary while it is in use; retried because of that pruning."""
    for attempt in range(3):
        try:
            return vcommon.build_w2c2('wasix')
        except (RuntimeError, OSError) as e:
            last = e
            time.sleep(1 + attempt)
    raise last


SAN = ['-fsanitize=address,undefined', '-fno-sanitize=nonnull-attribute', '-fno-sanitize-recover=all', '-fno-omit-frame-pointer', '-g', '-O1']


class Harness:
    """builds shim + real wasi.c + harness sources into one ASan/UBSan binary"""
    def __init__(self, drivers, name, extra=()):
        self.dir = scratch('wx-' + name)
        self.name = name
        rc, err = translate(shim_wasm(), self.dir, w2c2=build_translator(), modname='shim')
        if rc != 0:
            raise RuntimeError('cannot translate shim module: ' + err)
        inc = ['-I', os.path.join(REPO, 'w2c2'), '-I', os.path.join(REPO, 'wasi'), '-I', self.dir, '-I', WASIX]
        units = [(os.path.join(REPO, 'wasi', 'wasi.c'), WASI_DEFS + ['-std=gnu99', '-w']),
                 (os.path.join(self.dir, 'shim.c'), ['-w']),
                 (os.path.join(WASIX, 'hx.c'), ['-Wall']), (os.path.join(WASIX, 'twin.c'), ['-Wall'])]
        units += [(os.path.join(WASIX, d), ['-Wall'] + WASI_DEFS) for d in drivers]

        def cc(u):
            src, fl = u
            o = os.path.join(self.dir, os.path.basename(src)[:-2] + '.o')
            r = run(['gcc'] + SAN + fl + list(extra) + inc + ['-c', src, '-o', o])
            if r.returncode != 0:
                raise RuntimeError('cannot compile %s:\n%s' % (src, r.stderr.decode()[-3000:]))
            return o
        objs = pmap(cc, units)
        self.exe = os.path.join(self.dir, name)
        r = run(['gcc'] + SAN + objs + ['-o', self.exe, '-lpthread', '-ldl'])
        if r.returncode != 0:
            raise RuntimeError('cannot link harness: ' + r.stderr.decode()[-3000:])
        self.conflicts = self.sigcheck(inc)

    def sigcheck(self, inc):
        """compile the generated header (specification signatures) and wasi.c in ONE translation unit:
        every import whose definition in wasi.c does not have the specification signature is a
        'conflicting types' error.  (Separately compiled, as users do, the mismatch links silently.)"""
        p = os.path.join(self.dir, 'sigcheck.c')
        with open(p, 'w') as f:
            f.write('#include "shim.h"\n#include "%s"\n' % os.path.join(REPO, 'wasi', 'wasi.c'))
        r = run(['gcc', '-fsyntax-only', '-w'] + WASI_DEFS + inc + [p], env=dict(os.environ, LC_ALL='C'))
        out = {}
        for m in re.finditer(r"conflicting types for '(wasi_\w+?)__(\w+)'; have '([^']*)'", r.stderr.decode(errors='replace')):
            out.setdefault(m.group(2), {})[m.group(1)] = m.group(3)
        return out

    # ------------------------------------------------------------ execution
    def run_lines(self, mode, lines, timeout=None, env=None, symbolize=False):
        """execute histories (strings) and return one parsed result per history, in order"""
        if not lines:
            return []
        nchunks = min(len(lines), NCPU * 4)
        chunks = [list(range(k, len(lines), nchunks)) for k in range(nchunks)]

        def work(idx):
            base = scratch('hx')
            e = dict(os.environ)
            sym = '1' if symbolize else '0'   # symbolizing costs ~200 ms per report: done once per distinct stack only
            e.update({'HX_BASE': base, 'ASAN_OPTIONS': 'detect_leaks=0:exitcode=99:allocator_may_return_null=1:quarantine_size_mb=4:symbolize=' + sym,
                      'UBSAN_OPTIONS': 'print_stacktrace=1:halt_on_error=1:symbolize=' + sym})
            e.update(env or {})
            text = ''.join('%d %s\n' % (i, lines[i]) for i in idx)
            r = subprocess.run([self.exe, mode], input=text.encode(), stdout=subprocess.PIPE, stderr=subprocess.PIPE, env=e,
                               timeout=timeout or 3600)
            subprocess.call(['rm', '-rf', base])
            return parse_blocks(r.stdout.decode(errors='replace'), r.stderr.decode(errors='replace'))
        res = {}
        for part in pmap(work, chunks, NCPU):
            res.update(part)
        missing = [i for i in range(len(lines)) if i not in res]
        if missing:
            print('MACHINERY-ERROR: harness produced no result for %d histories, e.g. %r' % (len(missing), lines[missing[0]]))
            sys.exit(2)
        return [res[i] for i in range(len(lines))]


def parse_blocks(out, err):
    res, cur = {}, None
    for line in out.split('\n'):
        if line.startswith('BEGIN '):
            cur = {'id': int(line[6:]), 'steps': [], 'x': [], 'state': None, 'info': [], 'done': False, 'san': [], 'exit': None, 'sig': None}
        elif cur is None:
            continue
        elif line.startswith('S '):
            p = line.split(' ', 4)
            cur['steps'].append((int(p[1]), p[2], int(p[3]), p[4] if len(p) > 4 else ''))
        elif line.startswith('X '):
            p = line.split(' ', 3)
            cur['x'].append((int(p[1]), p[2], p[3] if len(p) > 3 else ''))
        elif line.startswith('STATE '):
            cur['state'] = line[6:]
        elif line.startswith('INFO '):
            cur['info'].append(line[5:])
        elif line == 'DONE':
            cur['done'] = True
        elif line.startswith('END '):
            p = line.split()
            cur['exit'], cur['sig'] = int(p[2]), int(p[3])
            res[cur['id']] = cur
            cur = None
        elif line.strip():
            cur['san'].append(line)
    if err.strip():
        for r in res.values():
            r.setdefault('stderr', err[-2000:])
    return res


_symcache = {}


def stack_signature(r):
    """module offsets of the frames of the first stack of an unsymbolized sanitizer report"""
    text = '\n'.join(r['san'])
    first = text.split('\n\n')[0]
    return (re.sub(r'==\d+==', '', first.split('\n')[0] if first else '')[:80],) + tuple(re.findall(r'\(([^()\s]+\+0x[0-9a-f]+)\)', first)[:8])


def crash_class(r, harness=None, mode=None, line=None):
    """None if the history ran to completion; else (kind, attributed_to_wasi_c, function, report text).
    Reports are produced unsymbolized; the first report with a given stack is re-executed once with symbolization."""
    if r['done'] and r['exit'] == 0:
        return None
    text = '\n'.join(r['san'])
    if harness is not None and '/wasi.c:' not in text and re.search(r'\+0x[0-9a-f]+\)', text):
        sig = stack_signature(r)
        if sig not in _symcache:
            _symcache[sig] = harness.run_lines(mode, [line], timeout=600, symbolize=True)[0]
        if crash_class(_symcache[sig]) is None:
            print('MACHINERY-ERROR: history %r crashed, but not when re-executed with symbolization' % line); sys.exit(2)
        text = '\n'.join(_symcache[sig]['san'])
    kind = 'exit=%s/sig=%s' % (r['exit'], r['sig'])
    m = re.search(r'ERROR: AddressSanitizer: (?:attempting )?([\w-]+)', text)
    if m:
        kind = 'asan:' + m.group(1)
    elif 'runtime error:' in text:
        kind = 'ubsan:' + re.search(r'runtime error: ([^\n]*)', text).group(1)[:60]
    elif 'HARNESS-ERROR' in text or 'Assertion' in text:
        kind = 'harness'
    elif r['sig'] == 14:
        kind = 'timeout'
    # attribution: the first report stack must contain a frame of the implementation under test
    first = text.split('\n\n')[0] if text else ''
    # (file:line when the report is symbolized; the function names of wasi.c are present either way)
    in_impl = bool(re.search(r'/wasi/wasi\.c:\d+', first)) or bool(re.search(r' in (wasi[A-Z]\w*|wasi_snapshot_preview1__\w+|wasi_unstable__\w+) ', first))
    fn = re.search(r' in (\w+) [^\n]*/wasi/wasi\.c:(\d+)', text) or re.search(r' in (wasi[A-Z]\w*|wasi_snapshot_preview1__\w+|wasi_unstable__\w+) ', first)
    where = '%s' % fn.group(1) if fn else '?'
    return kind, in_impl, where, text[:2500]


def summary(r):
    """what a re-execution must reproduce exactly"""
    c = crash_class(r)
    # time stamps of two DIFFERENT files agree or not depending on when the two runs happened, and so do comparisons with the REAL host clock: they do not take part in the comparison of the
    # two executions (a difference in them is still reported, next to the differences that do reproduce)
    return (tuple((s[0], s[1], s[2]) for s in r['steps']), tuple((x[0], x[1]) for x in r['x'] if not x[1].endswith('tim') and x[1] != 'real-clock'), c[0] if c else None, stack_signature(r)[1:] if c else None)


def harness_or_violation(prop, tier, make_harness):
    """-> (harness, None), or (None, exit status) after reporting that wasi.c / the shim do not get through translator and compiler: on the
    unchanged tree they do, so on a changed tree this is a finding about the tree, not a fault of the machinery"""
    try:
        return make_harness(), None
    except RuntimeError as e:
        chk = Check(prop, 'model_checking', tier)
        chk.violation('pipeline|harness-build', {'kind': 'config', 'what': str(e)[-3000:], 'how_to_replay': 'bin/check %s quick' % prop},
                      'wasi.c with the specification-signature shim does not get through the pipeline: %s' % str(e).strip().split('\n')[-1][:300])
        chk.cov['exhaustive'] = False
        return None, chk.finish()


class Explorer:
    """bookkeeping common to all WASI checks: outcome statistics, violation reporting with replay-before-report"""
    def __init__(self, prop, tier, harness, mode, module):
        self.chk = Check(prop, 'model_checking', tier)
        self.h, self.mode, self.module = harness, mode, module
        self.outcomes = {}       # op name -> set of outcome strings
        self.transitions = 0
        self.histories = 0
        self.keys = {}           # violation key -> count
        self.deadline = None
        self.states = set()

    def expired(self):
        return self.deadline is not None and time.time() > self.deadline

    def note(self, r, opname_of=lambda s: s[1], outcome_of=lambda s: '%d %s' % (s[2], s[3])):
        self.histories += 1
        self.transitions += len(r['steps'])
        self.longest = max(getattr(self, 'longest', 0), len(r['steps']))
        for s in r['steps']:
            self.outcomes.setdefault(opname_of(s), set()).add(outcome_of(s))

    def report(self, key, line, r, what, describe=None, extra=None):
        """replay-before-report, one VIOLATION per key"""
        self.keys[key] = self.keys.get(key, 0) + 1
        if self.keys[key] > 1:
            return
        again = self.h.run_lines(self.mode, [line], timeout=600)[0]
        if summary(again) != summary(r):
            print('MACHINERY-ERROR: history %r is not reproducible: first %r, second %r' % (line, summary(r), summary(again)))
            sys.exit(2)
        obj = {'kind': 'history', 'key': key, 'mode': self.mode, 'history': line, 'described': describe(line) if describe else line,
               'observed': {'steps': r['steps'], 'mismatches': r['x'], 'crash': crash_class(r, self.h, self.mode, line)},
               'replay_module': self.module, 'how_to_replay': 'bin/check replay <this file>'}
        obj.update(extra or {})
        self.chk.violation(key, obj, what)

    def crash(self, line, r, keyprefix, describe=None):
        """child did not finish: sanitizer report in the implementation -> violation; else machinery error"""
        kind, in_impl, where, text = crash_class(r, self.h, self.mode, line)
        if kind in ('harness', 'timeout') or not in_impl:
            again = self.h.run_lines(self.mode, [line], timeout=600)[0]
            print('MACHINERY-ERROR: history %r ended with %s outside the implementation (second run: %s)\n%s' % (line, kind, summary(again)[2], text))
            sys.exit(2)
        self.report('%s|%s|%s' % (keyprefix, kind, where), line, r, '%s in %s (wasi.c) on history %s' % (kind, where, describe(line) if describe else line), describe)

    def finish(self, rule, extra_cov=None, assumptions=()):
        chk = self.chk
        per_op = {k: len(v) for k, v in sorted(self.outcomes.items())}
        chk.cov.update({'states': len(self.states), 'transitions': self.transitions, 'traces_validated_against_impl': self.histories,
                        'evaluations': self.histories, 'distinct_nontrivial': sum(per_op.values()), 'rule': rule,
                        'distinct_outcomes_per_operation': per_op, 'vacuous_operations': sorted(k for k, v in per_op.items() if v < 2),
                        'violation_keys': dict(sorted(self.keys.items())),
                        'abi_signature_conflicts': self.h.conflicts})
        chk.cov.update(extra_cov or {})
        chk.assumptions += list(assumptions)
        return chk.finish()


def replay_main(path, harness_factory):
    r = json.load(open(path))
    h = harness_factory()
    res = h.run_lines(r['mode'], [r['history']], timeout=600, symbolize=True)[0]
    print('history:', r.get('described', r['history']))
    for s in res['steps']:
        print('  step %d %s errno=%d %s' % s)
    for x in res['x']:
        print('  DIFFERS at step %d: %s %s' % x)
    c = crash_class(res)
    if c:
        print('  child ended abnormally: %s in %s\n%s' % (c[0], c[2], c[3]))
    return res


def bfs(ex, alphabet, judge, depth, describe, batch=40000, sample_every=1499):
    """Breadth-first search over histories.  judge(line, result) -> (canonical state or None, info for alphabet());
    only the first history that reaches a canonical state is extended.  Stops between levels when the deadline expires."""
    r0 = ex.h.run_lines(ex.mode, [''])[0]
    st, info = judge('', r0)
    ex.states.add(st)
    frontier, done_depth = [('', info)], 0
    for d in range(1, depth + 1):
        if ex.expired():
            ex.chk.cov['exhaustive'] = False
            break
        jobs = [(h + ' ' + op).strip() for h, inf in frontier for op in alphabet(inf, d)]
        nxt, complete = [], True
        for b in range(0, len(jobs), batch):
            if ex.expired():
                complete = False
                break
            part = jobs[b:b + batch]
            for line, r in zip(part, ex.h.run_lines(ex.mode, part)):
                ex.note(r)
                st, inf = judge(line, r)
                if ex.histories % sample_every == 1:
                    ex.chk.sample({'history': describe(line), 'results': ['%s -> %d %s' % (s[1], s[2], s[3]) for s in r['steps']]})
                if st is not None and st not in ex.states:
                    ex.states.add(st)
                    nxt.append((line, inf))
        if not complete:
            ex.chk.cov['exhaustive'] = False
            ex.chk.cov['partial_depth'] = {'depth': d, 'histories_done': b, 'of': len(jobs)}
            break
        done_depth = d
        ex.chk.cov.setdefault('histories_per_depth', {})[str(d)] = len(jobs)
        ex.chk.cov.setdefault('new_states_per_depth', {})[str(d)] = len(nxt)
        frontier = nxt
        print('depth %d: %d histories, %d new states, %.0fs' % (d, len(jobs), len(nxt), time.time() - ex.chk.t0)); sys.stdout.flush()
    return done_depth
