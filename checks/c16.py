#!/usr/bin/env python3
"""C16 Atomic memory instructions: specified results (E1, sequential, every flavour) and atomicity across threads
(E2, checks/c16_sched.py: all interleavings under the controlled scheduler + ThreadSanitizer)."""
import sys, os
sys.path.insert(0, os.path.dirname(os.path.abspath(__file__)))
from numeric import *

WIDTH = [4, 8, 1, 2, 1, 2, 4]
VT = ['i', 'I', 'i', 'i', 'I', 'I', 'I']
WNAME = ['i32', 'i64', 'i32.8', 'i32.16', 'i64.8', 'i64.16', 'i64.32']
GROUP = ['add', 'sub', 'and', 'or', 'xor', 'xchg', 'cmpxchg']
LOG2 = {1: 0, 2: 1, 4: 2, 8: 3}


def e1_batches(shared):
    m = Module()
    m.mems.append((1, 1, True) if shared else (1, 1))
    m.datas.append(('active', 0, i32_const(0), bytes((0x11 * (1 + (i // 8) % 7) + i) & 0xff for i in range(128))))
    cases = []
    addrs = [0, 8, 16, 24, 40]
    v32 = [0, 1, 0xff, 0x100, 0x7fffffff, 0x80000000, 0xffffffff, 0x11223344, 0xa5a5a5a5]
    v64 = v32 + [0xffffffffffffffff, 0x1122334455667788, 0x8000000000000000, 0x100000000]
    inputsets = [('explicit', [(a,) for a in addrs + [64, 96, 120]]),
                 ('explicit', [(a, v) for a in addrs for v in v32]),
                 ('explicit', [(a, v) for a in addrs for v in v64]),
                 ('explicit', [(a, v, e, r) for a in addrs[:3] for v in (0x11223344, 0xffffffff, 0) for e in (0, 1, 2, 3) for r in (0xa5a5a5a5, 0)]),
                 ('explicit', [(a, v, e, r) for a in addrs[:3] for v in (0x1122334455667788, 0xffffffffffffffff, 0) for e in (0, 1, 2, 3) for r in (0xa5a5a5a5a5a5a5a5, 0)])]
    k = 0

    def fn(params, result, body, iset, desc):
        nonlocal k
        m.add_func(params, result if result != 'v' else '', (), body, export='f%d' % k)
        cases.append(Case('f%d' % k, params, result, iset, -1, desc)); k += 1
    for off in (0, 8):
        for w in range(7):
            t = VT[w]; al = LOG2[WIDTH[w]]
            vs = 1 if t == 'i' else 2
            fn('i', t, local_get(0) + atomic(0x10 + w, al, off), 0, '%s.atomic.load offset=%d' % (WNAME[w], off))
            fn('i' + t, 'v', local_get(0) + local_get(1) + atomic(0x17 + w, al, off), vs, '%s.atomic.store offset=%d' % (WNAME[w], off))
            for g in range(6):
                fn('i' + t, t, local_get(0) + local_get(1) + atomic(0x1e + g * 7 + w, al, off), vs, '%s.atomic.rmw.%s offset=%d' % (WNAME[w], GROUP[g], off))
            # cmpxchg after a store of v: expected chosen by selector e: 0 = v (hit), 1 = v+1 (miss), 2 = v with a bit above the access width flipped
            # (hit for narrow accesses: the expected value is wrapped), 3 = 0
            bits = WIDTH[w] * 8
            flip = const(t, 1 << bits) if bits < (32 if t == 'i' else 64) else const(t, 0)
            add, xor = (0x6a, 0x73) if t == 'i' else (0x7c, 0x85)
            # selector is passed as the third param of the value type
            sel_eq = lambda n: local_get(2) + const(t, n) + op(0x46 if t == 'i' else 0x51)
            body = (local_get(0) + local_get(1) + atomic(0x17 + w, al, off) +
                    local_get(0) +
                    # expected
                    sel_eq(0) + if_(t) + local_get(1) + ELSE +
                    sel_eq(1) + if_(t) + local_get(1) + const(t, 1) + op(add) + ELSE +
                    sel_eq(2) + if_(t) + local_get(1) + flip + op(xor) + ELSE + const(t, 0) + END + END + END +
                    local_get(3) + atomic(0x1e + 6 * 7 + w, al, off))
            fn('i' + t * 3, t, body, 3 if t == 'i' else 4, '%s.atomic.rmw.cmpxchg (after store; selector) offset=%d' % (WNAME[w], off))
            if off == 0:
                # the same instructions with their result in a stack slot ABOVE another operand and consumed by a further instruction
                # (a result that is returned at once sits in slot 0, which the function's return declares anyway)
                below = const(t, 5)
                fn('i', t, below + local_get(0) + atomic(0x10 + w, al, off) + op(add), 0, '%s.atomic.load above an operand, then add' % WNAME[w])
                for g in range(6):
                    fn('i' + t, t, below + local_get(0) + local_get(1) + atomic(0x1e + g * 7 + w, al, off) + op(add), vs, '%s.atomic.rmw.%s above an operand, then add' % (WNAME[w], GROUP[g]))
                fn('i' + t * 3, t, below + body + op(add), 3 if t == 'i' else 4, '%s.atomic.rmw.cmpxchg above an operand, then add' % WNAME[w])
                # ... and with the result dropped / compared (no arithmetic on the slot)
                fn('i' + t * 3, 'i', body + const(t, 7) + op(0x46 if t == 'i' else 0x51), 3 if t == 'i' else 4, '%s.atomic.rmw.cmpxchg result compared' % WNAME[w])
    m.add_func('', '', (), b'\xfe\x03\x00', export='f%d' % k)
    cases.append(Case('f%d' % k, '', 'v', 5, -1, 'atomic.fence')); inputsets.append(('explicit', [()]))
    b = Batch(m.encode(), cases, inputsets)
    b.impl_mem = 'ls_cur_inst->m0'
    b.compare_mem = True
    return b


def main(tier):
    chk = Check('C16', 'model_checking', tier)
    w2c2 = build_w2c2('plain'); build_ref()
    jobs = [('E1 plain-memory gcc -O1', e1_batches(False), {'cc': 'gcc', 'cflags': ('-O1',)}),
            ('E1 plain-memory clang -O0 ubsan', e1_batches(False), {'cc': 'clang', 'cflags': ('-O0', '-fsanitize=undefined,address', '-fno-sanitize-recover=all')}),
            ('E1 shared-memory gcc -O2', e1_batches(True), {'cc': 'gcc', 'cflags': ('-O2', '-pthread'), 'defines': ('-DWASM_THREADS_PTHREADS',)})]

    def work(job):
        label, b, kw = job
        return run_batch(b, w2c2=w2c2, **kw)
    e1 = {}
    nev = 0
    for (label, b, kw), res in zip(jobs, pmap(work, jobs)):
        before = chk.cov['distinct_nontrivial']
        ok = report(chk, b, res, label.split(' ')[0] + '|' + label, extra=kw)
        if ok:
            e1[label] = {'programs': res['funcs'], 'evaluations': res['evals'], 'nontrivial': res['nontrivial'], 'skipped': res['skipped']}
            nev += res['evals']
        else:
            chk.cov['exhaustive'] = False
    import c16_sched, mclib
    try:
        sched = c16_sched.sched_part(chk, tier)      # Matrix.fill_coverage adds schedules/states/transitions to chk.cov
    except mclib.PipelineFailure as e:
        mclib.report_pipeline_failure(chk, e, 'bin/check C16 quick')
        return chk.finish()
    except mclib.MachineryError as e:
        print('MACHINERY-ERROR C16: %s' % e)
        return 2
    chk.cov['E1'] = e1
    chk.cov['E2'] = sched
    chk.cov['evaluations'] += 0
    chk.cov['distinct_nontrivial_rule_E2'] = 'E2 cases whose interleavings give more than one distinct (returned values, final bytes) combination are counted in distinct_nontrivial together with the E1 functions whose reference result varies over the inputs'
    chk.cov['states'] = chk.cov.get('states', 0)
    chk.cov['transitions'] = chk.cov.get('transitions', 0) + nev
    chk.cov['traces_validated_against_impl'] = chk.cov.get('traces_validated_against_impl', 0) + nev
    chk.cov['rule'] = ('E1: each of the 7 atomic loads, 7 stores, 42 read-modify-write and 7 compare-exchange flavours (+ fence) as a one-instruction function with static '
                       'offset 0 and 8 over naturally aligned addresses x operand alphabets; compare-exchange with hit / miss / upper-bits-set expected values; result and ALL '
                       'memory bytes compared with the reference after every call, on plain and shared memories, gcc and clang+UBSan/ASan. E2: see the E2 block '
                       '(threads of one instance family run translated atomic operations on the same / overlapping cells; scheduling points at thread start and at every __atomic builtin; ALL interleavings; brute-force linearizability against a 16-byte sequential model incl. final bytes; the same schedules in a ThreadSanitizer build; the forced big-endian mutex RMW path likewise).')
    chk.sample({'program': 'i64.32.atomic.rmw.cmpxchg offset=8', 'inputs': '(addr, stored value, selector, replacement)'})
    chk.assumptions += ['hardware atomicity of the __atomic builtins is assumed; their use (one atomic access per instruction) is what E2/TSan checks']
    return chk.finish()


if __name__ == '__main__':
    sys.exit(main(sys.argv[1] if len(sys.argv) > 1 else 'quick'))
