#!/usr/bin/env python3
"""C11 Generated C is well defined: compiles as GNU C89 and later with gcc and clang, sanitizer builds report
nothing on non-trapping in-bounds inputs, all compilers / optimisation levels return the reference's results."""
import time, sys, os, itertools
sys.path.insert(0, os.path.dirname(os.path.abspath(__file__)))
from numeric import *
import c01, c02, c03, c04, c05, c06, c10
import enum_cf

SAN = ('-fsanitize=address,undefined', '-fsanitize=float-cast-overflow', '-fno-sanitize-recover=all', '-fno-omit-frame-pointer')


def cells(tier):
    out = []
    if tier == 'quick':
        return [('gcc', ('-O0', '-std=gnu89')), ('gcc', ('-O2',)), ('clang', ('-O2',) + SAN), ('clang', ('-O1', '-std=gnu89')), ('gcc', ('-O1',) + SAN)]
    for cc in ('gcc', 'clang'):
        for o in ('-O0', '-O1', '-O2', '-O3'):
            for std in (('-std=gnu89',), ()):
                for san in ((), SAN):
                    out.append((cc, (o,) + std + san))
    return out


def corpus(tier):
    """list of (label, Batch): the programs of the other enumerations, reduced"""
    out = []
    ia = [a32(), a64(), r32(), r64()]
    fa = [c02.int_sources32(), c02.int_sources64(), f32_special(), f64_special(), r32(), r64(), rf32(), rf64()]
    l1i = [leaf_op(o) for o in INT_OPS]; l1f = [leaf_op(o) for o in FLOAT_OPS]
    # level 1 with the reduced alphabets (the full alphabets are C01/C02's job), level 2 every 10th / 3rd composition
    out.append(('int-L1', make_batch(l1i, ia, {'i': 2, 'I': 3})))
    out.append(('float-L1', make_batch(l1f, fa, {'i': 4, 'I': 5, 'f': 6, 'F': 7})))
    step = 10 if tier == 'quick' else 2
    l2i = list(compositions(INT_OPS))[::step]; l2f = list(compositions(FLOAT_OPS))[::step]
    for part in chunks(l2i, 400):
        out.append(('int-L2', make_batch(part, ia, {'i': 2, 'I': 3})))
    for part in chunks(l2f, 400):
        out.append(('float-L2', make_batch(part, fa, {'i': 4, 'I': 5, 'f': 6, 'F': 7})))
    # control flow: all valid bodies of the full alphabet up to N
    S, p, l, r = enum_cf.sigma_full()
    vals = [0, 1, 2, 3, 0xffffffff]
    in_ii = [(a, b) for a in vals for b in vals]
    n = 3 if tier == 'quick' else 4
    for b in c03.batches_of('cf-full', S, p, [(1, 'i'), (1, 'I')], r, n, in_ii, [('env', 'mark', 'i', 'i')]):
        out.append(('cf-full', b))
    S2, p2, l2, r2 = enum_cf.sigma_ctl()
    for b in c03.batches_of('cf-ctl', S2, p2, [], r2, 5 if tier == 'quick' else 6, in_ii, []):
        out.append(('cf-ctl', b))
    for T in 'IfF':
        S3, p3, l3, r3, g3 = enum_cf.sigma_typed(T, 'iI', ((1, 'f'), (2, 'F'), (1, 'i')))
        for b in c03.batches_of('cf-typed', S3, p3, list(g3), r3, 3 if tier == 'quick' else 4, [(a, bb) for a in (0, 1, 0xffffffff) for bb in (0, 5, 1 << 63)], []):
            out.append(('cf-typed-' + T, b))
    # calls, memory, instantiation shapes
    for sig in range(len(c04.SIGS)):
        for mode, kind in (('direct', 'defined'), ('indirect', 'import')):
            out.append(('calls', c04.shape_module(sig, mode, kind, 1, 1, 2)))
    out.append(('calls', c04.recursion_module(1)))
    out.append(('memory', c05.flavour_batch()))
    # bulk memory operations incl. overlapping memory.copy in both directions (depth-2 histories), store/store/load sequences inside one function
    out.append(('memory-bulk', c05.history_batch((1, 3), 2, 400000)))
    shared = c05.history_batch((1, 3, True), 2, 400000)
    shared.need_threads = True          # a shared memory: the runtime header needs a threads implementation
    out.append(('memory-shared', shared))
    # atomic instructions: every flavour, results returned / above an operand / compared (plain and shared memory)
    import c16
    out.append(('atomics', c16.e1_batches(False)))
    ash = c16.e1_batches(True); ash.need_threads = True
    out.append(('atomics-shared', ash))
    allpairs = [(a, b) for a in sorted(STORES) for b in sorted(STORES)]
    out.append(('memory-sequences', c05.sequence_batch(allpairs[::4] if tier == 'quick' else allpairs)))
    # control flow inside fixed contexts (dead code followed by live code, operands below value-carrying blocks)
    Sm, pm, lm, rm = enum_cf.sigma_mid()
    for cname, pre, suf in enum_cf.contexts():
        for b in c03.batches_of('cf-ctx', Sm, pm, [], rm, 3 if tier == 'quick' else 4, in_ii, [('env', 'mark', 'i', 'i')], False, (pre, suf)):
            out.append(('cf-ctx', b))
    for cfg in (('defined', 'overlap', 'defined', 2, 'defined'), ('imported', 'passive+active', 'imported', 1, 'imported'), ('none', 'none', 'none', 0, 'none')):
        out.append(('instantiate', c06.config_module(*cfg)))
    return out


def main(tier):
    chk = Check('C11', 'exploration', tier)
    w2c2 = build_w2c2('plain'); build_ref()
    cl = cells(tier)
    corp = corpus(tier)
    jobs = []
    for label, b in corp:
        for cc, flags in cl:
            san = any('sanitize' in f for f in flags)
            link = tuple(f for f in flags if 'sanitize' in f)
            kw = {'cc': cc, 'cflags': ('-O0',) + link, 'mod_cflags': flags, 'timeout': 1800}
            if getattr(b, 'main', None) == 'bfs':
                kw['drv_args'] = (b.bfs_depth, 1500)
            if getattr(b, 'need_threads', False):
                kw['defines'] = ('-DWASM_THREADS_PTHREADS',)
                kw['cflags'] = kw['cflags'] + ('-pthread',)
            jobs.append((label, b, cc, flags, kw))
    # (i) only: names that need escaping inside C string literals / identifiers
    njobs = []
    for nm in c10.NAME_ALPHABET[:19]:
        for pos in ('export', 'import-module', 'import-field', 'name-section', 'import-global', 'debug-name'):
            njobs.append((nm, pos))

    # global deadline: batches that have not been started by then are reported as not covered (exhaustive: false), never as failures.
    # The jobs are ordered cell-major inside each corpus entry, so what is cut off are the last corpus entries in all their cells.
    deadline = chk.t0 + (300 if tier == 'quick' else 1500)

    def work(job):
        label, b, cc, flags, kw = job
        if time.time() > deadline:
            return {'done': False, 'stage': 'deadline'}
        return run_batch(b, w2c2=w2c2, **kw)
    results = pmap(work, jobs)
    not_started = 0
    percell = {}
    nfuncs = set()
    for (label, b, cc, flags, kw), res in zip(jobs, results):
        cell = cc + ' ' + ' '.join(f for f in flags if not f.startswith('-fno'))
        d = percell.setdefault(cell, {'batches': 0, 'programs': 0, 'evaluations': 0, 'ok': 0})
        if res.get('stage') == 'deadline':
            not_started += 1
            d['not_started_before_the_deadline'] = d.get('not_started_before_the_deadline', 0) + 1
            chk.cov['exhaustive'] = False
            continue
        d['batches'] += 1
        if res.get('stage') == 'run' and not res.get('done') and ('runtime error:' in (res.get('stderr') or '') or 'AddressSanitizer' in (res.get('stderr') or '')):
            line = [l for l in res['stderr'].splitlines() if 'runtime error:' in l or 'AddressSanitizer' in l][0]
            what = line.split('runtime error:')[-1].strip()[:60] if 'runtime error:' in line else 'asan'
            chk.violation('%s|sanitizer|%s' % (label, what), {'kind': 'pipeline', 'label': label, 'cell': cell, 'stderr': res['stderr'][-1500:], 'crash': res.get('crash'),
                                                              'wasm_b64z': base64.b64encode(zlib.compress(b.wasm)).decode()}, '%s in cell [%s]: %s' % (label, cell, line[:300]))
            chk.cov['exhaustive'] = False
            continue
        before = chk.cov['distinct_nontrivial']
        ok = report(chk, b, res, '%s|%s' % (label, 'san' if any('sanitize' in f for f in flags) else 'plain'), extra={'cc': cc, 'mod_cflags': list(flags)})
        chk.cov['distinct_nontrivial'] = before
        if ok:
            d['ok'] += 1; d['programs'] += res['funcs']; d['evaluations'] += res['evals']
            chk.cov['distinct_nontrivial'] += res['funcs']
        else:
            chk.cov['exhaustive'] = False

    def nwork(job):
        nm, pos = job
        m = c10.name_module(nm, pos)
        wd = scratch('c11n')
        from batch import translate
        rc, err = translate(m, wd, w2c2, ['-g'] if pos in ('name-section', 'debug-name') else [])
        if rc != 0:
            return ('translate', err[-200:])
        out = []
        for cc in ('gcc', 'clang'):
            # -c, not -fsyntax-only: a debug name ends up in an __asm__ label, which only the assembler looks at
            r = run([cc, '-std=gnu89', '-c', '-o', os.path.join(wd, 'm-%s.o' % cc), '-w', '-I', os.path.join(REPO, 'w2c2'), '-I', wd, os.path.join(wd, 'm.c')])
            if r.returncode != 0:
                out.append((cc, r.stderr.decode(errors='replace')[:300]))
        shutil_rm(wd)
        return ('ok', out)
    import shutil
    def shutil_rm(d): shutil.rmtree(d, ignore_errors=True)
    nres = pmap(nwork, njobs)
    ncomp = 0
    for (nm, pos), (st, info) in zip(njobs, nres):
        ncomp += 1
        if st != 'ok':
            chk.violation('names|translate|%r|%s' % (nm[:12], pos), {'kind': 'config', 'name': repr(nm), 'position': pos, 'error': info}, 'name %r in %s: translator failed: %s' % (nm[:20], pos, info))
        elif info:
            cls = 'quote-or-backslash' if (b'"' in nm or b'\\' in nm) else 'newline' if b'\n' in nm else 'other'
            chk.violation('names|does-not-compile|%s|%s' % (cls, pos), {'kind': 'config', 'name': repr(nm), 'position': pos, 'errors': info, 'replay_module': 'c11.py'},
                          'name %r in %s: generated C does not compile: %s' % (nm[:20], pos, info[0][1][:200]))
    chk.add(evaluations=sum(d['evaluations'] for d in percell.values()) + ncomp)
    chk.cov['cells'] = percell
    chk.cov['batches_not_started_before_the_deadline'] = not_started
    chk.cov['name_stress_modules_compiled'] = ncomp
    chk.cov['rule'] = ('corpus = numeric level-1 and a systematic subset of level-2 programs, all valid control-flow bodies up to N (full/ctl/typed alphabets), call, memory (flavours, bulk operations with overlapping copies, store/store/load sequences in one function) and '
                       'instantiation shapes; every corpus batch is compiled in every cell of {gcc, clang} x {-O0..-O3} x {-std=gnu89, default} x {plain, '
                       '-fsanitize=address,undefined,float-cast-overflow} (quick: 5 cells) and run in lockstep with the reference: (i) no compile error, (ii) no sanitizer '
                       'report on non-trapping in-bounds inputs (trapping / out-of-bounds inputs are filtered by the reference verdict), (iii) every cell returns the '
                       'reference result for every (function, input), exact unless the spec leaves a NaN payload open. distinct_nontrivial = (cell, program) pairs executed')
    chk.sample({'cell': 'clang -O2 -fsanitize=address,undefined', 'corpus': 'cf-full N<=3', 'programs': 1152})
    chk.assumptions += ['gcc 12 and clang 14 on x86-64 only']
    return chk.finish()


if __name__ == '__main__':
    sys.exit(main(sys.argv[1] if len(sys.argv) > 1 else 'quick'))
