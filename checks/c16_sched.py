#!/usr/bin/env python3
"""C16 E2 (and the scheduler part of C19): atomicity of the TRANSLATED atomic instructions across threads.

Threads of one shared-memory instance family (generated mNewChild) execute translated atomic operations on the same and on
overlapping cells under mc/sched.c.  Scheduling points: thread start, every __atomic builtin the runtime header uses
(mc/atomic_points.h, force-included: a read-modify-write that is one builtin is one indivisible step, one that was rewritten
as load + store is two steps and gets every other thread put in between) and, in the forced big-endian configuration, the
mutex calls of the RMW path.  ALL interleavings are enumerated (the preemption bound is the number of scheduling points).
Oracle: linearizability by brute force against a 16-byte sequential model — some total order of the operations that respects
the observed real-time order gives exactly the returned old values and the final memory bytes (so no update is lost).
A ThreadSanitizer build runs the same schedules: conflicting plain accesses (an RMW done with ordinary loads/stores) are races.

usage (stand-alone): c16_sched.py replay <replays/C16-*.json>"""
import itertools, json, os, sys, time
sys.path.insert(0, os.path.join(os.path.dirname(os.path.abspath(__file__)), '..', 'lib'))
from vcommon import *
from wasmenc import *
import batch, mclib

WIDTH = [4, 8, 1, 2, 1, 2, 4]           # bytes accessed per flavour
VT = ['i', 'I', 'i', 'i', 'I', 'I', 'I']
WNAME = ['i32', 'i64', 'i32.8', 'i32.16', 'i64.8', 'i64.16', 'i64.32']
KINDS = ['ld', 'st', 'add', 'sub', 'and', 'or', 'xor', 'xchg', 'cas']
RMW_GROUP = {'add': 0, 'sub': 1, 'and': 2, 'or': 3, 'xor': 4, 'xchg': 5, 'cas': 6}
LOG2 = {1: 0, 2: 1, 4: 2, 8: 3}
WINDOW = 64
INIT = (0x8877665544332211, 0x00FFEEDDCCBBAA99)


def module():
    m = Module()
    m.mems.append((1, 1, True))
    for w in range(7):
        t, al = VT[w], LOG2[WIDTH[w]]
        m.add_func('i', t, (), local_get(0) + atomic(0x10 + w, al, 0), export='ld%d' % w)
        m.add_func('i' + t, '', (), local_get(0) + local_get(1) + atomic(0x17 + w, al, 0), export='st%d' % w)
        for k in ('add', 'sub', 'and', 'or', 'xor', 'xchg'):
            m.add_func('i' + t, t, (), local_get(0) + local_get(1) + atomic(0x1e + RMW_GROUP[k] * 7 + w, al, 0), export='%s%d' % (k, w))
        m.add_func('i' + t + t, t, (), local_get(0) + local_get(1) + local_get(2) + atomic(0x1e + 6 * 7 + w, al, 0), export='cas%d' % w)
    return m.encode()


def ops_inc():
    out = ['static U64 do_op(mInstance* i, const op_t* o) {', '    switch (o->kind * 8 + o->w) {']
    for ki, k in enumerate(KINDS):
        for w in range(7):
            c = 'U32' if VT[w] == 'i' else 'U64'
            if k == 'ld':
                call = 'return (U64)m_ld%d(i, o->addr);' % w
            elif k == 'st':
                call = 'm_st%d(i, o->addr, (%s)o->a); return 0;' % (w, c)
            elif k == 'cas':
                call = 'return (U64)m_cas%d(i, o->addr, (%s)o->a, (%s)o->b);' % (w, c, c)
            else:
                call = 'return (U64)m_%s%d(i, o->addr, (%s)o->a);' % (k, w, c)
            out.append('    case %d: %s' % (ki * 8 + w, call))
    out += ['    default: mc_fail("bad op"); return 0;', '    }', '}', '']
    return '\n'.join(out)


def build(flavours, root=None, be=False):
    d = os.path.join(root or scratch('c16s'), 'atomic_be' if be else 'atomic')
    os.makedirs(d, exist_ok=True)
    rc, err = batch.translate(module(), d, w2c2=mclib.w2c2_binary())
    if rc != 0:
        raise mclib.PipelineFailure('w2c2 failed on the C16 E2 module', err)
    with open(os.path.join(d, 'ops.inc'), 'w') as f:
        f.write(ops_inc())
    defs = ['-include', os.path.join(mclib.MC, 'atomic_points.h')] + (['-DWASM_ENDIAN=WASM_BIG_ENDIAN'] if be else [])
    srcs = [os.path.join(d, 'm.c'), os.path.join(mclib.MC, 'h_atomic.c')]
    exes = dict(pmap(lambda fl: (fl, mclib.build_harness(d, fl, srcs, incs=[d, os.path.join(REPO, 'w2c2')], defs=defs)), flavours))
    return exes, d


# ---------------------------------------------------------------- sequential specification (threads proposal) on a 16-byte window
def parse_op(text):
    f = text.split(',')
    return {'kind': f[0], 'w': int(f[1]), 'addr': int(f[2], 0), 'a': int(f[3], 0) if len(f) > 3 else 0, 'b': int(f[4], 0) if len(f) > 4 else 0}


def spec_apply(state, o, be=False):
    """state: bytes(16).  -> (result, new state).  Cells are little-endian images (big-endian image when be)."""
    n = WIDTH[o['w']]
    off = o['addr'] - WINDOW
    order = 'big' if be else 'little'
    mask = (1 << (8 * n)) - 1
    old = int.from_bytes(state[off:off + n], order)
    v = o['a'] & mask
    k = o['kind']
    if k == 'ld':
        return old, state
    if k == 'st':
        new, res = v, 0
    elif k == 'cas':
        new, res = ((o['b'] & mask) if old == v else old), old
    else:
        new = {'add': (old + v) & mask, 'sub': (old - v) & mask, 'and': old & v, 'or': old | v, 'xor': old ^ v, 'xchg': v}[k]
        res = old
    return res, state[:off] + new.to_bytes(n, order) + state[off + n:]


def init_state(be=False):
    order = 'big' if be else 'little'
    return INIT[0].to_bytes(8, order) + INIT[1].to_bytes(8, order)


def parse_obs(obs):
    ops, idx = [], {}
    for pos, ln in enumerate(obs.strip().split('\n')):
        w = ln.split()
        if len(w) < 3 or w[0] == 'T0':
            continue
        if w[1] == 'i':
            o = parse_op(w[3])
            o.update(t=w[0], k=int(w[2]), inv=pos, ret=None, res=None, text=w[3])
            idx[(w[0], o['k'])] = o
            ops.append(o)
        elif w[1] == 'r':
            o = idx[(w[0], int(w[2]))]
            o['ret'], o['res'] = pos, int(w[3], 16)
    return ops


def linearizable(ops, final, be):
    n = len(ops)
    preds = [sum(1 << j for j in range(n) if ops[j]['ret'] < ops[i]['inv']) for i in range(n)]
    full = (1 << n) - 1
    dead = set()

    def rec(done, state, order):
        if done == full:
            return order if state == final else None
        if (done, state) in dead:
            return None
        for i in range(n):
            if not done >> i & 1 and preds[i] & done == preds[i]:
                r, ns = spec_apply(state, ops[i], be)
                if r == ops[i]['res']:
                    x = rec(done | 1 << i, ns, order + [i])
                    if x is not None:
                        return x
        dead.add((done, state))
        return None
    return rec(0, init_state(be), [])


def oracle(job, o):
    be = job.get('be', False)
    if o['status'] != 'ok':
        return [('terminal|' + o['status'], 'threads did not all terminate: %s' % o['end'])]
    ops = parse_obs(o['obs'])
    if any(x['ret'] is None for x in ops):
        return [('terminal|unfinished-operation', 'an operation never returned')]
    want_n = sum(len(w.split('.')) for w in job['words'][1:])
    if len(ops) != want_n:
        return [('terminal|operation-count', 'log holds %d operations, the case has %d' % (len(ops), want_n))]
    final = bytes.fromhex(o['end'].split('bytes=')[1])
    if linearizable(ops, final, be) is not None:
        return []
    desc = ' '.join('%s:%s->%x' % (x['t'], x['text'], x['res']) for x in sorted(ops, key=lambda x: x['ret']))
    kinds = '+'.join(sorted(set(x['kind'] for x in ops)))
    # is it already wrong without any overlap (a sequential-semantics error) or only under this interleaving?
    serial = all(a['ret'] < b['inv'] or b['ret'] < a['inv'] for a, b in itertools.combinations(ops, 2))
    key = ('sequential-result|' if serial else 'not-linearizable|') + ('be|' if be else '') + kinds
    return [(key, 'no total order of the operations that respects real time explains the returned values and the final bytes %s: %s (completion order shown; initial bytes %s)' % (
        final.hex(), desc, init_state(be).hex()))]


def projection(o):
    return (o['status'], tuple(sorted(l for l in o['obs'].split('\n') if ' r ' in l)), o['end'])


# ---------------------------------------------------------------- cases
def opw(kind, w, addr=WINDOW, variant=0, be=False):
    """one operation word with operands that make its effect visible on the INIT pattern (be: the cell value as the forced
    big-endian configuration sees it, so that 'expected = initial cell' really hits there too)"""
    n = WIDTH[w]
    mask = (1 << (8 * n)) - 1
    off = addr - WINDOW
    cell = int.from_bytes(init_state(be)[off:off + n], 'big' if be else 'little')
    a = {'ld': None, 'st': 0x5A5A5A5A5A5A5A5A, 'add': 0xFFFFFFFFFFFFFFFF if variant else 1, 'sub': 3, 'and': 0x0F0F0F0F0F0F0F0F, 'or': 0xF0F0F0F0F0F0F0F0 if not variant else 0x0101010101010101,
         'xor': 0xFFFFFFFFFFFFFFFF, 'xchg': 0xA5A5A5A5A5A5A5A5 if not variant else 0x1111111111111111}.get(kind)
    if kind == 'ld':
        return 'ld,%d,%d' % (w, addr)
    if kind == 'cas':       # variant 0: expected = initial cell (hits if it runs first), 1: expected never present (miss), 2: expected = initial cell + 1 (hits after an add 1)
        exp = cell if variant == 0 else (0x0123456789ABCDEF if variant == 1 else (cell + 1))
        # bits above the access width must be ignored: set one
        if n < (4 if VT[w] == 'i' else 8) and variant != 1:
            exp = (exp & mask) | (1 << (8 * n))
        lim = (1 << 32) - 1 if VT[w] == 'i' else (1 << 64) - 1
        return 'cas,%d,%d,%#x,%#x' % (w, addr, exp & lim, 0xC3C3C3C3C3C3C3C3 & lim)
    lim = (1 << 32) - 1 if VT[w] == 'i' else (1 << 64) - 1
    return '%s,%d,%d,%#x' % (kind, w, addr, a & lim)


# preemption bounds per thread mix.  Measured on this tree (one scheduling point per operation): the set of distinct operation
# orders saturates at pb 0 (2x1, 3x1), 1 (2+1+1) and 2 (2x2), i.e. the bounds below reach EVERY interleaving of the operations of
# a correct implementation (verified per case at run time: orders seen == multinomial count) and, beyond that, every placement of
# the other threads between the two halves of an operation that was split into load + store.
PB = {'quick': {'2x1 same-width': 3, '2x1 mixed-width': 3, '2x2': 2, '3x1': 1, '3 threads 2+1+1': 1},
      'thorough': {'2x1 same-width': 3, '2x1 mixed-width': 3, '2x2': 3, '3x1': 3, '3 threads 2+1+1': 2}}

ALLOPS = [('ld', 0), ('st', 0), ('add', 0), ('add', 1), ('sub', 0), ('and', 0), ('or', 0), ('xor', 0), ('xchg', 0), ('cas', 0), ('cas', 1), ('cas', 2)]


def make_cases(tier):
    cs = []
    quick = tier == 'quick'
    widths_all = list(range(7))
    if not quick:
        cs += [c + ('round0',) for c in make_cases('quick')]
    # (1) two threads, one operation each, same cell and same flavour: every unordered pair of operation kinds, every flavour
    for w in widths_all:
        for (k1, v1), (k2, v2) in itertools.combinations_with_replacement(ALLOPS, 2):
            if k1 == 'ld' and k2 == 'ld':
                continue
            cs.append(('2x1 same-width', [opw(k1, w, variant=v1)], [opw(k2, w, variant=v2)]))
    # (2) two threads, one operation each, overlapping cells of different widths / flavours (all flavour pairs, the narrower one at each offset inside the wider)
    mixed_kinds = [('add', 1), ('xchg', 0), ('cas', 0), ('st', 0)] if quick else [('add', 1), ('sub', 0), ('xor', 0), ('xchg', 0), ('cas', 0), ('st', 0), ('ld', 0)]
    for w1, w2 in itertools.product(widths_all, repeat=2):
        if WIDTH[w1] < WIDTH[w2] or (WIDTH[w1] == WIDTH[w2] and w1 >= w2):
            continue
        offs = range(0, WIDTH[w1], WIDTH[w2]) if WIDTH[w1] > WIDTH[w2] else [0]
        if quick:
            offs = sorted(set([0, list(offs)[-1]]))
        for off in offs:
            for (k1, v1), (k2, v2) in itertools.product(mixed_kinds, repeat=2):
                if k1 == 'ld' and k2 == 'ld':
                    continue
                cs.append(('2x1 mixed-width', [opw(k1, w1, variant=v1)], [opw(k2, w2, WINDOW + off, variant=v2)]))
    # (3) two threads, two operations each (same flavour)
    seq_kinds = [('add', 0), ('xchg', 0), ('cas', 2), ('ld', 0), ('st', 0)] if quick else [('add', 0), ('sub', 0), ('or', 1), ('xchg', 0), ('cas', 0), ('cas', 2), ('ld', 0), ('st', 0)]
    seqs = [list(p) for p in itertools.product(seq_kinds, repeat=2)]
    for w in ([0, 5] if quick else widths_all):
        for s1, s2 in itertools.combinations_with_replacement(seqs, 2):
            if all(k == 'ld' for k, v in s1 + s2):
                continue
            cs.append(('2x2', [opw(k, w, variant=v) for k, v in s1], [opw(k, w, variant=v) for k, v in s2]))
    # (4) three threads, one operation each
    tri = [('add', 0), ('sub', 0), ('xchg', 0), ('xchg', 1), ('cas', 0), ('cas', 2), ('ld', 0), ('st', 0), ('or', 1)]
    for w in ([0, 4] if quick else widths_all):
        for t in itertools.combinations_with_replacement(tri if not quick else tri[:7], 3):
            if sum(1 for k, v in t if k == 'ld') >= 2:
                continue
            cs.append(('3x1', *[[opw(k, w, variant=v)] for k, v in t]))
    if not quick:
        # (5) three threads, 2+1+1 operations on the 32-bit and the 64-bit cell
        for w in (0, 1, 3):
            for s1 in [list(p) for p in itertools.product([('add', 0), ('cas', 2), ('xchg', 0)], repeat=2)]:
                for t in itertools.combinations_with_replacement([('add', 0), ('xchg', 1), ('cas', 0), ('ld', 0)], 2):
                    cs.append(('3 threads 2+1+1', [opw(k, w, variant=v) for k, v in s1], *[[opw(k, w, variant=v)] for k, v in t]))
    return cs


def be_cases(tier, rmw_only=False):
    """forced big-endian configuration: the read-modify-write path is lock; read; op; write; unlock"""
    cs = []
    kinds = [('add', 0), ('xchg', 0), ('cas', 0), ('sub', 0)] if tier == 'quick' else [('add', 0), ('add', 1), ('sub', 0), ('and', 0), ('or', 0), ('xor', 0), ('xchg', 0), ('cas', 0), ('cas', 1), ('cas', 2)]
    for w in ((0, 5, 2) if tier == 'quick' else range(7)):      # a 32-bit, a narrow 64-bit-typed and an 8-bit flavour
        for (k1, v1), (k2, v2) in itertools.combinations_with_replacement(kinds, 2):
            cs.append(('be 2x1 rmw', [opw(k1, w, variant=v1, be=True)], [opw(k2, w, variant=v2, be=True)]))
    if rmw_only:
        return cs
    # atomic load / store next to a read-modify-write of the same cell
    for w in ((0, 5) if tier == 'quick' else range(7)):
        for (k1, v1) in kinds[:3] if tier == 'quick' else kinds:
            for k2 in ('st', 'ld'):
                cs.append(('be 2x1 rmw+load/store', [opw(k1, w, variant=v1, be=True)], [opw(k2, w, be=True)]))
    return cs


def be_key(job, key):
    """big-endian configuration: name a race report by the KIND of the two accesses (the flavours all share one mechanism)"""
    if not job.get('be') or not key.startswith('race|'):
        return key
    import re
    labs = []
    for l in key.split('|', 1)[1].split('+'):
        if re.match(r'^i(32|64)_atomic_(load|store)', l):
            labs.append('atomic-load-or-store')
        elif re.match(r'^i(32|64)_atomic_rmw', l) or re.match(r'^(read|write)SwapU\d+$', l):      # the plain swapped accesses are (inlined) helpers of the mutex path
            labs.append('mutex-rmw')
        else:
            labs.append(l)
    return 'race|be|' + '+'.join(sorted(labs))


def sched_part(chk, tier, be_only=False, origin_prop='C16'):
    """runs E2; returns a summary dict (also merged into chk.cov by Matrix.fill_coverage)"""
    budget = 120 if tier == 'quick' else 600
    deadline_at = time.time() + budget
    root = scratch('c16s')
    flavours = ('plain', 'tsan')
    jobs = []
    dirs = []
    if not be_only:
        exes, d = build(flavours, root)
        dirs.append(d)
        for c in make_cases(tier):
            rnd = 1 if tier != 'quick' else 0
            if c[-1] == 'round0':
                c, rnd = c[:-1], 0
            mix, threads = c[0], c[1:]
            words = ['%#x:%#x' % INIT] + ['.'.join(t) for t in threads]
            nops = sum(len(t) for t in threads)
            for fl in flavours:
                jobs.append({'case': {'threads': words[1:], 'init': words[0]}, 'words': words, 'exe': exes[fl], 'flavour': fl, 'pb': PB['quick' if rnd == 0 else tier].get(mix, 2), 'db': 0, 'spurious': 0, 'mix': mix, 'round': rnd,
                             'weight': nops ** len(threads) * (3 if fl == 'tsan' else 1)})
    exes_be, dbe = build(flavours, root, be=True)
    dirs.append(dbe)
    for c in be_cases(tier, rmw_only=be_only):
        mix, threads = c[0], c[1:]
        words = ['%#x:%#x' % INIT] + ['.'.join(t) for t in threads]
        nops = sum(len(t) for t in threads)
        for fl in flavours:
            jobs.append({'case': {'threads': words[1:], 'init': words[0], 'config': 'WASM_ENDIAN=WASM_BIG_ENDIAN'}, 'words': words, 'exe': exes_be[fl], 'flavour': fl, 'pb': 3, 'db': 0, 'spurious': 0,
                         'mix': mix, 'be': True, 'weight': 50 * (3 if fl == 'tsan' else 1)})
    mx = mclib.Matrix(chk, [REPO] + dirs, projection=projection)
    mx.replay_module = 'c16_sched.py'
    mx.key_hook = be_key
    results = mx.run(jobs, oracle, deadline_at)
    # machinery self-check of the coverage claim: for every little-endian case (one scheduling point per operation) the distinct
    # completion orders seen must be ALL linear extensions of the per-thread orders (multinomial count)
    import math
    complete = incomplete = 0
    for job, res in zip(mx.last_jobs, results):
        if not isinstance(res, dict) or job['flavour'] != 'plain' or job.get('be') or res['done']['bounds_completed'] < job['pb']:
            continue
        lens = [len(w.split('.')) for w in job['words'][1:]]
        want = math.factorial(sum(lens))
        for n in lens:
            want //= math.factorial(n)
        orders = set(tuple(l.split()[0] + ':' + l.split()[2] for l in o['obs'].split('\n') if ' r ' in l) for o in res['outcomes'] if o['status'] == 'ok')
        if len(orders) == want:
            complete += 1
        else:
            incomplete += 1
            chk.cov.setdefault('cases_with_missing_operation_orders', []).append({'threads': job['words'][1:], 'orders_seen': len(orders), 'orders_possible': want})
    if incomplete and not mx.fail:
        chk.cov['exhaustive'] = False
    mx.report('checks/c16_sched.py', lambda ex, r, key: True)
    mx.fill_coverage('')
    st = mx.stats
    return {'cases': st['cases'], 'schedules': st['schedules'], 'states': st['states'], 'transitions': st['transitions'], 'cases_with_more_than_one_outcome': st['nontrivial_cases'],
            'schedules_by_flavour': st['schedules_by_flavour'], 'by_mix': st.get('by_mix', {}), 'exhaustive': st['exhaustive'],
            'cases_where_every_operation_order_was_executed': complete, 'cases_with_missing_operation_orders': incomplete,
            'scheduling_points': 'thread start + every __atomic builtin (mc/atomic_points.h); big-endian configuration: + mutex lock/unlock of the RMW path',
            'preemption_bound': 'number of scheduling points (all interleavings); big-endian cases: 3'}


def replay_file(path):
    obj = json.load(open(path))
    be = obj['case'].get('config') is not None
    exes, d = build([obj['flavour']], be=be)
    r = mclib.replay(exes[obj['flavour']], obj['words'], obj['schedule'])
    print('case      :', json.dumps(obj['case']))
    print('flavour   :', obj['flavour'], ' schedule:', r['sched'], ' enabled-set sizes:', r['enabled'])
    print('trace     :\n' + r['trace'])
    print('observations:\n' + r['obs'])
    print('end state :', r['end'], ' status:', r['status'], ' sanitizer:', r['san'])
    if r['san']:
        print(r['stderr'][:5000])
    job = {'case': obj['case'], 'words': obj['words'], 'be': be}
    fails = oracle(job, r) if r['status'] in ('ok', 'blocked') else [('terminal|' + r['status'], r['err'])]
    if r['san']:
        fails.append(mclib.classify_report(r['stderr'], [REPO, d])[:1] + ('sanitizer report',))
    for f in fails:
        print('ORACLE    :', f[0], '-', f[1])
    same = r['obs'].strip().split('\n') == obj['observed']['observations'] and r['end'] == obj['observed']['end_state']
    print('replay %s the recorded observations; key %s %s' % ('REPRODUCES' if same else 'DIFFERS FROM', obj['key'], 'still fails' if any(f[0] == obj['key'] for f in fails) else 'does not fail now'))
    return 1 if fails else 0


if __name__ == '__main__':
    if len(sys.argv) > 2 and sys.argv[1] == 'replay':
        sys.exit(replay_file(sys.argv[2]))
    print(len(make_cases('quick')), len(make_cases('thorough')), len(be_cases('quick')), len(be_cases('thorough')))
