#!/usr/bin/env python3
"""C06 Instantiation builds the specified initial state, once, per instance.
Part 1: configuration product (memory x data segments x table x element segments x start) with a rich fixed set of
globals and exports; the state right after Instantiate is read back through exported observers and compared with the
reference interpreter instantiated with the same embedder answers.
Part 2: ALL operation sequences up to a length over TWO live instances (plus 'Instantiate B' at every position)."""
import sys, os, re, struct
sys.path.insert(0, os.path.dirname(os.path.abspath(__file__)))
from numeric import *

SEGLENS = [0, 1, 17, 18, 19, 37]


def segbytes(n, start):
    return bytes(((start + i * 11) & 0xff) for i in range(n))


def config_module(mem, data, table, elems, start, two_instances=False, utf8_names=False):
    m = Module(); imports = []; externs = []; cases = []; inputsets = []
    # names of the imported memory / table / globals: plain ASCII, or with non-ASCII UTF-8 characters (the resolver is asked for these very bytes)
    EN, GOFF, GMUT, MEM, TAB = ('\u00e9nv', 'g\u20acff', 'gm\u00fct', 'm\u00e9m', 't\u00e4b\u4e2d') if utf8_names is True else ('env', 'goff', 'gmut', 'mem', 'tab')
    if utf8_names == 'control':
        # control characters directly in front of hexadecimal digits and of octal digits, quotes, backslashes, a question mark pair (trigraph)
        EN, GOFF, GMUT, MEM, TAB = 'e\x01nv', 'g\x010ff', 'gm\x1f7"\\ut', 'm\x7fe??/m', 't\x07ab\x02c9'

    def imp(mod, nm, p, r):
        m.import_func(mod, nm, p, '' if r == 'v' else r); imports.append((mod, nm, p, r)); return len(imports) - 1
    mark = imp('env', 'mark', 'i', 'i')
    hstart = imp('env', 'hstart', '', 'v')
    # imported globals: one immutable i32 used as segment offset, one mutable i64 shared with the embedder
    m.imports.append((EN, GOFF, 3, (I32, 0))); externs.append((EN, GOFF, 'global', ('i', 5)))
    m.imports.append((EN, GMUT, 3, (I64, 1))); externs.append((EN, GMUT, 'global', ('I', 0x1122334455667788)))
    if mem == 'imported':
        m.imports.append((EN, MEM, 2, (1, 2))); externs.append((EN, MEM, 'memory', (1, 2, False)))
    elif mem == 'defined':
        m.mems.append((1, 2))
    elif mem == 'shared':         # a defined SHARED memory: reserved at its maximum, but its size is the declared minimum
        m.mems.append((1, 3, True))
    if table == 'imported':
        m.imports.append((EN, TAB, 1, (12, 12))); externs.append((EN, TAB, 'table', (12, 12)))
    elif table == 'defined':
        m.tables.append((12, None))
    # globals (indices 0,1 are the imports)
    G = [(I32, 1, i32_const(0x80000000)), (I64, 1, i64_const(0x8000000000000000)), (F32, 1, f32_const(0x7fa00001)), (F64, 1, f64_const(0xfff8000000000000)),
         (F32, 0, f32_const(0x80000000)), (F64, 0, f64_const(0x7ff0000000000000)), (I32, 0, global_get(0)), (I32, 1, i32_const(7))]
    for g in G:
        m.globals.append(g)
    ng = 2 + len(G)
    gtypes = ['i', 'I'] + [{I32: 'i', I64: 'I', F32: 'f', F64: 'F'}[g[0]] for g in G]
    gmut = [0, 1] + [g[1] for g in G]

    def fn(name, params, result, body, inputs, export=True):
        idx = len(cases)
        fi = m.add_func(params, result, (), body, export='f%d' % idx)
        key = tuple(inputs)
        inputsets.append(('explicit', list(inputs)))
        cases.append(Case('f%d' % idx, params, result or 'v', len(inputsets) - 1, -1, name))
        return fi, idx
    obs = {}
    REI = {'f': 0xbc, 'F': 0xbd}
    for k in range(ng):
        t = gtypes[k]
        body = global_get(k) + (numop(REI[t]) if t in REI else b'')
        obs['gget%d' % k] = fn('global.get %d' % k, '', {'f': 'i', 'F': 'I'}.get(t, t), body, [()])
    setters = {}
    for k in range(ng):
        if gmut[k] and gtypes[k] in 'iI':
            setters[k] = fn('global.set %d' % k, gtypes[k], '', local_get(0) + global_set(k), [(0x1234,)])
    if mem != 'none':
        obs['ld'] = fn('i32.load8_u', 'i', 'i', local_get(0) + memop(0x2d), [(a,) for a in range(0, 96)] + [(65535,)])
        obs['st'] = fn('i32.store8', 'ii', '', local_get(0) + local_get(1) + memop(0x3a), [(90, 0x77)])
        obs['grow'] = fn('memory.grow', 'i', 'i', local_get(0) + memory_grow(), [(0,)])
        m.exports.append(('mem', 2, 0))
    # functions for the table + start
    t0 = m.add_func('', 'i', (), i32_const(200))
    t1 = m.add_func('', 'i', (), i32_const(201))
    t2 = m.add_func('', 'i', (), i32_const(7) + call(mark))
    if table != 'none':
        ti = m.type('', 'i')
        obs['probe'] = fn('call_indirect', 'i', 'i', local_get(0) + call_indirect(ti), [(i,) for i in range(12)])
        if elems >= 1:
            m.elems.append((0, i32_const(2), [t0, t1, t2]))
        if elems >= 2:
            m.elems.append((0, global_get(0), [t1]))       # offset 5 from the imported global
            m.elems.append((0, i32_const(3), [t2, t0]))     # overlaps segment 0: later wins
    if data != 'none':
        if data == 'one':
            m.datas.append(('active', 0, i32_const(3), segbytes(19, 1)))
        elif data == 'overlap':
            m.datas.append(('active', 0, i32_const(8), segbytes(37, 0x40)))
            m.datas.append(('active', 0, i32_const(20), segbytes(18, 0xa0)))
            m.datas.append(('active', 0, i32_const(60), segbytes(0, 0)))
            m.datas.append(('active', 0, i32_const(30), segbytes(1, 0xff)))
            # zero bytes at both ends and a segment of zeros only, written OVER non-zero bytes of earlier segments ("copied in segment order" includes zeros)
            m.datas.append(('active', 0, i32_const(10), b'\x00\x00\x5a\x00\x00'))
            m.datas.append(('active', 0, i32_const(24), b'\x00\x00\x00'))
        elif data == 'passive+active':
            m.datas.append(('passive', 0, b'', segbytes(17, 0x10)))
            m.datas.append(('active2', 0, i32_const(40), segbytes(17, 0xf0)))
            m.datas.append(('active', 0, i32_const(60), segbytes(5, 0x71)))
            m.datacount = True
            obs['init'] = fn('memory.init', 'iii', '', local_get(0) + local_get(1) + local_get(2) + memory_init(0), [(70, 0, 17)])
        elif data == 'active+passive':
            # an ACTIVE segment in front of the first passive one (the order matters where the segments are laid out as one blob / one declaration list)
            m.datas.append(('active', 0, i32_const(50), segbytes(9, 0x21)))
            m.datas.append(('passive', 0, b'', segbytes(11, 0x31)))
            m.datas.append(('active', 0, i32_const(70), segbytes(4, 0x41)))
            m.datas.append(('passive', 0, b'', segbytes(3, 0x51)))
            m.datacount = True
            obs['init'] = fn('memory.init', 'iii', '', local_get(0) + local_get(1) + local_get(2) + memory_init(1), [(80, 0, 11)])
            obs['init3'] = fn('memory.init of the second passive segment', 'iii', '', local_get(0) + local_get(1) + local_get(2) + memory_init(3), [(30, 0, 3)])
        elif data == 'globaloff':
            m.datas.append(('active', 0, global_get(0), segbytes(18, 0x33)))
            m.datas.append(('active', 0, i32_const(65536 - 19), segbytes(19, 0xc0)))
    if start == 'defined':
        body = b''
        if mem != 'none':
            body += i32_const(3) + memop(0x2d) + call(mark) + DROP          # sees the data segments
        body += global_get(8) + call(mark) + DROP                           # sees the initialised globals (g8 = global.get goff)
        if table != 'none' and elems >= 1:
            body += i32_const(4) + call_indirect(m.type('', 'i')) + call(mark) + DROP   # sees the element segments
        body += i32_const(99) + global_set(9)                                 # writes a global
        sidx = m.add_func('', '', (), body)
        m.start = sidx
    elif start == 'imported':
        m.start = hstart
    # extra exports: the same function under two names, an import re-exported
    fdup, _ = fn('dup-export', '', 'i', i32_const(41) + call(mark), [()])
    m.exports.append(('dup2', 0, fdup))
    m.exports.append(('reexp', 0, mark))
    desc = 'mem=%s data=%s table=%s elems=%d start=%s' % (mem, data, table, elems, start)
    b = Batch(m.encode(), cases, inputsets, [], imports)
    b.externs = externs
    b.desc = desc
    if mem != 'none':
        b.impl_mem = 'm_mem(ls_cur_inst)'
        b.compare_mem = True
    # calls through the additional export names use the documented '<module>_<name>' symbols literally
    b.extra_cases = [('dup2', '', 'i'), ('reexp', 'i', 'i')]
    for nm, ps, rs in b.extra_cases:
        inputsets.append(('explicit', [tuple([5] * len(ps))]))
        cases.append(Case(nm, ps, rs, len(inputsets) - 1, -1, 'export ' + nm))
    if two_instances:
        ops = [(-1, (), 2)]
        if two_instances == 'newchild':
            ops.append((-1, (), 3))
            ops.append((-1, (), 4))
        for inst in (0, 1):
            for nm in ('gget9', 'gget1', 'ld', 'probe', 'st', 'grow'):
                if nm in obs:
                    ci = obs[nm][1]
                    args = {'ld': (90,), 'probe': (4,), 'st': (90, 0x51 + inst), 'grow': (1,)}.get(nm, ())
                    ops.append((ci, args, inst))
            for k in (9, 1):
                if k in setters:
                    ops.append((setters[k][1], (0x100 + inst + k,), inst))
        b.main = 'seq2'; b.ops = ops
        b.opnames = [('Instantiate B' if inst == 2 else 'B = NewChild(A)' if inst == 3 else 'B = NewChild(NewChild(A))') if ci < 0 else '%s:%s(%s)' % ('AB'[inst], cases[ci].desc, ','.join('%#x' % a for a in args)) for ci, args, inst in ops]
    return b


def repeated_import_module():
    """the same globals imported twice (valid: each import is an entry of its own, the embedder answers both with one
    object); a defined global initialised from the second one, setters through either index must be visible through the other"""
    m = Module(); cases = []
    m.import_func('env', 'mark', 'i', 'i')
    m.imports.append(('env', 'g', 3, (I64, 1))); m.imports.append(('env', 'k', 3, (I32, 0))); m.imports.append(('env', 'g', 3, (I64, 1))); m.imports.append(('env', 'k', 3, (I32, 0)))
    m.globals.append((I32, 0, global_get(3)))
    def fn(desc, ps, rs, body, inputs):
        k = len(cases)
        m.add_func(ps, rs, (), body, export='f%d' % k)
        cases.append(Case('f%d' % k, ps, rs or 'v', k, -1, desc))
        return inputs
    ins = []
    ins.append(fn('global.get 0 (first import of env.g)', '', 'I', global_get(0), [()]))
    ins.append(fn('global.get 2 (second import of env.g)', '', 'I', global_get(2), [()]))
    ins.append(fn('global.get 1 + global.get 3 + defined global initialised from import 3', '', 'i', global_get(1) + global_get(3) + op(0x6a) + global_get(4) + op(0x6a), [()]))
    ins.append(fn('global.set 2 then global.get 0', 'I', 'I', local_get(0) + global_set(2) + global_get(0), [(0x1122334455,), (7,)]))
    ins.append(fn('call of the imported function', 'i', 'i', local_get(0) + call(0), [(5,)]))
    b = Batch(m.encode(), cases, [('explicit', i) for i in ins], [], [('env', 'mark', 'i', 'i')])
    b.externs = [('env', 'g', 'global', ('I', 0x0102030405060708)), ('env', 'k', 'global', ('i', 9))]
    b.desc = 'the same globals imported twice'
    return b


def names_module():
    """export names that need escaping: symbols read from the header; must link and reach the right function"""
    m = Module(); cases = []
    names = ['a_b', 'a__b', 'a-b', 'aXb', 'a.b', '_a', 'a_', '0', 'if', 'get_-_a', 'val__.__b', 'mem_$_0', 'a___b', 'x-_-y', '_-', '-_']
    for k, n in enumerate(names):
        m.add_func('', 'i', (), i32_const(300 + k))
        m.exports.append((n, 0, k))
        cases.append(Case('e%d' % k, '', 'i', 0, -1, 'export name %r' % n))
    # non-exported functions whose DEBUG names (used as symbols under -g) are the escaped spellings of exports above, and plain duplicates of them
    base_ = len(names)
    dbg = {}
    for j, dn in enumerate(['aX2Db', 'a___b', 'aX58b', 'aX2Eb', 'getX5FX2DX5Fa', 'get_X2D_a', 'mem_X24_0', 'if', '0']):
        m.add_func('', 'i', (), i32_const(900 + j))
        dbg[base_ + j] = dn
    m.names = dbg
    b = Batch(m.encode(), cases, [('explicit', [()])])
    b.names = names

    def post(batch, wd):
        hdr = open(os.path.join(wd, 'm.h')).read()
        syms = re.findall(r'^U32 (m_[A-Za-z0-9_]+)\(mInstance\*\s*i\);', hdr, re.M)   # \s*: pretty format (-p)
        if len(syms) != len(batch.cases) or len(set(syms)) != len(syms):
            raise RuntimeError('export symbols not distinct/complete: %r' % syms)
        # the naming scheme the project states for symbols of exports whose names are not C identifiers (tests/gen.py export_name, restated):
        # an underscore that follows an underscore is doubled, alphanumerics except 'X' stay, every other character is X + two hex digits
        def documented(n):
            out = ''
            for i, c in enumerate(n):
                if c == '_':
                    out += '__' if i > 0 and n[i - 1] == '_' else '_'
                elif c != 'X' and c.isalnum():
                    out += c
                else:
                    out += 'X%02X' % ord(c)
            return 'm_' + out
        wrong = [(n, sy, documented(n)) for n, sy in zip(batch.names, syms) if sy != documented(n)]
        if wrong:
            raise RuntimeError('export %r is reachable as %s, the documented symbol is %s' % wrong[0])
        for c, sy, n in zip(batch.cases, syms, batch.names):
            c.sym = sy
            c.export = n
    b.post_translate = post
    b.desc = 'export names needing escaping'
    return b


def main(tier):
    chk = Check('C06', 'model_checking', tier)
    w2c2 = build_w2c2('plain'); build_ref()
    jobs = []
    for mem in ('none', 'defined', 'imported'):
        for data in (('none',) if mem == 'none' else ('none', 'one', 'overlap', 'passive+active', 'globaloff')):
            for table in ('none', 'defined', 'imported'):
                for elems in ((0,) if table == 'none' else (0, 1, 2)):
                    for start in ('none', 'defined', 'imported'):
                        jobs.append(('config', config_module(mem, data, table, elems, start), {'cc': 'gcc', 'cflags': ('-O1',)}))
    # defined shared memory (threads build of the runtime) and the external data-segment blob (-d gnu-ld) for the layouts with several segments
    for mem in ('defined', 'imported'):
        jobs.append(('config', config_module(mem, 'active+passive', 'none', 0, 'none'), {'cc': 'gcc', 'cflags': ('-O1',)}))
    for data in ('none', 'one', 'overlap', 'passive+active'):
        for start in ('none', 'defined'):
            jobs.append(('config', config_module('shared', data, 'none', 0, start), {'cc': 'gcc', 'cflags': ('-O1', '-pthread'), 'defines': ('-DWASM_THREADS_PTHREADS',)}))
    for mem in ('defined', 'imported'):
        for data in ('overlap', 'passive+active', 'globaloff', 'active+passive'):
            b = config_module(mem, data, 'defined', 1, 'defined')
            b.desc += ' -d gnu-ld'
            jobs.append(('config', b, {'cc': 'gcc', 'cflags': ('-O1',), 'w2c2_args': ('-d', 'gnu-ld')}))
    # imported memory / table / globals whose names contain non-ASCII characters: bound to what the resolver returns for exactly these names
    for data, table, elems, start in (('one', 'imported', 2, 'defined'), ('globaloff', 'defined', 1, 'none')):
        b = config_module('imported', data, table, elems, start, utf8_names=True)
        b.desc += ' (non-ASCII import names)'
        jobs.append(('config', b, {'cc': 'gcc', 'cflags': ('-O1',)}))
        b = config_module('imported', data, table, elems, start, utf8_names='control')
        b.desc += ' (import names with control characters in front of hex / octal digits, quotes, backslashes)'
        jobs.append(('config', b, {'cc': 'gcc', 'cflags': ('-O1',)}))
    jobs.append(('config', names_module(), {'cc': 'gcc', 'cflags': ('-O1',)}))
    jobs.append(('config', repeated_import_module(), {'cc': 'gcc', 'cflags': ('-O1',)}))
    jobs.append(('config', names_module(), {'cc': 'gcc', 'cflags': ('-O0',), 'w2c2_args': ('-g',)}))
    # every configuration again in the pretty-printed output format: the instantiation writers (Init*, Instantiate, NewChild, export wrappers)
    # have their own -p branches
    jobs += [(label, b, dict(kw, w2c2_args=tuple(kw.get('w2c2_args', ())) + ('-p',))) for label, b, kw in list(jobs)]
    seqlen = 3 if tier == 'quick' else 5
    for mem, data, table, elems, start in (('defined', 'one', 'defined', 1, 'defined'), ('imported', 'overlap', 'imported', 2, 'defined'),
                                           ('defined', 'passive+active', 'none', 0, 'none'), ('imported', 'globaloff', 'defined', 2, 'imported')):
        b = config_module(mem, data, table, elems, start, two_instances=True)
        b.seq_len = seqlen
        jobs.append(('two-instances', b, {'cc': 'gcc', 'cflags': ('-O1', '-fsanitize=address') if tier == 'quick' else ('-O1',), 'drv_args': (seqlen, 1500), 'timeout': 1600}))

    # a child made by <module>NewChild of a module without start, tables and shared memory is a fresh instance of its own
    # ... and so is the child of a module that defines its table (NewChild runs the element segments on the CHILD's table) and has a
    # defined start function (run on the child)
    for mem, data, table, elems, start in (('defined', 'overlap', 'none', 0, 'none'), ('defined', 'passive+active', 'none', 0, 'none'), ('imported', 'one', 'none', 0, 'none'),
                                           ('defined', 'one', 'defined', 1, 'none'), ('defined', 'one', 'defined', 2, 'defined'), ('none', 'none', 'defined', 1, 'none')):
        b = config_module(mem, data, table, elems, start, two_instances='newchild')
        b.seq_len = seqlen
        b.desc += ' (+NewChild)'
        jobs.append(('two-instances', b, {'cc': 'gcc', 'cflags': ('-O1', '-fsanitize=address') if tier == 'quick' else ('-O1',), 'drv_args': (seqlen, 1500), 'timeout': 1600, 'defines': ('-DLS_NEWCHILD',)}))
        if table != 'none':
            jobs.append(('two-instances', b, {'cc': 'gcc', 'cflags': ('-O1',), 'drv_args': (seqlen, 1500), 'timeout': 1600, 'defines': ('-DLS_NEWCHILD',), 'w2c2_args': ('-p',)}))

    def work(job):
        label, b, kw = job
        try:
            return run_batch(b, w2c2=w2c2, **kw)
        except RuntimeError as e:      # raised by the post-translation hooks: export symbols missing, not distinct or not the documented ones
            return {'done': False, 'stage': 'export-symbols', 'stderr': str(e)}
    states = transitions = 0
    fam = {'config': {'modules': 0, 'evaluations': 0}, 'two-instances': {'modules': 0, 'sequences': 0, 'steps': 0}}
    for (label, b, kw), res in zip(jobs, pmap(work, jobs)):
        full = '%s|%s' % (label, b.desc)
        hist = res.get('histories') or []
        if hist and res.get('mismatch_lines'):
            for line, h in zip(res['mismatch_lines'], hist):
                names = [b.opnames[i] for i in h]
                what = line.split('what=')[1].split()[0].split('(')[0].split('@')[0]
                chk.violation('%s|%s|%s' % (full, names[-1], what), {'kind': 'history', 'config': b.desc, 'history': names, 'line': line, 'ops': h}, 'history %s: %s' % (' ; '.join(names), line))
            res['mismatch_lines'] = []
        # instantiate-time mismatches have f=-1
        keep = []
        for line in res.get('mismatch_lines', []):
            if 'f=-1' in line:
                chk.violation('%s|start-trace' % full, {'kind': 'config', 'config': b.desc, 'line': line}, '%s: %s' % (b.desc, line))
            else:
                keep.append(line)
        res['mismatch_lines'] = keep
        before = chk.cov['distinct_nontrivial']
        ok = report(chk, b, res, full, extra=kw)
        chk.cov['distinct_nontrivial'] = before
        if not ok:
            chk.cov['exhaustive'] = False
            continue
        if 'bfs' in res:
            fam[label]['modules'] += 1; fam[label]['sequences'] += res['bfs']['states']; fam[label]['steps'] += res['bfs']['transitions']
            states += res['bfs']['states']; transitions += res['bfs']['transitions']
        else:
            fam[label]['modules'] += 1; fam[label]['evaluations'] += res['evals']
            states += 1; transitions += res['evals']
            chk.cov['distinct_nontrivial'] += 1
    chk.cov['states'] = states
    chk.cov['transitions'] = transitions
    chk.cov['traces_validated_against_impl'] = transitions
    chk.cov['families'] = fam
    chk.cov['distinct_nontrivial'] += fam['two-instances']['sequences']
    chk.cov['rule'] = ('config: one module per element of {no, defined, imported memory (+ defined shared memory; + the multi-segment layouts translated with -d gnu-ld and linked through ld -r -b binary)} x {none, one, overlapping, passive+active(flag 2), imported-global-offset '
                       'data segments} x {no, defined, imported table} x {0,1,2(overlapping, imported-global offset)} element segments x {no, defined, '
                       'imported start}, each with 10 globals (all types, NaN/-0/inf initialisers, global.get of an import, imported mutable) and duplicate / '
                       're-exported function exports; after Instantiate every memory byte of the window, every global, every table slot and the host calls '
                       'made by the start function are compared with the reference given the same embedder objects (imported memory pre-filled with 0xEE). '
                       'two-instances: ALL sequences of <= N operations from {get/set global, load, store, grow, call through table} x {A, B} + "Instantiate B" '
                       'at every position on fresh instances (for modules without start/table/shared memory also "B = NewChild(A)"); the reference keeps two separate instances. states = modules + sequences')
    chk.sample({'config': jobs[40][1].desc, 'observers': [c.desc for c in jobs[40][1].cases][:8]})
    chk.sample({'two-instances sequence': ['A:global.set 9(0x109)', 'Instantiate B', 'B:global.get 9()']})
    chk.assumptions += ['the embedder answers are an enumerated map (same objects for both instances, as a resolver that returns fixed objects would)']
    return chk.finish()


if __name__ == '__main__':
    sys.exit(main(sys.argv[1] if len(sys.argv) > 1 else 'quick'))
