#!/usr/bin/env python3
"""C13 WASI descriptors: unique while open, EBADF after close / for never-issued numbers, no use of freed host memory.

Breadth-first search over histories of descriptor-creating, -using and -closing calls on the real
wasi.c (ASan/UBSan build, one forked child per history), judged by a small table model."""
import copy, json, os, sys, time
sys.path.insert(0, os.path.dirname(os.path.abspath(__file__)))
from wasix import *

EBADF, ENOSYS = 8, 52          # WASI errno numbers, restated from the specification
USES = ['fd_write', 'fd_pwrite', 'fd_read', 'fd_pread', 'fd_seek', 'fd_tell', 'fd_readdir', 'fd_fdstat_get', 'fd_datasync', 'fd_sync',
        'fd_prestat_get', 'fd_prestat_dir_name', 'fd_filestat_get', 'path_open', 'path_filestat_get', 'path_rename_old',
        'path_rename_new', 'path_unlink_file', 'path_remove_directory', 'path_create_directory', 'path_symlink', 'path_readlink',
        # the same path calls with an ABSOLUTE guest path: the path is used as it is, the descriptor must be valid all the same
        'path_open_abs', 'path_filestat_get_abs', 'path_create_directory_abs', 'path_readlink_abs', 'path_unlink_file_abs',
        # transfers with an empty iovec array
        'fd_write0', 'fd_pwrite0', 'fd_read0', 'fd_pread0',
        # the listing restarted right after the host has moved the directory away
        'fd_readdir_moved']
STUBS = ['fd_advise', 'fd_allocate', 'fd_fdstat_set_flags', 'fd_filestat_set_size', 'fd_filestat_set_times', 'path_filestat_set_times', 'path_link']
NSNAME = {0: 'wasi_snapshot_preview1', 1: 'wasi_unstable'}


# ---------------------------------------------------------------- the table model (the oracle)
class Table:
    def __init__(self):
        self.t = {0: ['std', True, False], 1: ['std', True, False], 2: ['std', True, False], 3: ['preopen', True, False], 4: ['preopen', True, False]}
        self.paths = {}
        self.fresh = True          # no operation yet
        self.moved = False         # the host has moved "sub" away
        self.failed_open = False      # a path_open that failed after path resolution happened (it must leave no trace in the table)

    def live(self, x):
        return x in self.t and self.t[x][1] is True

    def limbo(self, x):
        # fd_close was called while the host's close() failed: the specification does not say whether the number is still valid afterwards,
        # so nothing is demanded of later calls on it - except that they neither crash nor touch freed memory (AddressSanitizer)
        return x in self.t and self.t[x][1] == 'limbo'

    def cls(self, x):
        return 'unissued' if x not in self.t else 'close-failed' if self.limbo(x) else ('live-' + self.t[x][0] if self.t[x][1] else 'closed')

    def key(self):
        return (self.failed_open, self.moved) + tuple(sorted((n, v[0], v[1], v[2]) for n, v in self.t.items()))

    def issue(self, n, kind, bad):
        if self.live(n):
            bad.append(('alias', 'path_open returned %d which is a live descriptor' % n))
        self.t[n] = [kind, True, False]

    def step(self, op, errno, det, preopen_path):
        """apply one observed step; returns list of (call, xclass, outcome, text) the model rejects"""
        self.fresh = False
        bad, f = [], op.split(',')
        d = dict(kv.split('=', 1) for kv in det.split() if '=' in kv)
        if f[0] == 'hv':
            self.moved = True            # descriptors that are open on it stay valid numbers; what their calls answer is the host's business
            return bad
        if f[0] == 'hc':
            # the host started the process without this standard stream.  What the number then denotes is the embedder's business (whatever
            # it opens first lands on that native descriptor): nothing is demanded of calls on it; the OTHER numbers must mean what they always mean
            self.t[int(f[1])][1] = 'limbo'
            return bad
        if f[0] == 'om':
            self.failed_open = True
            if errno == 0:
                bad.append(('path_open', 'live-preopen', 'missing-file-opened', 'path_open of the missing name "zz" without CREAT succeeded'))
                if 'fd' in d:
                    self.issue(int(d['fd']), 'file', [])
            return bad
        if f[0] in ('of', 'od'):
            call, x = 'path_open', 3
        elif f[0] in ('c', 'cf'):
            call, x = 'fd_close', int(f[1])
        else:
            call, x = f[1], int(f[2])
            if call == 'fd_readdir_moved':
                self.moved = True
        # path_rename takes two directory handles: the second one is the pre-open (3)
        if any(self.limbo(y) for y in ([x, 3] if call.startswith('path_rename') else [x])):
            if errno == 0 and 'fd' in d:
                self.issue(int(d['fd']), 'file', [])
            return bad
        dead = [y for y in ([x, 3] if call.startswith('path_rename') else [x]) if not self.live(y)]
        xc = self.cls(dead[0] if dead else x)
        if dead:
            if errno != EBADF:
                bad.append((call, xc, 'errno=%d' % errno, '%s on %s descriptor %d returned %d, not EBADF (8)' % (call, xc, dead[0], errno)))
            if errno == 0 and 'fd' in d:
                self.issue(int(d['fd']), 'file', [])
            return bad
        if f[0] in ('of', 'od') or call in ('path_open', 'path_open_abs'):
            if errno == 0:
                b2 = []
                self.issue(int(d['fd']), 'dir' if f[0] == 'od' else 'file', b2)
                bad += [(call, xc, 'alias', t) for _, t in b2]
            elif f[0] in ('of', 'od') and not (f[0] == 'od' and self.moved):      # ("sub" is gone once the host has moved it away)
                bad.append((call, xc, 'errno=%d' % errno, 'path_open below the live pre-open failed with %d' % errno))
        elif f[0] == 'cf':
            self.t[x][1] = 'limbo'
        elif call == 'fd_close':
            if errno != 0:
                bad.append((call, xc, 'errno=%d' % errno, 'fd_close of live descriptor %d returned %d' % (x, errno)))
            else:
                self.t[x][1] = False
        elif call in ('fd_readdir', 'fd_readdir_moved') and errno == 0:
            self.t[x][2] = True
        elif call in ('fd_readdir', 'fd_readdir_moved') and self.t[x][2] is True:
            # a listing that HAD a stream failed to restart: the implementation may be in another internal state than after a listing that never
            # started (the stream may have been released) - kept apart so that what follows is explored from here too
            self.t[x][2] = 'restart-failed'
        elif call == 'fd_write' and x in (1, 2):
            if errno != 0 or d.get('nw') != '3' or d.get('host') != '414243':
                bad.append((call, 'stdstream', 'lost', 'fd_write to live descriptor %d: errno=%d %s; the host stream did not receive "ABC"' % (x, errno, det)))
        elif call == 'fd_prestat_get' and x in (3, 4) and self.t[x][0] == 'preopen':
            pp = preopen_path if x == 3 else self.paths.get(4, '?')
            if errno != 0 or d.get('type') != '0' or d.get('len') != str(len(pp)):
                bad.append((call, xc, 'wrong', 'fd_prestat_get(pre-open %d) gave errno=%d %s, want type=0 len=%d' % (x, errno, det, len(pp))))
        elif call == 'fd_prestat_dir_name' and x in (3, 4) and self.t[x][0] == 'preopen':
            pp = preopen_path if x == 3 else self.paths.get(4, '?')
            if errno != 0 or det != 'name=' + pp:
                bad.append((call, xc, 'wrong', 'fd_prestat_dir_name(pre-open %d) gave errno=%d %s' % (x, errno, det)))
        return bad

    def alphabet(self, uses):
        issued = sorted(n for n in self.t if n > 4)
        # never-issued numbers: the next one, far ones, and numbers that equal a live one modulo 2^16
        xs = [0, 1, 2, 3, 4] + issued + [max(self.t) + 1, 1000, 0xFFFFFFFF, 65536 + 3] + [65536 + n for n in issued[:1]]
        ops = []
        if self.fresh:
            ops += ['hc,0', 'hc,1']          # only as the first operation of a history
        if not self.moved:
            ops.append('hv,0')               # the host moves the directory "sub" away (once per history)
        for ns in (0, 1):
            ops += ['of,%d' % ns, 'od,%d' % ns]
            if not self.failed_open:
                ops.append('om,%d' % ns)
            ops += ['c,%d,%d' % (x, ns) for x in xs]
            ops += ['cf,%d,%d' % (x, ns) for x in issued + [max(self.t) + 1]]      # fd_close while the host's close() fails
            for c in uses:
                for x in xs:
                    if c in ('fd_readdir', 'fd_readdir_moved') and x in (0, 1, 2) and (self.live(x) or self.limbo(x)):
                        continue    # design guard: live standard streams are not used as directory handles
                    ops.append('u,%s,%d,%d' % (c, x, ns))
        return ops


def describe(line):
    out = []
    for op in line.split():
        f = op.split(',')
        if f[0] == 'hv': out.append('[host moves the directory "sub" away]')
        elif f[0] == 'hc': out.append('[host started without its standard stream %s]' % f[1])
        elif f[0] == 'om': out.append('%s.path_open(3,"zz" (missing),0)' % NSNAME[int(f[1])])
        elif f[0] == 'of': out.append('%s.path_open(3,"f",CREAT,RW)' % NSNAME[int(f[1])])
        elif f[0] == 'od': out.append('%s.path_open(3,"sub",DIRECTORY)' % NSNAME[int(f[1])])
        elif f[0] == 'c': out.append('%s.fd_close(%s)' % (NSNAME[int(f[2])], f[1]))
        elif f[0] == 'cf': out.append('%s.fd_close(%s) [host close() fails with EIO]' % (NSNAME[int(f[2])], f[1]))
        else: out.append('%s.%s(%s)' % (NSNAME[int(f[3])], f[1], f[2]))
    return ' ; '.join(out)


def make_harness():
    return Harness(['desc.c'], 'desc')


def judge(ex, line, r, report=True):
    """run the model over an executed history; returns the model after the last step, or None if the history is not to be extended"""
    tbl = Table()
    pre = [i for i in r['info'] if i.startswith('preopen=')]
    if (not pre or not pre[0].startswith('preopen=3 ')) and line.startswith('hc,') and pre and report:
        ex.report('numbering|pre-open-shifted', line, r, 'with a standard stream missing on the host the first pre-opened directory became descriptor %s, not 3 (the numbers 0-2 stand for the host streams whether they are open or not) — history: %s' % (
            pre[0].split()[0].split('=')[1], describe(line)), describe)
        return None
    if not pre or not pre[0].startswith('preopen=3 '):
        print('MACHINERY-ERROR: pre-open was not registered as descriptor 3: %r %r' % (pre, r['san'][:5])); sys.exit(2)
    path = pre[0].split('path=', 1)[1]
    pre2 = [i for i in r['info'] if i.startswith('preopen2=')]
    if not pre2 or not pre2[0].startswith('preopen2=4 '):
        print('MACHINERY-ERROR: the second pre-open was not registered as descriptor 4: %r %r' % (pre2, r['san'][:5])); sys.exit(2)
    tbl.paths[4] = pre2[0].split('path=', 1)[1]
    ops = line.split()
    for k, (i, name, errno, det) in enumerate(r['steps']):
        bad = tbl.step(ops[k], errno, det, path)
        if bad and k == len(ops) - 1 and report:
            for call, xc, outcome, text in bad:
                ex.report('%s|%s|%s' % (call, xc.replace('live-', 'live:'), outcome), line, r, text + ' — history: ' + describe(line), describe)
    # identity of live descriptors: the object a descriptor number denotes (file type, inode; observed through fd_filestat_get after
    # every step) must not change while the descriptor is live - otherwise it has come to alias something else
    probes = {}
    for inf in r['info']:
        if inf.startswith('probe '):
            w = inf.split()
            probes[int(w[1])] = dict(x.split(':', 1) for x in w[2:])
    ident = {}
    t2 = Table()
    t2.paths = dict(tbl.paths)
    for k, (i, name, errno, det) in enumerate(r['steps']):
        t2.step(ops[k], errno, det, path)
        pr = probes.get(k)
        if pr is None:
            continue
        for x in list(ident):
            if not t2.live(x):
                del ident[x]
        for xs, val in pr.items():
            x = int(xs)
            if x == 3 or not t2.live(x):      # (3 was registered without a native descriptor: nothing to stat)
                continue
            if x not in ident:
                ident[x] = val
            elif ident[x] != val and k == len(ops) - 1 and report:
                ex.report('identity|live-descriptor-denotes-another-object', line, r, 'descriptor %d denoted (filetype:inode) %s when it was opened and denotes %s after step %d although it was never closed — history: %s' % (
                    x, ident[x], val, k, describe(line)), describe)
    if crash_class(r):
        k = len(r['steps'])
        if k == len(ops) and report:
            ex.crash(line, r, 'identity-probe|fd_filestat_get', describe)
            return None
        if k != len(ops) - 1:
            # the crash must be in the last step (prefixes were explored before)
            print('MACHINERY-ERROR: history %r crashed at step %d, but its prefix passed earlier' % (line, k)); sys.exit(2)
        f = ops[k].split(',')
        call, x = ('path_open', 3) if f[0] in ('of', 'od') else ('fd_close', int(f[1])) if f[0] in ('c', 'cf') else (f[1], int(f[2]))
        if call.startswith('path_rename') and tbl.live(x):
            x = 3
        if report:
            ex.crash(line, r, '%s|%s' % (call, tbl.cls(x).replace('live-', 'live:')), describe)
        return None
    return tbl


def explore(ex, depth, uses, batch=40000):
    root = Table()
    ex.states.add(root.key())
    frontier = [('', root)]
    done_depth, sample_every = 0, 997
    for d in range(1, depth + 1):
        if ex.expired():
            ex.chk.cov['exhaustive'] = False
            break
        jobs = [((h + ' ' + op).strip()) for h, t in frontier for op in t.alphabet(uses)]
        nxt = []
        complete = True
        for b in range(0, len(jobs), batch):
            if ex.expired():
                complete = False
                break
            part = jobs[b:b + batch]
            for line, r in zip(part, ex.h.run_lines(ex.mode, part)):
                ex.note(r, outcome_of=lambda s: str(s[2]))
                t = judge(ex, line, r)
                if ex.histories % sample_every == 1:
                    ex.chk.sample({'history': describe(line), 'results': [s[2] for s in r['steps']]})
                if t is not None and t.key() not in ex.states:
                    ex.states.add(t.key())
                    nxt.append((line, t))
        if not complete:
            ex.chk.cov['exhaustive'] = False
            break
        done_depth = d
        ex.chk.cov.setdefault('histories_per_depth', {})[str(d)] = len(jobs)
        frontier = nxt
        print('depth %d: %d histories, %d new states, %.0fs' % (d, len(jobs), len(nxt), time.time() - ex.chk.t0)); sys.stdout.flush()
    return done_depth


def main(tier):
    if tier in ('replay', '--replay'):
        res = replay_main(sys.argv[2], make_harness)
        rec = json.load(open(sys.argv[2]))
        ex = Explorer('C13', 'quick', None, 'desc', 'c13.py')
        rejected = []
        ex.report = lambda key, line, r, what, *a, **k: rejected.append(print('  MODEL REJECTS [%s]: %s' % (key, what)))
        ex.crash = lambda line, r, prefix, *a: rejected.append(print('  MODEL REJECTS [%s|%s]: sanitizer report inside wasi.c' % (prefix, crash_class(r)[0])))
        judge(ex, rec['history'], res)
        print('REPLAY: %s' % ('the table model rejects this history' if rejected else 'history is accepted by the table model on the current tree'))
        return 1 if rejected else 0
    h, rc_ = harness_or_violation('C13', tier, make_harness)
    if h is None:
        return rc_
    ex = Explorer('C13', tier, h, 'desc', 'c13.py')
    ex.deadline = time.time() + (200 if tier == 'quick' else 1500)
    # which of the calls wasi.c leaves unimplemented: they answer NOSYS on a live descriptor and are outside the alphabet
    probe = ['of,0 u,%s,5,0' % s for s in STUBS]
    uses, unimpl = list(USES), []
    for s, r in zip(STUBS, h.run_lines('desc', probe)):
        ex.note(r, outcome_of=lambda s: str(s[2]))
        if crash_class(r) is None and r['steps'][-1][2] == ENOSYS:
            unimpl.append(s)
        else:
            uses.append(s)
    depth = explore(ex, 4 if tier == 'quick' else 7, uses)
    rule = ('breadth-first search over histories of path_open(file|directory), fd_close(x) and one of %d descriptor-taking calls on x, '
            'x in {0,1,2,pre-open,every issued number,next unissued,1000,2^32-1}, both name spaces; one history per distinct table state '
            '(number, kind, live, directory stream open) is extended; distinct_nontrivial = distinct (call, errno) pairs observed' % len(uses))
    return ex.finish(rule, {'max_depth_completed': depth, 'unimplemented_calls_answering_NOSYS': unimpl, 'calls_in_alphabet': uses},
                     ['live standard streams 0-2 are not passed to fd_readdir (the statement speaks about closed and never-issued numbers)',
                      'calls that answer NOSYS for every descriptor (unimplemented in wasi.c) are outside the alphabet',
                      'errno of calls on live descriptors is not judged here (C12/C14 do that), except pre-open reporting and writes to 1/2'])


if __name__ == '__main__':
    sys.exit(main(sys.argv[1] if len(sys.argv) > 1 else 'quick'))
