#!/usr/bin/env python3
"""C18 Concurrent growth of a shared memory: linearizable and race-free.

Stateless model checking of the REAL code: a module with a shared memory exporting grow/size/store/load is built with
lib/wasmenc.py, translated by w2c2 (built from vcommon.REPO), compiled with the pthread renames (lib/mclib.RENAMES) and run
under mc/sched.c.  One child instance (generated mNewChild) per model thread.  Every interleaving of the mutex operations
inside wasmMemoryGrow and of the harness' yields up to the preemption bound is executed in three builds (plain, TSan, ASan).

usage: c18.py quick|thorough      |      c18.py replay <replays/C18-*.json>"""
import itertools, json, os, sys, time
sys.path.insert(0, os.path.join(os.path.dirname(os.path.abspath(__file__)), '..', 'lib'))
from vcommon import *
from wasmenc import *
import batch, mclib

PAGE = 65536          # restated from the spec, not read from w2c2_base.h
FAILED = 0xFFFFFFFF


def module(init, mx, imported=False):
    m = Module()
    if imported:        # the module imports its shared memory (env.mem); the embedder (harness) allocates it
        m.imports.append(('env', 'mem', 2, (init, mx, True)))
    else:
        m.mems.append((init, mx, True))
    m.add_func('i', 'i', (), local_get(0) + memory_grow(), export='grow')
    m.add_func('', 'i', (), memory_size(), export='size')
    m.add_func('ii', '', (), local_get(0) + local_get(1) + memop(0x36, 2, 0), export='store')
    m.add_func('i', 'i', (), local_get(0) + memop(0x28, 2, 0), export='load')
    m.add_func('iii', '', (), local_get(0) + local_get(1) + local_get(2) + memory_fill(), export='fill')
    m.add_func('iii', '', (), local_get(0) + local_get(1) + local_get(2) + memory_copy(), export='copy')
    return m.encode()


class NotShared(Exception):
    pass


def build(init, mx, flavours, root=None, imported=False):
    """translate + compile the harness for one memory configuration; returns {flavour: exe}, gen dir"""
    d = os.path.join(root or scratch('c18'), 'mem_%d_%d%s' % (init, mx, '_imported' if imported else ''))
    os.makedirs(d, exist_ok=True)
    rc, err = batch.translate(module(init, mx, imported), d, w2c2=mclib.w2c2_binary())
    if rc != 0:
        raise mclib.PipelineFailure('w2c2 failed on the C18 module', err)
    src = open(os.path.join(d, 'm.c')).read()
    if 'mNewChild' not in src or (not imported and 'i->m0 = parent->m0' not in src.replace('\n', ' ')):
        raise NotShared('the module declares (memory %d %d shared), but the generated NewChild does not hand the parent\'s memory to the child: every thread of the instance family would get a memory of its own' % (init, mx))
    defs = ['-DIMPORTED_MEM=1', '-DMEM_INIT=%d' % init, '-DMEM_MAX=%d' % mx] if imported else []
    exes = dict(pmap(lambda fl: (fl, mclib.build_harness(d, fl, [os.path.join(d, 'm.c'), os.path.join(mclib.MC, 'h_grow.c')], incs=[d, os.path.join(REPO, 'w2c2')], defs=defs)), flavours))
    return exes, d


# ---------------------------------------------------------------- sequential specification + oracle
def parse_obs(obs):
    """-> init dict, ops [dict(t,k,kind,arg,res,inv,ret)]"""
    init, ops, idx = None, [], {}
    for pos, ln in enumerate(obs.strip().split('\n')):
        w = ln.split()
        if w[1] == 'init':
            init = dict(x.split('=') for x in w[2:])
        elif w[1] == 'i':
            o = {'t': w[0], 'k': int(w[2]), 'kind': w[3][0], 'arg': int(w[3][1:]), 'inv': pos, 'ret': None, 'res': None}
            idx[(w[0], o['k'])] = o
            ops.append(o)
        elif w[1] == 'r':
            o = idx[(w[0], int(w[2]))]
            o['ret'], o['res'] = pos, int(w[4])
    return init, ops


def spec_apply(state, o, mx):
    """sequential spec of one operation on state=(pages, cells-tuple) -> (result, new state)"""
    pages, cells = state
    if o['kind'] == 'g':
        new = pages + o['arg']
        if new > mx or new > 65535:
            return FAILED, state
        return pages, (new, cells)
    if o['kind'] == 'z':
        return pages, state
    c = dict(cells)
    if o['kind'] in ('w', 'f'):
        c[o['arg']] = o['res']
        return o['res'], (pages, tuple(sorted(c.items())))
    if o['kind'] == 'c':
        c[o['arg']] = c.get(o['arg'] + 8, 0)
        return 0, (pages, tuple(sorted(c.items())))
    return c.get(o['arg'], 0), state


def linearizable(ops, init_pages, mx):
    n = len(ops)
    preds = [sum(1 << j for j in range(n) if ops[j]['ret'] is not None and ops[j]['ret'] < ops[i]['inv']) for i in range(n)]
    full = (1 << n) - 1
    dead = set()

    def rec(done, state):
        if done == full:
            return [state]
        if (done, state) in dead:
            return None
        for i in range(n):
            if not done >> i & 1 and preds[i] & done == preds[i]:
                r, ns = spec_apply(state, ops[i], mx)
                if r == ops[i]['res']:
                    x = rec(done | 1 << i, ns)
                    if x is not None:
                        return x
        dead.add((done, state))
        return None
    return rec(0, (init_pages, ()))


def oracle(job, o):
    init_pages, mx = job['case']['mem'][:2]
    fails = []
    if o['status'] != 'ok':
        return [('terminal|' + o['status'], 'threads did not all terminate: %s' % o['end'])]
    init, ops = parse_obs(o['obs'])
    end = dict(x.split('=') for x in o['end'].split())
    # a declared maximum of 65536 pages (4 GiB) is not representable in the runtime's 32-bit byte size: 65535 is accepted as the resource
    # limit the specification permits (same cap as the reference model of C05)
    if int(init['pages']) != init_pages or int(init['max']) != min(mx, 65535) or init['shared'] != '1':
        fails.append(('instantiate|shared-memory-descriptor', 'after instantiation the memory is %s, declared (memory %d %d shared)' % (init, init_pages, mx)))
    if any(x['ret'] is None for x in ops):
        return fails + [('terminal|unfinished-operation', 'an operation never returned')]
    grows = [x for x in ops if x['kind'] == 'g']
    succ = [x for x in grows if x['res'] != FAILED]
    olds = [x['res'] for x in succ if x['arg'] > 0]
    want_final = init_pages + sum(x['arg'] for x in succ)
    final = int(end['pages'])
    desc = ' '.join('%s:%s%d->%s' % (x['t'], x['kind'], x['arg'], 'fail' if x['res'] == FAILED and x['kind'] == 'g' else x['res']) for x in sorted(ops, key=lambda x: x['ret']))
    if len(set(olds)) != len(olds):
        fails.append(('grow|duplicate-old-size', 'two successful grows returned the same old size (%s); final pages=%d, initial %d + successful deltas = %d' % (desc, final, init_pages, want_final)))
    elif final != want_final:
        fails.append(('grow|final-pages-not-sum-of-deltas', 'final pages=%d but initial %d + successful deltas = %d (%s)' % (final, init_pages, want_final, desc)))
    if final > mx:
        fails.append(('grow|final-pages-exceed-max', 'final pages=%d > declared maximum %d (%s)' % (final, mx, desc)))
    # the byte-size field is not observable by wasm code (a shared memory starts with size = max*64K); it must at least cover the pages
    if not final * PAGE <= int(end['size']) <= mx * PAGE:
        fails.append(('grow|size-field-does-not-cover-pages', 'descriptor size=%s but pages=%d, max=%d (%s)' % (end['size'], final, mx, desc)))
    if end['data'] != 'same':
        fails.append(('grow|shared-data-moved', 'the data pointer of a shared memory changed'))
    if not fails:
        lin = linearizable(ops, init_pages, mx)
        if lin is None:
            fails.append(('grow|not-linearizable', 'no sequential order of the operations respecting real time explains the results: %s' % desc))
        elif lin[0][0] != final:
            fails.append(('grow|final-pages-not-sum-of-deltas', 'final pages=%d differ from the linearised result %d (%s)' % (final, lin[0][0], desc)))
    return fails


# ---------------------------------------------------------------- case enumeration
def programs(level, data_ok):
    ops = ['g1', 'g2', 'g0', 'g5', 'z', 'g4294967295', 'g65535']       # 2^32-1 wraps the 32-bit page sum, 65535 the 32-bit byte size: both must fail like g5 and change nothing
    if level == 'single':
        return [[o] for o in ops]
    if level == 'quick':
        p = [[o] for o in ops] + [['g1', 'z'], ['z', 'g1'], ['g1', 'g1'], ['g2', 'g1'], ['g1', 'g2'], ['g5', 'g1'], ['g0', 'g1'], ['z', 'z'], ['g4294967295', 'g1'], ['g4294967295', 'z']]
    else:
        p = [[o] for o in ops] + [list(x) for x in itertools.product(ops, repeat=2)]
    return p


def with_data(prog, tid, last):
    """append a store+load of the thread's own cell (byte 0 region / last word of the first page)"""
    a = 65532 - 8 * tid if last else 8 * tid
    return prog + ['w%d' % a, 'r%d' % a]


def make_cases(tier):
    cases = []

    rnd = [0]

    def add(mem, progs, pb):
        if not any(o[0] == 'g' for p in progs for o in p):
            return
        cases.append({'mem': list(mem), 'threads': ['.'.join(p) for p in progs], 'pb': pb, 'round': rnd[0]})
    if tier == 'thorough':
        # round 0 of the thorough tier is the complete quick tier; deeper rounds follow and are only started before the soft deadline
        cases += make_cases('quick')
        rnd[0] = 1
    if tier == 'quick':
        P = programs('quick', True)
        for a, b in itertools.combinations_with_replacement(P, 2):
            add((1, 4), [a, b], 2)
        S = programs('single', True)
        for mem in ((1, 2), (0, 3)):
            for a, b in itertools.combinations_with_replacement(S, 2):
                add(mem, [a, b], 2)
        # data accesses next to grow/size (own cells: the race in question is on the descriptor)
        for a, b in (('g1', 'z'), ('g1', 'g1'), ('g2', 'g5')):
            add((1, 4), [with_data([a], 1, False), with_data([b], 2, True)], 2)
            add((1, 4), [[a], ['w0', 'r0', b]], 2)
        # bulk operations (memory.fill / memory.copy read the memory descriptor too) next to grow
        for a in ('g1', 'g2'):
            add((1, 4), [[a], ['w24', 'f16', 'c16', 'r16']], 2)
            add((1, 4), [[a, 'z'], ['f40', 'r40']], 2)
            add((1, 4, 'imported'), [[a], ['f16', 'c8', 'r8']], 2)
        # the largest declarable maximum (65536 pages, 4 GiB reserved): must still be ONE memory for the whole instance family (plain build only:
        # the sanitizer runtimes do not take a reservation of that size)
        for a, b in (('g1', 'g1'), ('g1', 'z'), ('g65535', 'g1')):
            add((1, 65536), [with_data([a], 1, False), with_data([b], 2, False)], 2)
        # three threads, one operation each, bound 2
        for t in itertools.combinations_with_replacement(['g1', 'g2', 'z', 'g5'], 3):
            add((1, 4), [[x] for x in t], 2)
        # the module IMPORTS its shared memory (allocated by the embedder): same protocol, other code path in the emitter
        for a, b in itertools.combinations_with_replacement(S, 2):
            add((1, 4, 'imported'), [a, b], 2)
        add((1, 4, 'imported'), [['g1', 'z'], ['z', 'g1']], 2)
    else:
        P = programs('thorough', True)
        for a, b in itertools.combinations_with_replacement(P, 2):
            add((1, 4), [a, b], 3)
        rnd[0] = 2
        Q = programs('quick', True)
        for mem in ((1, 2), (0, 3)):
            for a, b in itertools.combinations_with_replacement(Q, 2):
                add(mem, [a, b], 3)
        for a, b in (('g1', 'z'), ('g1', 'g1'), ('g2', 'g5'), ('g2', 'g1'), ('g0', 'g1')):
            add((1, 4), [with_data([a], 1, False), with_data([b], 2, True)], 3)
            add((1, 4), [[a], ['w0', 'r0', b]], 3)
            add((1, 4), [[a], [b], ['w16', 'r16', 'z']], 3)
        rnd[0] = 3
        T = [['g1'], ['g2'], ['g0'], ['g5'], ['z'], ['g1', 'z'], ['g1', 'g1'], ['z', 'g1']]
        for t in itertools.combinations_with_replacement(T, 3):
            add((1, 4), list(t), 3)
        for t in itertools.combinations_with_replacement([['g1'], ['g2'], ['z'], ['g5']], 3):
            add((1, 2), list(t), 3)
            add((0, 3), list(t), 3)
    return cases


FLAVOURS = ('plain', 'tsan', 'asan')


def main(tier):
    if tier == 'replay':
        return replay_file(sys.argv[2])
    chk = Check('C18', 'model_checking', tier)
    budget = 150 if tier == 'quick' else 900
    deadline_at = chk.t0 + budget
    try:
        cases = make_cases(tier)
        mems = sorted(set(tuple(c['mem']) for c in cases))
        root = scratch('c18')
        built = {}
        def build_or_report(mm):
            try:
                return build(mm[0], mm[1], FLAVOURS if mm[1] < 65536 else ('plain',), root, imported=len(mm) > 2)
            except NotShared as e:
                return e
        for mem, res in zip(mems, pmap(build_or_report, mems)):
            if isinstance(res, NotShared):
                chk.violation('instantiate|child-does-not-share-the-memory|%s' % (mem,), {'kind': 'config', 'mem': list(mem), 'how_to_replay': 'python3 checks/c18.py quick'}, str(res))
                cases = [c for c in cases if tuple(c['mem']) != mem]
                continue
            built[mem] = res
        mems = [m_ for m_ in mems if m_ in built]
        jobs = []
        for c in cases:
            exes, d = built[tuple(c['mem'])]
            nops = sum(len(t.split('.')) for t in c['threads'])
            for fl in (FLAVOURS if c['mem'][1] < 65536 else ('plain',)):
                jobs.append({'case': {'mem': c['mem'], 'threads': c['threads']}, 'words': c['threads'], 'exe': exes[fl], 'flavour': fl, 'pb': c['pb'], 'db': 0, 'round': c.get('round', 0),
                             'spurious': 0, 'weight': (len(c['threads']) ** 2) * nops ** c['pb'] * {'plain': 1, 'asan': 10, 'tsan': 20}[fl]})
        def projection(o):      # what a schedule can change apart from the order of events: per-thread results and the final descriptor
            return (o['status'], tuple(sorted(l for l in o['obs'].split('\n') if ' r ' in l)), o['end'])
        mx = mclib.Matrix(chk, [REPO] + [built[m][1] for m in mems], projection=projection)
        mx.run(jobs, oracle, deadline_at)
        mx.report('checks/c18.py', lambda ex, r, key: True)
        mx.fill_coverage('case = (memory limits, one operation list per thread over {grow 1,2,0,5,2^32-1, size, i32.store/i32.load of an own cell}); every interleaving of the '
                         'scheduling points (harness yield before each operation, mutex lock/unlock inside wasmMemoryGrow) up to the preemption bound is executed on the real '
                         'translated code in a plain, a TSan and an ASan build; distinct_nontrivial = cases whose schedules produce more than one distinct '
                         '(per-thread results, final descriptor) combination - the order of events alone does not count -, i.e. the threads really collided')
        chk.cov['memory_configurations'] = [list(m) for m in mems]
        chk.cov['threads_max'] = max(len(c['threads']) for c in cases)
        chk.cov['preemption_bound'] = max(c['pb'] for c in cases)
        chk.assumptions += ['sequentially consistent scheduler: preemption only at synchronisation calls and harness yields; data races between those points are decided by ThreadSanitizer on each serial schedule',
                            'hardware atomicity of __atomic builtins and correctness of gcc/clang/TSan/ASan are trusted',
                            'schedules beyond the completed preemption bound and more than 3 threads are not covered']
    except mclib.PipelineFailure as e:
        mclib.report_pipeline_failure(chk, e, 'bin/check C18 quick')
        return chk.finish()
    except mclib.MachineryError as e:
        print('MACHINERY-ERROR C18: %s' % e)
        return 2
    return chk.finish()


def replay_file(path):
    obj = json.load(open(path))
    mem = tuple(obj['case']['mem'])
    exes, d = build(mem[0], mem[1], [obj['flavour']], imported=len(mem) > 2)
    r = mclib.replay(exes[obj['flavour']], obj['words'], obj['schedule'], spurious=obj.get('spurious', 0))
    print('case      :', json.dumps(obj['case']))
    print('flavour   :', obj['flavour'], ' schedule:', r['sched'], ' enabled-set sizes:', r['enabled'])
    print('trace     :\n' + r['trace'])
    print('observations:\n' + r['obs'])
    print('end state :', r['end'], ' status:', r['status'], ' sanitizer:', r['san'])
    if r['san']:
        print(r['stderr'][:5000])
    job = {'case': obj['case'], 'words': obj['words']}
    fails = oracle(job, {'status': r['status'], 'obs': r['obs'], 'end': r['end'], 'err': r['err']}) if r['status'] in ('ok', 'blocked') else [('terminal|' + r['status'], r['err'])]
    if r['san']:
        fails.append(mclib.classify_report(r['stderr'], [REPO, d])[:1] + ('sanitizer report',))
    for f in fails:
        print('ORACLE    :', f[0], '-', f[1])
    same = r['obs'].strip().split('\n') == obj['observed']['observations'] and r['end'] == obj['observed']['end_state']
    print('replay %s the recorded observations; key %s %s' % ('REPRODUCES' if same else 'DIFFERS FROM', obj['key'], 'still fails' if any(f[0] == obj['key'] for f in fails) else 'does not fail now'))
    return 1 if fails else 0


if __name__ == '__main__':
    sys.exit(main(sys.argv[1] if len(sys.argv) > 1 else 'quick'))
