#!/usr/bin/env python3
"""C07 Every constant keeps its exact bit pattern through the generated C text."""
import sys, os, glob, base64, zlib
sys.path.insert(0, os.path.dirname(os.path.abspath(__file__)))
from numeric import *


def build_lit_harness():
    objdir = build_w2c2('plain', objects_only=True)
    objs = [o for o in sorted(glob.glob(os.path.join(objdir, '*.o'))) if os.path.basename(o) not in ('c.o', 'main.o')]
    src = os.path.join(VERIF, 'harness', 'c07_lit.c')
    key = sha_files([src] + w2c2_sources()[0] + w2c2_sources()[1])
    exe = os.path.join(BUILD, 'c07_lit-' + key)
    if not os.path.exists(exe):
        for old in glob.glob(os.path.join(BUILD, 'c07_lit-*')):
            os.unlink(old)
        r = run(['gcc', '-O2', '-w'] + W2C2_DEFS + ['-I', os.path.join(REPO, 'w2c2'), src] + objs + ['-o', exe, '-lpthread', '-lm'])
        if r.returncode != 0:
            raise RuntimeError('cannot build c07 harness: ' + r.stderr.decode()[-2000:])
    return exe


def e1(chk, tier):
    exe = build_lit_harness()
    jobs = [['f64'], ['i64']]
    if tier == 'thorough':
        shards = 64
        for t in ('f32', 'i32'):
            for s in range(shards):
                jobs.append([t, str((s << 32) // shards), str(((s + 1) << 32) // shards)])
    else:
        jobs += [['f32q'], ['i32q']]

    def work(args):
        r = run([exe] + args, timeout=7200)
        return args, r.returncode, r.stdout.decode(errors='replace')
    tot = {'evals': 0, 'bad': 0, 'nonint': 0}
    per = {}
    for args, rc, out in pmap(work, jobs):
        done = [l for l in out.splitlines() if l.startswith('LITDONE')]
        if not done:
            chk.violation('E1|machinery|%s' % args[0], {'kind': 'literal', 'args': args, 'out': out[-500:]}, 'literal harness died: rc=%d' % rc)
            chk.cov['exhaustive'] = False
            continue
        for k in tot:
            v = int(done[0].split(k + '=')[1].split()[0])
            tot[k] += v
            per.setdefault(args[0], {}).setdefault(k, 0)
            per[args[0]][k] += v
        seen = set()
        for l in out.splitlines():
            if l.startswith('LITMISMATCH'):
                typ = l.split('type=')[1].split()[0]
                bits = int(l.split('bits=')[1].split()[0], 16)
                text = l.split('text=')[1]
                # class of the failing literal: type + literal form
                form = 'INFINITY' if 'INFINITY' in text else 'reinterpret' if 'reinterpret' in text else '-0.f' if text.startswith('-0.f') else 'decimal'
                nan = (typ == 'f' and (bits & 0x7fffffff) > 0x7f800000) or (typ == 'F' and (bits & 0x7fffffffffffffff) > 0x7ff0000000000000)
                key = 'E1|%s|%s|%s' % (typ, form, 'nan' if nan else 'number')
                if key in seen:
                    continue
                seen.add(key)
                chk.violation(key, {'kind': 'literal', 'type': typ, 'bits': '%x' % bits, 'line': l, 'replay_module': 'c07.py'}, l)
    chk.add(evaluations=tot['evals'])
    chk.cov['E1_literal_evaluator'] = per
    return tot


def sig_patterns(width, n):
    allm = (1 << width) - 1
    p = [0, allm, 1, 1 << (width - 1), (1 << (width - 1)) | 1, 0x5555555555555555 & allm, 0x2aaaaaaaaaaaaaaa & allm, allm - 1]
    if width == 52:
        p += [1 << 23, 1 << 22, (1 << 23) - 1, allm ^ ((1 << 23) - 1), 1 << 29, 1 << 28]
    return p[:n]


def e2(chk, tier):
    """constants through the whole pipeline in three positions, compiled by gcc and clang"""
    w2c2 = build_w2c2('plain')
    consts = []  # (type, bits)
    f32p = sig_patterns(23, 8 if tier == 'quick' else 8)
    f64p = sig_patterns(52, 6 if tier == 'quick' else 14)
    for se in range(512):
        for s in f32p:
            consts.append(('f', (se << 23) | s))
    estep = 1 if tier == 'thorough' else 4
    for se in list(range(0, 4096, estep)) + [2047, 4095, 2046, 1, 2049, 1023, 1024, 3071]:
        for s in f64p:
            consts.append(('F', (se << 52) | s))
    consts += [('f', b) for b in f32_special()] + [('F', b) for b in f64_special()]
    consts += [('i', b) for b in a32()] + [('I', b) for b in a64()]
    consts = sorted(set(consts))
    jobs = []
    REI = {'f': (0xbc, 'i'), 'F': (0xbd, 'I')}
    for part in chunks(consts, 2500):
        m = Module(); cases = []
        for k, (t, b) in enumerate(part):
            if t in REI:
                body = const(t, b) + numop(REI[t][0]); rt = REI[t][1]
            else:
                body = const(t, b); rt = t
            m.add_func('', rt, (), body, export='f%d' % k)
            cases.append(Case('f%d' % k, '', rt, 0, -1, 'body %s.const %#x' % (TNAME[TCH[t]], b)))
        bt = Batch(m.encode(), cases, [('explicit', [()])])
        jobs.append(('E2-body-clang', bt, {'cc': 'clang', 'cflags': ('-O0',)}))
        jobs.append(('E2-body-gcc', bt, {'cc': 'gcc', 'cflags': ('-O1',)}))
    # global initialisers: every special-class constant as a defined global with a getter
    gl = [('f', b) for b in f32_special()] + [('F', b) for b in f64_special()] + [('i', b) for b in a32()] + [('I', b) for b in a64()]
    gl += [('F', (se << 52) | s) for se in (0, 1, 2046, 2047, 2048, 4094, 4095) for s in sig_patterns(52, 14)]
    gl += [('f', (se << 23) | s) for se in (0, 1, 254, 255, 256, 510, 511) for s in sig_patterns(23, 8)]
    gl = sorted(set(gl))
    for part in chunks(gl, 400):
        m = Module(); cases = []
        for k, (t, b) in enumerate(part):
            m.globals.append((TCH[t], k % 2, const(t, b)))
        for k, (t, b) in enumerate(part):
            if t in REI:
                body = global_get(k) + numop(REI[t][0]); rt = REI[t][1]
            else:
                body = global_get(k); rt = t
            m.add_func('', rt, (), body, export='f%d' % k)
            cases.append(Case('f%d' % k, '', rt, 0, -1, 'global-init %s.const %#x' % (TNAME[TCH[t]], b)))
        bt = Batch(m.encode(), cases, [('explicit', [()])])
        jobs.append(('E2-global-clang', bt, {'cc': 'clang', 'cflags': ('-O0',)}))
        jobs.append(('E2-global-gcc', bt, {'cc': 'gcc', 'cflags': ('-O1',)}))
    # segment offsets (i32 constants, in bounds): data segments into 2 pages, element segments into a 70 000 slot table
    offs = sorted({0, 1, 2, 3, 7, 63, 64, 127, 128, 129, 255, 256, 16383, 16384, 16385, 32767, 32768, 65535 - 3, 65535, 65536, 65537, 99999, 131072 - 4, 131072 - 5})
    m = Module(); cases = []
    m.mems.append((2, 2))
    for k, o in enumerate(offs):
        m.datas.append(('active', 0, i32_const(o), bytes([0xa0 + (k % 64), 0x11, 0x22, 0x33])))
    for k, o in enumerate(offs):
        m.add_func('', 'i', (), i32_const(o) + memop(0x2d), export='f%d' % k)   # i32.load8_u of the first byte
        cases.append(Case('f%d' % k, '', 'i', 0, -1, 'data-offset i32.const %d' % o))
    # later segments overwrite earlier ones where they overlap: expected values come from the reference interpreter
    jobs.append(('E2-dataoff', Batch(m.encode(), cases, [('explicit', [()])]), {'cc': 'gcc', 'cflags': ('-O1',)}))
    eoffs = [0, 1, 2, 127, 128, 16383, 16384, 65535, 65536, 69990]
    m = Module(); cases = []
    m.tables.append((70000, None))
    ti = m.type('', 'i')
    for k, o in enumerate(eoffs):
        m.add_func('', 'i', (), i32_const(1000 + k))
    for k, o in enumerate(eoffs):
        m.elems.append((0, i32_const(o), [k]))
    for k, o in enumerate(eoffs):
        m.add_func('', 'i', (), i32_const(o) + call_indirect(ti), export='f%d' % k)
        cases.append(Case('f%d' % k, '', 'i', 0, -1, 'elem-offset i32.const %d' % o))
    jobs.append(('E2-elemoff', Batch(m.encode(), cases, [('explicit', [()])]), {'cc': 'gcc', 'cflags': ('-O1',)}))

    def work(job):
        label, b, kw = job
        return run_batch(b, w2c2=w2c2, **kw)
    n = 0
    for (label, b, kw), res in zip(jobs, pmap(work, jobs)):
        before = chk.cov['distinct_nontrivial']
        ok = report(chk, b, res, label, extra=kw)
        chk.cov['distinct_nontrivial'] = before  # zero-input programs: counted below instead
        if ok:
            n += res['funcs']
        else:
            chk.cov['exhaustive'] = False
    chk.cov['E2_pipeline_constants'] = n
    return n


def main(tier):
    if tier == 'replay':
        import json
        r = json.load(open(sys.argv[2]))
        exe = build_lit_harness()
        b = int(r['bits'], 16)
        t = {'f': 'f32', 'i': 'i32'}.get(r['type'])
        if t:
            out = run([exe, t, str(b), str(b + 1)]).stdout.decode()
        else:
            out = run([exe, 'f64' if r['type'] == 'F' else 'i64']).stdout.decode()
        print(out)
        bad = 'LITMISMATCH' in out
        print('REPLAY: %s' % ('violation reproduced' if bad else 'case passes on the current tree'))
        return 1 if bad else 0
    chk = Check('C07', 'exploration', tier)
    build_ref()
    tot = e1(chk, tier)
    n2 = e2(chk, tier)
    chk.cov['distinct_nontrivial'] = tot['nonint'] + n2
    chk.cov['rule'] = ('E1: the real immediate reader + the real literal writer are run natively on every bit pattern of the stated sets '
                       '(thorough: all 2^32 f32 and all 2^32 i32; f64: 4096 sign/exponent x ~300 structured significands; i64 structured) and the '
                       'emitted C literal is evaluated by an own evaluator and compared with the input bits; E2: ~30k constants are put through the '
                       'whole pipeline (function body, global initialiser, data/element segment offset), compiled by gcc and clang and read back, '
                       'which also validates the evaluator against the compilers. distinct_nontrivial = constants whose literal is not a plain '
                       'non-negative integer (E1) + constants read back through a compiler (E2)')
    chk.sample({'const': 'f64.const 0x7ff8000000000000 -> literal text evaluated'})
    chk.sample({'const': 'f32.const 0x7fa00000 in a function body, read back through i32.reinterpret_f32'})
    chk.assumptions += ['strtod/glibc and the compilers convert decimal literals with correct rounding', 'x86-64 SSE: moving a float does not quieten a signalling NaN']
    return chk.finish()


if __name__ == '__main__':
    sys.exit(main(sys.argv[1] if len(sys.argv) > 1 else 'quick'))
