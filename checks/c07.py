#!/usr/bin/env python3
"""C07 Every constant keeps its exact bit pattern through the generated C text."""
import sys, os, glob, base64, zlib
sys.path.insert(0, os.path.dirname(os.path.abspath(__file__)))
from numeric import *


def build_lit_harness():
    objdir = build_w2c2('plain', objects_only=True)
    objs = [o for o in sorted(glob.glob(os.path.join(objdir, '*.o'))) if os.path.basename(o) not in ('c.o', 'main.o')]
    src = os.path.join(VERIF, 'harness', 'c07_lit.c')
    key = sha_files([src] + w2c2_sources()[0] + w2c2_sources()[1])
    exe = os.path.join(BUILD, 'c07_lit-' + key)
    if not os.path.exists(exe):
        for old in glob.glob(os.path.join(BUILD, 'c07_lit-*')):
            os.unlink(old)
        r = run(['gcc', '-O2', '-w'] + W2C2_DEFS + ['-I', os.path.join(REPO, 'w2c2'), src] + objs + ['-o', exe, '-lpthread', '-lm'])
        if r.returncode != 0:
            raise RuntimeError('cannot build c07 harness: ' + r.stderr.decode()[-2000:])
    return exe


def e1(chk, tier):
    exe = build_lit_harness()
    jobs = [['f64'], ['i64']]
    if tier == 'thorough':
        shards = 64
        for t in ('f32', 'i32'):
            for s in range(shards):
                jobs.append([t, str((s << 32) // shards), str(((s + 1) << 32) // shards)])
    else:
        jobs += [['f32q'], ['i32q']]

    def work(args):
        r = run([exe] + args, timeout=7200)
        return args, r.returncode, r.stdout.decode(errors='replace')
    tot = {'evals': 0, 'bad': 0, 'nonint': 0}
    per = {}
    for args, rc, out in pmap(work, jobs):
        done = [l for l in out.splitlines() if l.startswith('LITDONE')]
        if not done:
            chk.violation('E1|machinery|%s' % args[0], {'kind': 'literal', 'args': args, 'out': out[-500:]}, 'literal harness died: rc=%d' % rc)
            chk.cov['exhaustive'] = False
            continue
        for k in tot:
            v = int(done[0].split(k + '=')[1].split()[0])
            tot[k] += v
            per.setdefault(args[0], {}).setdefault(k, 0)
            per[args[0]][k] += v
        seen = set()
        for l in out.splitlines():
            if l.startswith('LITMISMATCH'):
                typ = l.split('type=')[1].split()[0]
                bits = int(l.split('bits=')[1].split()[0], 16)
                text = l.split('text=')[1]
                # class of the failing literal: type + literal form
                form = 'INFINITY' if 'INFINITY' in text else 'reinterpret' if 'reinterpret' in text else '-0.f' if text.startswith('-0.f') else 'decimal'
                nan = (typ == 'f' and (bits & 0x7fffffff) > 0x7f800000) or (typ == 'F' and (bits & 0x7fffffffffffffff) > 0x7ff0000000000000)
                key = 'E1|%s|%s|%s' % (typ, form, 'nan' if nan else 'number')
                if key in seen:
                    continue
                seen.add(key)
                chk.violation(key, {'kind': 'literal', 'type': typ, 'bits': '%x' % bits, 'line': l, 'replay_module': 'c07.py'}, l)
    chk.add(evaluations=tot['evals'])
    chk.cov['E1_literal_evaluator'] = per
    return tot


def sig_patterns(width, n):
    allm = (1 << width) - 1
    p = [0, allm, 1, 1 << (width - 1), (1 << (width - 1)) | 1, 0x5555555555555555 & allm, 0x2aaaaaaaaaaaaaaa & allm, allm - 1]
    if width == 52:
        p += [1 << 23, 1 << 22, (1 << 23) - 1, allm ^ ((1 << 23) - 1), 1 << 29, 1 << 28]
    return p[:n]


def e2(chk, tier):
    """constants through the whole pipeline in three positions, compiled by gcc and clang"""
    w2c2 = build_w2c2('plain')
    consts = []  # (type, bits)
    f32p = sig_patterns(23, 8 if tier == 'quick' else 8)
    f64p = sig_patterns(52, 6 if tier == 'quick' else 14)
    for se in range(512):
        for s in f32p:
            consts.append(('f', (se << 23) | s))
    estep = 1 if tier == 'thorough' else 4
    for se in list(range(0, 4096, estep)) + [2047, 4095, 2046, 1, 2049, 1023, 1024, 3071]:
        for s in f64p:
            consts.append(('F', (se << 52) | s))
    consts += [('f', b) for b in f32_special()] + [('F', b) for b in f64_special()]
    consts += [('i', b) for b in a32()] + [('I', b) for b in a64()]
    consts = sorted(set(consts))
    jobs = []
    REI = {'f': (0xbc, 'i'), 'F': (0xbd, 'I')}
    for part in chunks(consts, 2500):
        m = Module(); cases = []
        for k, (t, b) in enumerate(part):
            if t in REI:
                body = const(t, b) + numop(REI[t][0]); rt = REI[t][1]
            else:
                body = const(t, b); rt = t
            m.add_func('', rt, (), body, export='f%d' % k)
            cases.append(Case('f%d' % k, '', rt, 0, -1, 'body %s.const %#x' % (TNAME[TCH[t]], b)))
        bt = Batch(m.encode(), cases, [('explicit', [()])])
        jobs.append(('E2-body-clang', bt, {'cc': 'clang', 'cflags': ('-O0',)}))
        jobs.append(('E2-body-gcc', bt, {'cc': 'gcc', 'cflags': ('-O1',)}))
    # global initialisers: every special-class constant as a defined global with a getter
    gl = [('f', b) for b in f32_special()] + [('F', b) for b in f64_special()] + [('i', b) for b in a32()] + [('I', b) for b in a64()]
    gl += [('F', (se << 52) | s) for se in (0, 1, 2046, 2047, 2048, 4094, 4095) for s in sig_patterns(52, 14)]
    gl += [('f', (se << 23) | s) for se in (0, 1, 254, 255, 256, 510, 511) for s in sig_patterns(23, 8)]
    gl = sorted(set(gl))
    for part in chunks(gl, 400):
        m = Module(); cases = []
        for k, (t, b) in enumerate(part):
            m.globals.append((TCH[t], k % 2, const(t, b)))
        for k, (t, b) in enumerate(part):
            if t in REI:
                body = global_get(k) + numop(REI[t][0]); rt = REI[t][1]
            else:
                body = global_get(k); rt = t
            m.add_func('', rt, (), body, export='f%d' % k)
            cases.append(Case('f%d' % k, '', rt, 0, -1, 'global-init %s.const %#x' % (TNAME[TCH[t]], b)))
        bt = Batch(m.encode(), cases, [('explicit', [()])])
        jobs.append(('E2-global-clang', bt, {'cc': 'clang', 'cflags': ('-O0',)}))
        jobs.append(('E2-global-gcc', bt, {'cc': 'gcc', 'cflags': ('-O1',)}))
        # the same globals behind two imported ones (module-level global index = import count + definition index): the initialisers must land in
        # the right slots, imported globals are read through the embedder's storage
        m = Module(); cases = []
        m.imports.append(('env', 'gi', 3, (I32, 0))); m.imports.append(('env', 'gF', 3, (F64, 1)))
        for k, (t, b) in enumerate(part):
            m.globals.append((TCH[t], k % 2, const(t, b)))
        for k, (t, b) in enumerate(part):
            if t in REI:
                body = global_get(k + 2) + numop(REI[t][0]); rt = REI[t][1]
            else:
                body = global_get(k + 2); rt = t
            m.add_func('', rt, (), body, export='f%d' % k)
            cases.append(Case('f%d' % k, '', rt, 0, -1, 'global-init behind 2 imported globals %s.const %#x' % (TNAME[TCH[t]], b)))
        m.add_func('', 'I', (), global_get(1) + numop(REI['F'][0]), export='f%d' % len(part))
        cases.append(Case('f%d' % len(part), '', 'I', 0, -1, 'imported f64 global read back'))
        bt = Batch(m.encode(), cases, [('explicit', [()])])
        bt.externs = [('env', 'gi', 'global', ('i', 5)), ('env', 'gF', 'global', ('F', 0x7ff4000000000001))]
        jobs.append(('E2-global-imports-gcc', bt, {'cc': 'gcc', 'cflags': ('-O1',)}))
    # segment offsets (i32 constants, in bounds): data segments into 2 pages, element segments into a 70 000 slot table
    offs = sorted({0, 1, 2, 3, 7, 63, 64, 127, 128, 129, 255, 256, 16383, 16384, 16385, 32767, 32768, 65535 - 3, 65535, 65536, 65537, 99999, 131072 - 4, 131072 - 5})
    m = Module(); cases = []
    m.mems.append((2, 2))
    for k, o in enumerate(offs):
        m.datas.append(('active', 0, i32_const(o), bytes([0xa0 + (k % 64), 0x11, 0x22, 0x33])))
    for k, o in enumerate(offs):
        m.add_func('', 'i', (), i32_const(o) + memop(0x2d), export='f%d' % k)   # i32.load8_u of the first byte
        cases.append(Case('f%d' % k, '', 'i', 0, -1, 'data-offset i32.const %d' % o))
    # later segments overwrite earlier ones where they overlap: expected values come from the reference interpreter
    jobs.append(('E2-dataoff', Batch(m.encode(), cases, [('explicit', [()])]), {'cc': 'gcc', 'cflags': ('-O1',)}))
    eoffs = [0, 1, 2, 127, 128, 16383, 16384, 65535, 65536, 69990]
    m = Module(); cases = []
    m.tables.append((70000, None))
    ti = m.type('', 'i')
    for k, o in enumerate(eoffs):
        m.add_func('', 'i', (), i32_const(1000 + k))
    for k, o in enumerate(eoffs):
        m.elems.append((0, i32_const(o), [k]))
    for k, o in enumerate(eoffs):
        m.add_func('', 'i', (), i32_const(o) + call_indirect(ti), export='f%d' % k)
        cases.append(Case('f%d' % k, '', 'i', 0, -1, 'elem-offset i32.const %d' % o))
    jobs.append(('E2-elemoff', Batch(m.encode(), cases, [('explicit', [()])]), {'cc': 'gcc', 'cflags': ('-O1',)}))

    def work(job):
        label, b, kw = job
        return run_batch(b, w2c2=w2c2, **kw)
    n = 0
    for (label, b, kw), res in zip(jobs, pmap(work, jobs)):
        before = chk.cov['distinct_nontrivial']
        ok = report(chk, b, res, label, extra=kw)
        chk.cov['distinct_nontrivial'] = before  # zero-input programs: counted below instead
        if ok:
            n += res['funcs']
        else:
            chk.cov['exhaustive'] = False
    chk.cov['E2_pipeline_constants'] = n
    return n


def comma_locale(d):
    """builds a minimal locale whose only notable feature is decimal_point "," (what de_DE, fr_FR, ... have; only C/POSIX are installed here);
    returns the environment additions or None if localedef cannot do it"""
    import string
    u = lambda cs: ';'.join('<U%04X>' % ord(c) for c in cs)
    with open(os.path.join(d, 'charmap'), 'w') as f:
        f.write('<code_set_name> ASCII7\n<comment_char> %\n<escape_char> /\n<mb_cur_min> 1\n<mb_cur_max> 1\nCHARMAP\n' +
                ''.join('<U%04X> /x%02x\n' % (i, i) for i in range(128)) + 'END CHARMAP\n')
    with open(os.path.join(d, 'vv_VV.src'), 'w') as f:
        f.write('comment_char %\nescape_char /\nLC_CTYPE\nupper ' + u(string.ascii_uppercase) + '\nlower ' + u(string.ascii_lowercase) + '\ndigit ' + u(string.digits) +
                '\nspace ' + u(' \t\n\v\f\r') + '\nblank ' + u(' \t') + '\nxdigit ' + u(string.digits + 'abcdefABCDEF') +
                '\ntoupper ' + ';'.join('(<U%04X>,<U%04X>)' % (ord(c), ord(c.upper())) for c in string.ascii_lowercase) +
                '\ntolower ' + ';'.join('(<U%04X>,<U%04X>)' % (ord(c), ord(c.lower())) for c in string.ascii_uppercase) +
                '\nEND LC_CTYPE\nLC_NUMERIC\ndecimal_point "<U002C>"\nthousands_sep ""\ngrouping -1\nEND LC_NUMERIC\n')
    r = run(['localedef', '-c', '--no-archive', '-f', os.path.join(d, 'charmap'), '-i', os.path.join(d, 'vv_VV.src'), os.path.join(d, 'vv_VV')])
    if not os.path.isdir(os.path.join(d, 'vv_VV')):
        return None
    return {'LOCPATH': d, 'LC_ALL': 'vv_VV', 'LANG': 'vv_VV'}


def e4(chk, tier):
    """the emitted text must not depend on the environment or on how the translator was built: the same module of constants is translated
    by (a) the check's own build, (b) the same binary under a locale with a decimal comma, (c) the translator built the PROJECT's way
    (cmake on w2c2/CMakeLists.txt, default build type and flags); all outputs must be byte-identical"""
    from batch import translate
    w2c2 = build_w2c2('plain')
    consts = [('f', b) for b in f32_special()] + [('F', b) for b in f64_special()] + [('i', b) for b in a32()] + [('I', b) for b in a64()]
    consts += [('f', (se << 23) | s) for se in (0, 1, 2, 126, 127, 128, 254, 256, 257, 383, 510) for s in sig_patterns(23, 8)]        # incl. f32 subnormals of both signs
    consts += [('F', (se << 52) | s) for se in (0, 1, 1022, 1023, 1024, 2046, 2048, 2049, 3071, 4094) for s in sig_patterns(52, 6)]
    consts = sorted(set(consts))
    m = Module()
    for k, (t, b) in enumerate(consts):
        m.globals.append((TCH[t], k % 2, const(t, b)))
        m.add_func('', t, (), const(t, b), export='f%d' % k)
    wasm = m.encode()

    def outputs(binary, env=None):
        wd = scratch('c07e4')
        wp = os.path.join(wd, 'm.wasm')
        open(wp, 'wb').write(wasm)
        e = dict(os.environ)
        for k in ('LC_ALL', 'LANG', 'LC_NUMERIC', 'LOCPATH'):
            e.pop(k, None)
        e.update(env or {})
        r = run([binary, wp, os.path.join(wd, 'm.c')], env=e, timeout=300)
        if r.returncode != 0:
            return ('failed', r.stderr.decode(errors='replace')[-300:])
        return (open(os.path.join(wd, 'm.h')).read(), open(os.path.join(wd, 'm.c')).read())
    base = outputs(w2c2)
    if base[0] == 'failed':
        chk.violation('E4|translate', {'kind': 'config', 'stderr': base[1]}, 'E4 base translation failed: ' + base[1])
        return 0
    ran = {'own build, C locale': len(consts)}

    def first_diff(a, b):
        la, lb = (a[0] + a[1]).split('\n'), (b[0] + b[1]).split('\n')
        for x, y in zip(la, lb):
            if x != y:
                return 'expected %r, got %r' % (x[:120], y[:120])
        return 'different number of lines'
    locdir = scratch('c07loc')
    lenv = comma_locale(locdir)
    if lenv:
        o = outputs(w2c2, lenv)
        ran['own build, locale with decimal comma'] = len(consts)
        if o != base:
            chk.violation('E4|locale|decimal-comma', {'kind': 'config', 'env': lenv, 'diff': first_diff(base, o) if o[0] != 'failed' else o[1], 'wasm_hex': wasm.hex()[:200000]},
                          'translating under a locale whose decimal point is a comma (LC_ALL=vv_VV) changes the emitted C: ' + (first_diff(base, o) if o[0] != 'failed' else o[1]))
    else:
        chk.cov['E4_locale_part'] = 'not run: localedef could not build a test locale'
    # the project's own build
    bd = scratch('c07cmake')
    r = run(['cmake', '-G', 'Ninja', '-S', os.path.join(REPO, 'w2c2'), '-B', bd], timeout=600)
    r2 = run(['cmake', '--build', bd, '--target', 'w2c2'], timeout=1200) if r.returncode == 0 else r
    exe = os.path.join(bd, 'w2c2')
    if r2.returncode != 0 or not os.path.exists(exe):
        chk.violation('E4|cmake-build-fails', {'kind': 'config', 'stderr': (r.stderr + r2.stderr).decode(errors='replace')[-1500:]}, 'the project\'s own cmake build of the translator fails')
    else:
        o = outputs(exe)
        ran['project cmake build (default type and flags), C locale'] = len(consts)
        if o != base:
            chk.violation('E4|build|cmake-default-differs', {'kind': 'config', 'diff': first_diff(base, o) if o[0] != 'failed' else o[1], 'wasm_hex': wasm.hex()[:200000]},
                          'the translator built with the project\'s CMakeLists (default build type) emits different C than the -O1 build of the same sources: ' +
                          (first_diff(base, o) if o[0] != 'failed' else o[1]))
    chk.cov['E4_environment_and_build_independence'] = ran
    return sum(ran.values())


def main(tier):
    if tier == 'replay':
        import json
        r = json.load(open(sys.argv[2]))
        exe = build_lit_harness()
        b = int(r['bits'], 16)
        t = {'f': 'f32', 'i': 'i32'}.get(r['type'])
        if t:
            out = run([exe, t, str(b), str(b + 1)]).stdout.decode()
        else:
            out = run([exe, 'f64' if r['type'] == 'F' else 'i64']).stdout.decode()
        print(out)
        bad = 'LITMISMATCH' in out
        print('REPLAY: %s' % ('violation reproduced' if bad else 'case passes on the current tree'))
        return 1 if bad else 0
    chk = Check('C07', 'exploration', tier)
    build_ref()
    tot = e1(chk, tier)
    n2 = e2(chk, tier)
    n4 = e4(chk, tier)
    chk.add(evaluations=n4)
    chk.cov['distinct_nontrivial'] = tot['nonint'] + n2
    chk.cov['rule'] = ('E1: the real immediate reader + the real literal writer are run natively on every bit pattern of the stated sets '
                       '(thorough: all 2^32 f32 and all 2^32 i32; f64: 4096 sign/exponent x ~300 structured significands; i64 structured) and the '
                       'emitted C literal is evaluated by an own evaluator and compared with the input bits; E2: ~30k constants are put through the '
                       'whole pipeline (function body, global initialiser, data/element segment offset), compiled by gcc and clang and read back, '
                       'which also validates the evaluator against the compilers; E4: a module of ~1 500 constants translated by the own build, by the same binary under a '
                       'decimal-comma locale and by the project\'s own cmake build must give byte-identical C. distinct_nontrivial = constants whose literal is not a plain '
                       'non-negative integer (E1) + constants read back through a compiler (E2)')
    chk.sample({'const': 'f64.const 0x7ff8000000000000 -> literal text evaluated'})
    chk.sample({'const': 'f32.const 0x7fa00000 in a function body, read back through i32.reinterpret_f32'})
    chk.assumptions += ['strtod/glibc and the compilers convert decimal literals with correct rounding', 'x86-64 SSE: moving a float does not quieten a signalling NaN']
    return chk.finish()


if __name__ == '__main__':
    sys.exit(main(sys.argv[1] if len(sys.argv) > 1 else 'quick'))
