#!/usr/bin/env python3
"""C04 Direct, indirect, recursive and imported calls reach the right function; element segments."""
import sys, os, re, struct, itertools
sys.path.insert(0, os.path.dirname(os.path.abspath(__file__)))
from numeric import *

SIGS = [('', 'v'), ('i', 'i'), ('iI', 'I'), ('fiFI', 'F'), ('If', 'v'), ('iIfFiIfF', 'i'), ('', 'f')]
MARK = {'i': 'mi', 'I': 'mI', 'f': 'mf', 'F': 'mF'}


def argconst(t, k):
    if t in 'iI':
        return const(t, 10 + k)
    if t == 'f':
        return f32_const(struct.unpack('<I', struct.pack('<f', 10.5 + k))[0])
    return f64_const(struct.unpack('<Q', struct.pack('<d', 10.5 + k))[0])


def shape_module(sig, mode, kind, pre_imports, pre_defs, below, table='defined', eoff='c3'):
    """one module: exported f0 ()->i32 performs the call; every call is observable through the host trace"""
    ps, rs = SIGS[sig]
    m = Module()
    imports = []
    externs = []

    def imp(mod, nm, p, r):
        m.import_func(mod, nm, p, '' if r == 'v' else r)
        imports.append((mod, nm, p, r))
        return len(imports) - 1
    for k in range(pre_imports):
        imp('env', 'o%d' % k, '', 'v')
    h = imp('env', 'h', ps, rs)
    mk = imp('env', MARK[rs], rs, rs) if rs != 'v' else None
    if eoff == 'g':
        m.imports.append(('env', 'goff', 3, (I32, 0)))
        externs.append(('env', 'goff', 'global', ('i', 5)))
    if table == 'imported' and mode == 'indirect':
        m.imports.append(('env', 'tab', 1, (8, 8)))
        externs.append(('env', 'tab', 'table', (8, 8)))
    for k in range(pre_defs):
        m.add_func('', '', (), b'')
    if kind == 'defined':
        callee = m.add_func(ps, '' if rs == 'v' else rs, (), b''.join(local_get(i) for i in range(len(ps))) + call(h))
    else:
        callee = h
    body = b''
    for j in range(below):
        body += i32_const(1000 + j)
    for k, t in enumerate(ps):
        body += argconst(t, k)
    if mode == 'direct':
        body += call(callee)
    else:
        slot = {'c0': 0, 'c3': 3, 'g': 5}[eoff]
        ti = m.type(ps, '' if rs == 'v' else rs)
        body += i32_const(slot) + call_indirect(ti)
        if table == 'defined':
            m.tables.append((8, 8))
        off = {'c0': i32_const(0), 'c3': i32_const(3), 'g': global_get(0)}[eoff]
        m.elems.append((0, off, [callee]))
    if rs != 'v':
        body += call(mk) + DROP
    if below == 0:
        body += i32_const(7)
    for j in range(below - 1):
        body += op(0x6a)
    m.add_func('', 'i', (), body, export='f0')
    b = Batch(m.encode(), [Case('f0', '', 'i', 0, -1, 'sig=%s->%s %s callee=%s pre_imports=%d pre_defs=%d below=%d table=%s eoff=%s' % (ps, rs, mode, kind, pre_imports, pre_defs, below, table, eoff))],
              [('explicit', [()])], [], imports)
    b.externs = externs
    return b


def elem_module(table, nseg, eoff, listing):
    """probe(idx) = call_indirect ()->i32 through every slot of a 16-entry table"""
    m = Module(); imports = [('env', 'hi', '', 'i')]; externs = []
    m.import_func('env', 'hi', '', 'i')
    if eoff == 'g':
        m.imports.append(('env', 'goff', 3, (I32, 0))); externs.append(('env', 'goff', 'global', ('i', 5)))
    if table == 'imported':
        m.imports.append(('env', 'tab', 1, (16, 16))); externs.append(('env', 'tab', 'table', (16, 16)))
    else:
        m.tables.append((16, None))
    fs = [m.add_func('', 'i', (), i32_const(100 + k)) for k in range(3)]
    lists = {'one': [fs[1]], 'all': fs, 'import': [fs[2], 0, fs[0]]}[listing]
    off = {'c0': i32_const(0), 'c3': i32_const(3), 'g': global_get(0)}[eoff]
    m.elems.append((0, off, lists))
    if nseg == 2:
        m.elems.append((0, i32_const(9), [fs[0], fs[2]]))
        m.elems.append((0, i32_const(10), [fs[1]]))  # overlaps the previous one: later segment wins
    ti = m.type('', 'i')
    m.add_func('i', 'i', (), local_get(0) + call_indirect(ti), export='f0')
    b = Batch(m.encode(), [Case('f0', 'i', 'i', 0, -1, 'elem table=%s nseg=%d eoff=%s listing=%s' % (table, nseg, eoff, listing))],
              [('explicit', [(i,) for i in range(16)])], [], imports)
    b.externs = externs
    return b


def recursion_module(pre_imports):
    m = Module(); imports = []
    for k in range(pre_imports):
        m.import_func('env', 'o%d' % k, '', ''); imports.append(('env', 'o%d' % k, '', 'v'))
    m.import_func('env', 'mi', 'i', 'i'); imports.append(('env', 'mi', 'i', 'i'))
    mi = pre_imports
    base = pre_imports + 1
    fac, even, odd, faci, acc = base, base + 1, base + 2, base + 3, base + 4
    # fac(n:i64) -> i64 : n == 0 ? 1 : n * fac(n-1)
    m.add_func('I', 'I', (), local_get(0) + op(0x50) + if_('I') + i64_const(1) + ELSE + local_get(0) + local_get(0) + i64_const(1) + op(0x7d) + call(fac) + op(0x7e) + END, export='f0')
    # even/odd mutual recursion with a trace of the descent
    m.add_func('i', 'i', (), local_get(0) + op(0x45) + if_('i') + i32_const(1) + ELSE + local_get(0) + call(mi) + i32_const(1) + op(0x6b) + call(odd) + END, export='f1')
    m.add_func('i', 'i', (), local_get(0) + op(0x45) + if_('i') + i32_const(0) + ELSE + local_get(0) + i32_const(1) + op(0x6b) + call(even) + END, export='f2')
    # the same factorial through call_indirect (slot 2)
    tI = m.type('I', 'I')
    m.add_func('I', 'I', (), local_get(0) + op(0x50) + if_('I') + i64_const(1) + ELSE + local_get(0) + local_get(0) + i64_const(1) + op(0x7d) + i32_const(2) + call_indirect(tI) + op(0x7e) + END, export='f3')
    # accumulator-passing recursion with two parameters of different types: sum(n:i32, acc:i64) -> i64
    m.add_func('iI', 'I', (), local_get(0) + op(0x45) + if_('I') + local_get(1) + ELSE + local_get(0) + i32_const(1) + op(0x6b) + local_get(1) + local_get(0) + op(0xad) + op(0x7c) + call(acc) + END, export='f4')
    m.tables.append((4, 4))
    m.elems.append((0, i32_const(2), [faci]))
    ns = [(n,) for n in range(0, 8)]
    cases = [Case('f0', 'I', 'I', 0, -1, 'fac direct'), Case('f1', 'i', 'i', 0, -1, 'even/odd mutual'), Case('f2', 'i', 'i', 0, -1, 'odd/even mutual'),
             Case('f3', 'I', 'I', 0, -1, 'fac via call_indirect'), Case('f4', 'iI', 'I', 1, -1, 'sum accumulator')]
    return Batch(m.encode(), cases, [('explicit', ns), ('explicit', [(n, a) for n in range(6) for a in (0, 1 << 40)])], [], imports)


NAMES = [('env', 'a_b'), ('env', 'a__b'), ('env', 'aXb'), ('env', 'a-b'), ('env', 'a.b'), ('env', '9a'), ('env', 'aX2Db'), ('env', 'a b'),
         ('e_v', 'ab'), ('env', 'a_'), ('env', '_a'), ('env', 'A'), ('env', 'a'), ('x', 'a$b'), ('env', 'a___b'),
         # an underscore, then characters that get escaped, then an underscore again (the escaper looks at the previous character)
         ('env', 'a_$_b'), ('env', 'f_._g'), ('env', 'x_X_y'), ('env', '_$'), ('env', '$_'), ('env', 'a_$$_b'), ('e_$_v', 'q')]


class Collision(Exception):
    pass


def header_symbols(batch, wd):
    """read the C symbol of each function import from the generated header (the scheme itself is not asserted)"""
    hdr = open(os.path.join(wd, 'm.h')).read()
    syms = re.findall(r'^\s*[A-Za-z0-9]+ ([A-Za-z0-9_]+)\(void\*', hdr, re.M)   # \s*: the pretty format (-p) indents the declarations
    if len(syms) != len(batch.imports):
        raise RuntimeError('cannot map imports to header symbols: %r' % syms)
    for a in range(len(syms)):
        for b in range(a + 1, len(syms)):
            if syms[a] == syms[b]:
                raise Collision('%s.%s|%s.%s' % (batch.imports[a][0], batch.imports[a][1], batch.imports[b][0], batch.imports[b][1]), syms[a])
    batch.imports = [tuple(list(i[:4]) + [s]) for i, s in zip(batch.imports, syms)]


def names_module(names):
    m = Module(); imports = []
    for mod, nm in names:
        m.import_func(mod, nm, '', 'i'); imports.append((mod, nm, '', 'i'))
    cases = []
    for k in range(len(names)):
        m.add_func('', 'i', (), call(k), export='f%d' % k)
        cases.append(Case('f%d' % k, '', 'i', 0, -1, 'import name %s.%s' % names[k]))
    b = Batch(m.encode(), cases, [('explicit', [()])], [], imports)
    b.post_translate = header_symbols
    return b


def main(tier):
    if tier == 'replay':
        import json
        r = json.load(open(sys.argv[2]))
        b = names_module([tuple(n) for n in r['names']])
        try:
            res = run_batch(b)
        except Collision as e:
            print('collision:', e.args); print('REPLAY: violation reproduced'); return 1
        print(res.get('done'), res.get('mismatch_lines')); print('REPLAY: case passes on the current tree' if res.get('done') and not res.get('mismatch_lines') else 'REPLAY: violation reproduced')
        return 0 if res.get('done') and not res.get('mismatch_lines') else 1
    chk = Check('C04', 'exploration', tier)
    w2c2 = build_w2c2('plain'); build_ref()
    jobs = []
    sigs = range(len(SIGS))
    for sig in sigs:
        for mode in ('direct', 'indirect'):
            for kind in ('import', 'defined'):
                for pi in (0, 1, 2):
                    for pd in (0, 1, 2):
                        for below in (0, 1, 2):
                            if tier == 'quick' and not (sig in (1, 3, 5) or (pi, pd, below) in ((0, 0, 0), (2, 1, 2), (1, 2, 1))):
                                continue
                            jobs.append(('shape', shape_module(sig, mode, kind, pi, pd, below)))
    for sig in ((1, 3, 4) if tier == 'quick' else sigs):
        for kind in ('import', 'defined'):
            for table in ('defined', 'imported'):
                for eoff in ('c0', 'c3', 'g'):
                    for below in (0, 2):
                        jobs.append(('shape-table', shape_module(sig, 'indirect', kind, 1, 1, below, table, eoff)))
    for table in ('defined', 'imported'):
        for nseg in (1, 2):
            for eoff in ('c0', 'c3', 'g'):
                for listing in ('one', 'all', 'import'):
                    jobs.append(('elem', elem_module(table, nseg, eoff, listing)))
    for pi in (0, 1, 3):
        jobs.append(('recursion', recursion_module(pi)))
    jobs.append(('names', names_module(NAMES)))
    jobs.append(('names-collide', names_module([('a', '_b'), ('a_', 'b')])))

    # every module again in the pretty-printed output format (-p): the call / call_indirect / export-wrapper writers have their own branches
    jobs = [(label, b, ()) for label, b in jobs] + [(label, b, ('-p',)) for label, b in jobs if label != 'names-collide']

    def work(job):
        label, b, wargs = job
        try:
            return run_batch(b, w2c2=w2c2, w2c2_args=wargs)
        except Collision as e:
            return {'done': False, 'stage': 'collision', 'pair': e.args[0], 'symbol': e.args[1]}
        except RuntimeError as e:
            return {'done': False, 'stage': 'header', 'stderr': str(e)}
    per = {}
    for (label, b, wargs), res in zip(jobs, pmap(work, jobs)):
        label = label + ' -p' if wargs else label
        before = chk.cov['distinct_nontrivial']
        if res.get('stage') == 'collision':
            chk.violation('import-symbol-collision|' + res['pair'], {'kind': 'program', 'desc': 'two distinct function imports %s are given the same C symbol %s' % (res['pair'], res['symbol']),
                          'export': 'f0', 'params': '', 'result': 'i', 'inputs': '-', 'replay_module': 'c04.py', 'names': [list(c.desc.split()[-1].split('.', 1)) for c in b.cases]},
                          'distinct imports %s share the C symbol %s: both calls reach one host function' % (res['pair'], res['symbol']))
            chk.cov['exhaustive'] = chk.cov['exhaustive']
            continue
        ok = report(chk, b, res, label + '|' + b.cases[0].desc if label.startswith('shape') or label.startswith('elem') else label, extra={'w2c2_args': list(wargs)} if wargs else None)
        chk.cov['distinct_nontrivial'] = before
        d = per.setdefault(label, {'modules': 0, 'evaluations': 0, 'with_host_trace': 0})
        d['modules'] += 1
        if ok:
            d['evaluations'] += res['evals']
            if res['evals'] - res['skipped'] > 0:
                chk.cov['distinct_nontrivial'] += 1
        else:
            chk.cov['exhaustive'] = False
    chk.cov['families'] = per
    chk.cov['rule'] = ('one module per shape: callee signature (7) x direct/indirect x imported/defined callee x number of preceding imports (0-2) and '
                       'definitions (0-2) x extra operands below the arguments (0-2); indirect calls through defined/imported tables filled at '
                       'offset i32.const 0/3 or global.get of an imported global; element placement probed through every slot of a 16-entry table; '
                       'self/mutual recursion directly and through the table; import names stressing C-symbol mangling (symbol read from the header). '
                       'Every call is observable through the ordered host-call trace (callee identity, arguments in order, calling instance). '
                       'distinct_nontrivial = modules in which at least one call was executed and compared')
    for label, b, wargs in jobs[:2] + jobs[-4:-2]:
        chk.sample({'family': label, 'case': b.cases[0].desc})
    chk.assumptions += ['table indices stay inside initialised ranges with matching signatures (w2c2 does not check them by design)']
    return chk.finish()


if __name__ == '__main__':
    sys.exit(main(sys.argv[1] if len(sys.argv) > 1 else 'quick'))
