#!/usr/bin/env python3
"""C10 The translator is total and memory-safe on valid modules and on truncated files.
ASan+UBSan build of the translator from /repo.  (a) valid modules x option sets: exit 0, no signal, no sanitizer report.
(b) fault enumeration: EVERY proper prefix of every small module (and boundary-near prefixes of larger ones):
terminates, no sanitizer report, no SIGSEGV/SIGBUS/SIGFPE/SIGILL; exit status 0 or non-zero."""
import sys, os, glob, json, itertools, shutil, signal, subprocess, tempfile, time
sys.path.insert(0, os.path.dirname(os.path.abspath(__file__)))
from numeric import *
import wasmparse as wp
from c08 import valid_spec_modules, handbuilt
from concurrent.futures import ProcessPoolExecutor

ENV = dict(os.environ, ASAN_OPTIONS='detect_leaks=0:abort_on_error=0:exitcode=97:allocator_may_return_null=1', UBSAN_OPTIONS='print_stacktrace=0:halt_on_error=1:exitcode=96')


def classify(rc, err):
    if 'AddressSanitizer' in err or 'runtime error:' in err or 'LeakSanitizer' in err or rc in (96, 97):
        line = [l for l in err.splitlines() if 'AddressSanitizer' in l or 'runtime error:' in l]
        return 'sanitizer', (line[0] if line else err[-200:])[:300]
    if rc < 0:
        sig = -rc
        if sig == signal.SIGABRT:
            return 'abort', err.strip()[-200:]
        return 'signal', 'signal %d' % sig
    if rc == 0:
        return 'ok', ''
    return 'diag', err.strip()[-120:]


def run_w2c2(w2c2, wd, data, opts, refdata=None, timeout=120, name='m', outname=None):
    wasm = os.path.join(wd, name + '.wasm')
    with open(wasm, 'wb') as f:
        f.write(data)
    args = list(opts)
    if '-r' in args:
        ref = os.path.join(wd, 'ref.wasm')
        with open(ref, 'wb') as f:
            f.write(refdata if refdata is not None else data)
        args[args.index('-r') + 1] = ref
    out = os.path.join(wd, 'out', outname if outname is not None else name + '.c')
    os.makedirs(os.path.join(wd, 'out'), exist_ok=True)
    try:
        r = subprocess.run([w2c2] + args + [wasm, out], stdout=subprocess.PIPE, stderr=subprocess.PIPE, timeout=timeout, env=ENV, cwd=wd)
    except subprocess.TimeoutExpired:
        return 'hang', 'timeout %ds' % timeout
    return classify(r.returncode, r.stderr.decode(errors='replace'))


def reference_variants(data):
    """reference modules for -r built from the module itself by the binary rewriter: a NOP appended to the first / every second / every function body"""
    import wasmparse as wp
    out = []
    for label, pick in (('first-body-changed', lambda k: k == 0), ('every-second-body-changed', lambda k: k % 2 == 1), ('all-bodies-changed', lambda k: True)):
        hdr, secs = wp.parse(data)
        for s in secs:
            if s.id == 10:
                for k, body in enumerate(t for t in s.sized.children if isinstance(t, wp.Sized)):
                    if pick(k):
                        body.children.insert(len(body.children) - 1, wp.Raw(b'\x01'))       # nop before the final end
        out.append((label, wp.emit(hdr, secs)))
    return out


def option_sets(tier, full=False):
    if full:
        sets = []
        for p, g, m, f, t, d, c, r in itertools.product((0, 1), (0, 1), (0, 1), (0, 1, 7), (1, 4), ('arrays', 'gnu-ld'), (0, 1), (0, 1)):
            o = ['-f', str(f), '-t', str(t), '-d', d]
            if p: o.append('-p')
            if g: o.append('-g')
            if m: o.append('-m')
            if c: o.append('-c')
            if r: o += ['-r', 'REF']
            sets.append(o)
        return sets
    return [[], ['-p', '-g'], ['-m', '-f', '1', '-t', '1'], ['-f', '7', '-t', '4', '-d', 'gnu-ld'], ['-g', '-f', '1', '-t', '4'], ['-c', '-r', 'REF', '-f', '2', '-t', '2'],
            ['-p', '-m', '-g', '-d', 'gnu-ld', '-f', '1', '-t', '4', '-c', '-r', 'REF'], ['-t', '4', '-g']]


NAME_ALPHABET = [b'a', b'_', b'__', b'X', b'X41', b'a b', b'a-b', b'a_$_b', b'f_._g', b'x_X_y', b'a"b', b'a\\b', b'%s%n', b'*/', b'\xc3\xa9', b'\xe2\x82\xac', b'\xf0\x9f\x98\x80', b'\x80', b'\xff\xfe',
                 b'n' * 255, b'n' * 300, b'\xc3\xa9' * 150, b'q"' * 2500]


def name_module(nm, position):
    """a valid module with the stress name in one position: export / import module / import field / name-section function name"""
    m = Module()
    if position == 'debug-name':
        # a NON-exported function carries the name (only those get a debug symbol under -g); the exported one calls it
        m.import_func('env', 'f', '', '')
        h = m.add_func('i', 'i', (), local_get(0) + i32_const(1) + op(0x6a))
        m.add_func('i', 'i', (), local_get(0) + call(h), export='e')
        m.names = {h: nm}
        return m.encode()
    if position == 'import-global':
        m.imports.append((nm, nm, 3, (I32, 0)))
        m.add_func('', 'i', (), global_get(0), export='e')
        return m.encode()
    if position == 'import-module':
        m.import_func(nm, 'f', '', '')
    elif position == 'import-field':
        m.import_func('env', nm, '', '')
    else:
        m.import_func('env', 'f', '', '')
    m.add_func('i', 'i', (), local_get(0) + call(0), export=(nm if position == 'export' else 'e'))
    if position == 'name-section':
        m.names = {0: nm, 1: nm}
    if position == 'partial-name-section':
        m.names = {1: nm}          # the import is not named
    return m.encode()


def dead_instruction_modules():
    """every instruction of the supported set in DEAD code with nothing on the operand stack (valid: the stack is polymorphic there), behind
    each of the three ways of getting there: after `unreachable`, after `return`, after `br 0` inside a block.  The translator has to get through
    all of them - the writers consult the type stack, which has no entries there."""
    ops = []
    for code in sorted(NUMOP_NAME):
        ops.append((NUMOP_NAME[code], numop(code)))
    for code, (nm, t, w) in sorted(list(LOADS.items()) + list(STORES.items())):
        ops.append((nm, memop(code, 0, 4)))
    ops += [('memory.size', memory_size()), ('memory.grow', memory_grow()), ('memory.copy', memory_copy()), ('memory.fill', memory_fill()),
            ('memory.init', memory_init(0)), ('data.drop', data_drop(0)), ('drop', DROP), ('select', SELECT), ('local.get', local_get(0)), ('local.set', local_set(0)),
            ('local.tee', local_tee(0)), ('global.get', global_get(0)), ('global.set', global_set(0)), ('call', call(0)), ('call_indirect', call_indirect(0)),
            ('br_if', br_if(0)), ('br_table', br_table([0, 0], 0)), ('i32.const', i32_const(7)), ('f64.const', f64_const(0x4000000000000000)), ('nop', NOP),
            ('block', block(None) + END), ('loop(i32)', loop(I32) + i32_const(1) + END), ('if/else', if_(None) + ELSE + END)]
    # immediates whose bytes are themselves opcodes of structured / immediate-carrying instructions (0x0b end, 0x05 else, 0x02 block, 0x41
    # i32.const, 0x28 i32.load, 0x11 call_indirect): a dead instruction that is not decoded completely lets them be taken for instructions
    for v in (0x0b, 0x05, 0x02, 0x41, 0x28, 0x11):
        ops += [('i32.const %#x' % v, i32_const(v)), ('i64.const %#x' % v, i64_const(v)), ('i32.load offset=%#x' % v, memop(0x28, 0, v)), ('i64.store offset=%#x' % v, memop(0x37, 0, v))]
    for v in (0x0b, 0x05, 0x02):
        ops += [('local.get %d' % v, local_get(v)), ('local.set %d' % v, local_set(v)), ('global.get %d' % v, global_get(v)), ('call %d' % v, call(v)),
                ('call_indirect type %d' % v, call_indirect(v)), ('memory.init %d' % v, memory_init(v)), ('data.drop %d' % v, data_drop(v)),
                ('br_table [%d x 0]' % v, br_table([0] * v, 0))]
    ops += [('f32.const bytes 0b 41 2a 0b', f32_const(0x0b2a410b)), ('f64.const bytes 0b 05 02 41 28 11 0b 0b', f64_const(0x0b0b11284102050b)), ('i64.const sleb 8b 8b 0b', i64_const(0x2c58b))]
    widths = [4, 8, 1, 2, 1, 2, 4]
    lg = {1: 0, 2: 1, 4: 2, 8: 3}
    ops += [('memory.atomic.notify', atomic(0x00, 2, 0)), ('memory.atomic.wait32', atomic(0x01, 2, 0)), ('memory.atomic.wait64', atomic(0x02, 3, 0)), ('atomic.fence', b'\xfe\x03\x00')]
    for w in range(7):
        ops.append(('atomic.load.%d' % w, atomic(0x10 + w, lg[widths[w]], 0)))
        ops.append(('atomic.store.%d' % w, atomic(0x17 + w, lg[widths[w]], 0)))
        for g in range(7):
            ops.append(('atomic.rmw.%d.%d' % (g, w), atomic(0x1e + g * 7 + w, lg[widths[w]], 0)))
    out = []
    for how in ('unreachable', 'return', 'br'):
        m = Module()
        m.mems.append((1, 1)); m.tables.append((2, 2))
        for g_ in range(12):
            m.globals.append((I32, 1, i32_const(g_)))
            m.datas.append(('passive', 0, b'', b'abc'))
        m.datacount = True
        t0 = m.type('', '')
        assert t0 == 0
        for k_ in range(1, 13):
            m.type('i' * k_, '')                 # type indices 1..12 exist (dead call_indirect with type index 11 / 5 / 2)
        m.add_func('', '', (), b'', export='z')     # function 0: the target of the dead calls, type 0 = [] -> []
        for k_, (nm, enc) in enumerate(ops):
            # every function returns a value of its own from LIVE code behind / in front of the dead instruction, so that a dead instruction
            # that swallows the following `end` (or leaves something behind) changes what the function returns
            if how == 'unreachable':
                body = UNREACHABLE + enc + UNREACHABLE
            elif how == 'return':
                body = i32_const(1000 + k_) + RETURN + enc + UNREACHABLE
            else:
                body = block(None) + br(0) + enc + END + local_get(0) + i32_const(1000 + k_) + op(0x6a)
            m.add_func('i', 'i', [(12, I32)], body, export='d%d' % len(m.exports))
        out.append(('every instruction in dead code after %s (%d instructions)' % (how, len(ops)), m.encode()))
    dead_instruction_modules.names = [nm for nm, enc in ops]
    return out


def duplicate_name_modules():
    """name sections (used with -g) in which names occur twice and three times, in every position of the sorted order"""
    out = []
    for label, names in (('pair sorts first', ['a', 'a', 'b', 'c']), ('pair in the middle', ['a', 'b', 'b', 'c']), ('pair sorts last', ['a', 'b', 'c', 'c']),
                         ('triple', ['b', 'b', 'b', 'a']), ('two pairs', ['x', 'y', 'x', 'y']), ('all equal', ['n', 'n', 'n', 'n']), ('triple and pair', ['q', 'p', 'q', 'p', 'q'])):
        m = Module()
        for k, nm in enumerate(names):
            m.add_func('i', 'i', (), local_get(0) + i32_const(k) + op(0x6a), export=('e%d' % k if k == 0 else None))
        m.names = dict(enumerate(names))
        out.append(('duplicate debug names: %s' % label, m.encode()))
    return out


def size_modules():
    out = []
    m = Module()
    for k in range(5000):
        m.add_func('i', 'i', (), local_get(0) + i32_const(k) + op(0x6a), export='f%d' % k if k % 1000 == 0 else None)
    out.append(('size-5000-functions', m.encode()))
    m = Module()
    m.add_func('', 'i', [(60, (I32, I64, F32, F64)[k % 4]) for k in range(50)], local_get(2999) + op(0xab) if False else local_get(2996) + DROP + i32_const(1), export='f')
    out.append(('size-3000-locals', m.encode()))
    m = Module()
    m.add_func('i', 'i', (), b''.join(block(None) for _ in range(2000)) + local_get(0) + br_if(1999) + b''.join(END for _ in range(2000)) + i32_const(3), export='f')
    out.append(('size-2000-nested-blocks', m.encode()))
    m = Module()
    m.add_func('i', 'i', (), block(None) + block(None) + local_get(0) + br_table([k % 2 for k in range(10000)], 1) + END + i32_const(1) + RETURN + END + i32_const(2), export='f')
    out.append(('size-br_table-10000', m.encode()))
    m = Module()
    m.mems.append((17, None))
    m.datas.append(('active', 0, i32_const(0), bytes((k * 31) & 0xff for k in range(1 << 20))))
    m.add_func('i', 'i', (), local_get(0) + memop(0x2d), export='f')
    out.append(('size-1MiB-data', m.encode()))
    return out


def work_valid(job):
    name, data, optsets, w2c2 = job[:4]
    refdata = job[4] if len(job) > 4 else None
    wd = tempfile.mkdtemp(prefix='c10.', dir='/dev/shm')
    res = []
    try:
        for o in optsets:
            shutil.rmtree(os.path.join(wd, 'out'), ignore_errors=True)
            outname = None
            if o and o[0].startswith('OUT='):      # pseudo option: the name of the output file
                outname, o = o[0][4:], o[1:]
            pre = False
            if o and o[0] == 'PREEXISTING':         # pseudo option: the output directory already holds .c files (a re-translation, a neighbour)
                pre, o = True, o[1:]
                os.makedirs(os.path.join(wd, 'out'), exist_ok=True)
                for fn in ('other.c', 's0000000001.c', 'd0000000002.c', 'm.c'):
                    with open(os.path.join(wd, 'out', fn), 'w') as fh:
                        fh.write('/* pre-existing */\n')
            kind, msg = run_w2c2(w2c2, wd, data, o, refdata=refdata, outname=outname)
            if pre:
                o = ['output directory holds other.c, s0000000001.c, d0000000002.c, m.c'] + o
            if outname is not None:
                o = ['output file name %r' % (outname if len(outname) < 40 else outname[:20] + '...(%d characters)' % len(outname))] + o
            res.append((o, kind, msg))
    finally:
        shutil.rmtree(wd, ignore_errors=True)
    return res


def work_prefix(job):
    name, data, points, w2c2 = job[:4]
    popts = list(job[4]) if len(job) > 4 else []
    refprefix = len(job) > 5 and job[5]      # the truncated file is the REFERENCE module (-r), the module itself is complete
    wd = tempfile.mkdtemp(prefix='c10p.', dir='/dev/shm')
    counts = {}
    bad = []
    prev = None
    changes = 0
    try:
        for k in points:
            kind, msg = run_w2c2(w2c2, wd, data, popts, refdata=data[:k], timeout=60) if refprefix else run_w2c2(w2c2, wd, data[:k], popts, timeout=60)
            counts[kind] = counts.get(kind, 0) + 1
            cur = (kind, msg)
            if cur != prev:
                changes += 1
            prev = cur
            if kind in ('sanitizer', 'signal', 'hang'):
                bad.append((k, kind, msg))
    finally:
        shutil.rmtree(wd, ignore_errors=True)
    return counts, bad, changes


def main(tier):
    if tier == 'replay':
        r = json.load(open(sys.argv[2]))
        w2c2 = build_w2c2('asan')
        wd = scratch('c10r')
        data = bytes.fromhex(r['wasm_hex'])
        if r.get('prefix') is not None:
            data = data[:r['prefix']]
        kind, msg = run_w2c2(w2c2, wd, data, r.get('options', []))
        print(kind, msg)
        bad = kind in ('sanitizer', 'signal', 'hang') or (r.get('prefix') is None and kind != 'ok')
        print('REPLAY: %s' % ('violation reproduced' if bad else 'case passes on the current tree'))
        return 1 if bad else 0
    chk = Check('C10', 'fault_enumeration', tier)
    w2c2 = build_w2c2('asan')
    spec = [(os.path.basename(p), open(p, 'rb').read()) for p in valid_spec_modules()]
    hb = handbuilt()
    # ---------------- (a) valid modules x option sets
    base8 = option_sets(tier)
    full = option_sets(tier, full=True)
    jobs = []
    corpus = spec if tier == 'thorough' else spec[::6]
    for n, d in corpus:
        jobs.append((n, d, base8, w2c2))
    for n, d in hb:
        for part in chunks(full if tier == 'thorough' else full[::6], 24):
            jobs.append((n, d, part, w2c2))
    # -r with a reference module that shares all / some / none of the function bodies (the static and dynamic lists are then
    # shorter than the module) x split output
    import wasmparse as wp2
    for n, d in hb:
        for rlabel, rd in reference_variants(d):
            osets = [['-r', 'REF', '-f', str(f), '-t', str(t)] + extra for f in (0, 1, 2) for t in (1, 3) for extra in ([], ['-g'], ['-c'])]
            jobs.append(('%s with reference %s' % (n, rlabel), d, osets if tier == 'thorough' else osets[::2], w2c2, rd))
    # output file names: without extension, ending in a dot, several dots, one character, long (header and module names are derived from it)
    outnames = ['m', 'm.', 'a.b.c', 'x', 'x.c', 'generated_module_source', 'n' * 23, 'n' * 24, 'n' * 200 + '.c', 'n' * 250]
    for n, d in hb[1:2]:
        jobs.append((n, d, [['OUT=' + on] + extra for on in outnames for extra in ([], ['-f', '1', '-t', '2'])], w2c2))
    # every valid control-flow body of the C03 enumerations (plain and in dead-code / value-carrying contexts), 2 000 functions per module
    import enum_cf, c03
    S, p_, l_, r_ = enum_cf.sigma_full()
    in1 = [(0, 0)]
    for b in c03.batches_of('cf-full', S, p_, [(1, 'i'), (1, 'I')], r_, 3 if tier == 'quick' else 4, in1, [('env', 'mark', 'i', 'i')]):
        jobs.append(('all valid bodies <= N over the 33-symbol alphabet (batch of %d)' % len(b.cases), b.wasm, [[], ['-g', '-f', '7', '-t', '2']], w2c2))
    Sm, pm, lm, rm = enum_cf.sigma_mid()
    for cname, pre, suf in enum_cf.contexts():
        for b in c03.batches_of('cf-ctx', Sm, pm, [], rm, 3 if tier == 'quick' else 4, in1, [('env', 'mark', 'i', 'i')], False, (pre, suf)):
            jobs.append(('all valid fillings of context %s (batch of %d)' % (cname, len(b.cases)), b.wasm, [[]], w2c2))
    for n, d in hb[:2]:
        jobs.append((n, d, [['PREEXISTING'] + extra for extra in ([], ['-c'], ['-c', '-f', '1', '-t', '2'], ['-c', '-r', 'REF', '-f', '1'], ['-f', '1'])], w2c2))
    for n, d in dead_instruction_modules():
        jobs.append((n, d, [[], ['-p'], ['-g', '-f', '9', '-t', '3']], w2c2))
    # the name section (custom sections may stand anywhere) at every section boundary instead of at the end: read with -g before the sections
    # it talks about have been seen
    import wasmparse as wpn
    def names_for_imports_only():
        m_ = Module()
        m_.import_func('env', 'f', '', ''); m_.import_func('env', 'g', 'i', 'i')
        h_ = m_.add_func('i', 'i', (), local_get(0) + call(1))
        m_.add_func('i', 'i', (), local_get(0) + call(h_), export='e')
        m_.names = {0: 'first_import', 1: 'second_import'}       # only the imports are named: such a name section is complete as soon as the imports are known
        return m_.encode()
    for n, d in [x for x in hb if x[0] == 'hand-names'] + [('debug-name module', name_module(b'helper', 'debug-name')), ('names for the imports only', names_for_imports_only())]:
        hdr_, secs_ = wpn.parse(d)
        ns_ = [s_ for s_ in secs_ if s_.id == 0 and b''.join(c.emit() for c in s_.sized.children)[:5] == b'\x04name']
        rest_ = [s_ for s_ in secs_ if s_ not in ns_]
        if len(ns_) == 1:
            fpos = min(k_ for k_, s_ in enumerate(rest_) if s_.id == 3)          # the function section
            for pos in range(len(rest_)):
                if pos <= fpos:
                    # (one job name for all early positions: they share one cause, see known_findings.jsonl)
                    jobs.append(('%s with its name section before the function section' % n, wpn.emit(hdr_, rest_[:pos] + ns_ + rest_[pos:]), [['-g'], ['-g', '-p'], []], w2c2))
                else:
                    jobs.append(('%s with its name section at section boundary %d' % (n, pos), wpn.emit(hdr_, rest_[:pos] + ns_ + rest_[pos:]), [['-g'], ['-g', '-p', '-f', '1', '-t', '2'], []], w2c2))
    for n, d in duplicate_name_modules():
        jobs.append((n, d, [['-g'], ['-g', '-p', '-m'], ['-g', '-f', '1', '-t', '2'], []], w2c2))
    positions = ('export', 'import-module', 'import-field', 'name-section', 'partial-name-section', 'import-global', 'debug-name')
    for nm in NAME_ALPHABET:
        for pos in positions:
            jobs.append(('name %r in %s' % (nm[:12], pos), name_module(nm, pos), [[], ['-g'], ['-m', '-p'], ['-g', '-f', '1', '-t', '1']], w2c2))
    for n, d in size_modules():
        jobs.append((n, d, [[], ['-g', '-p'], ['-f', '7', '-t', '4']], w2c2))
    with ProcessPoolExecutor(NCPU) as ex:
        results = list(ex.map(work_valid, jobs, chunksize=1))
    classes = {}
    nvalid = 0
    for jb, res in zip(jobs, results):
        name, data, optsets = jb[:3]
        for o, kind, msg in res:
            nvalid += 1
            classes[kind] = classes.get(kind, 0) + 1
            if kind != 'ok':
                fam = 'name-stress' if name.startswith('name ') else 'size-stress' if name.startswith('size-') else 'valid-module'
                # key: family + what fails + the option that matters (threads with debug; otherwise the class of message)
                trig = 'g+threads' if ('-g' in o and '-t' in o and o[o.index('-t') + 1] != '1' and '-f' in o and o[o.index('-f') + 1] != '0') else ' '.join(x for x in o if not x.startswith('/'))
                key = '%s|%s|%s|%s' % (fam, name if fam != 'valid-module' else 'any', kind, trig if fam != 'valid-module' or trig == 'g+threads' else 'opts')
                if fam == 'valid-module' and trig != 'g+threads':
                    key = '%s|%s|%s|%s' % (fam, name, kind, ' '.join(o))
                chk.violation(key, {'kind': 'translator', 'module': name, 'options': o, 'class': kind, 'message': msg, 'wasm_hex': data.hex() if len(data) < 40000 else None, 'prefix': None,
                                    'replay_module': 'c10.py'}, 'valid module %s with options %s: %s %s' % (name, ' '.join(o), kind, msg))
    chk.add(evaluations=nvalid)
    # ---------------- (b) truncation points
    pjobs = []
    pcorp = spec + hb if tier == 'thorough' else spec[::6] + hb
    pcorp += [('name-section', name_module(b'abc', 'name-section'))]
    nprefix = 0
    for n, d in pcorp:
        if len(d) <= 4096:
            pts = list(range(1, len(d)))
        else:
            b = set()
            for x in wp.boundaries(d):
                for dx in (-2, -1, 0, 1, 2):
                    if 0 < x + dx < len(d):
                        b.add(x + dx)
            pts = sorted(b)
        for part in chunks(pts, 200):
            pjobs.append((n, d, part, w2c2))
        nprefix += len(pts)
        # options that switch on further parsing: -g reads the name section (and debug sections) of the truncated file
        if b'\x04name' in d:
            for po in ([['-g']] if tier == 'quick' else [['-g'], ['-g', '-f', '1', '-t', '2'], ['-g', '-p', '-m']]):
                for part in chunks(pts, 200):
                    pjobs.append((n, d, part, w2c2, po))
                nprefix += len(pts)
    # the reference module given with -r is read by the same reader: every proper prefix of it next to the complete module
    for n, d in (hb[:1] if tier == 'quick' else hb + spec[::40]):
        if len(d) <= 4096:
            pts = list(range(1, len(d)))
            for part in chunks(pts, 200):
                pjobs.append((n + ' (as -r reference)', d, part, w2c2, ['-r', 'REF', '-f', '2'], True))
            nprefix += len(pts)
    with ProcessPoolExecutor(NCPU) as ex:
        presults = list(ex.map(work_prefix, pjobs, chunksize=1))
    pclasses = {}
    changes = 0
    for pj, (counts, bad, ch) in zip(pjobs, presults):
        name, data, pts = pj[:3]
        popts = list(pj[4]) if len(pj) > 4 else []
        changes += ch
        for k, v in counts.items():
            pclasses[k] = pclasses.get(k, 0) + v
        seen = set()
        for k, kind, msg in bad:
            key = 'prefix|%s|%s' % (kind, msg.split(' in ')[0][:80] if kind == 'sanitizer' else msg)
            if key in seen:
                continue
            seen.add(key)
            chk.violation(key, {'kind': 'translator', 'module': name, 'options': popts, 'class': kind, 'message': msg, 'wasm_hex': data.hex() if len(data) < 40000 else None, 'prefix': k,
                                'replay_module': 'c10.py'}, 'prefix %d of %s (%d bytes)%s: %s %s' % (k, name, len(data), (' with options ' + ' '.join(popts)) if popts else '', kind, msg))
    chk.add(evaluations=nprefix)
    chk.cov['distinct_nontrivial'] = changes + sum(1 for j in jobs)
    chk.cov['valid_runs'] = nvalid
    chk.cov['valid_run_classes'] = classes
    chk.cov['prefix_runs'] = nprefix
    chk.cov['prefix_run_classes'] = pclasses
    chk.cov['rule'] = ('(a) every valid module of the corpus (spec-suite modules, all valid control-flow bodies of the C03 enumerations up to N = 3 (thorough 4) incl. the dead-code contexts, hand-built, name-stress: 20 names x 4 positions, size-stress: 5) x option sets '
                       '(8 representative sets each; the full 384-element option product on the hand-built modules; the hand-built modules with -r references that share all / some / no function bodies x split output; 10 output file names without / with odd extensions) must exit 0 without signal or sanitizer report; '
                       '(b) fault points = every proper prefix 0<k<len of every module <= 4 KiB (boundary +-2 for larger), modules with a name section also under -g (thorough: + -g -f 1 -t 2, -g -p -m), and every proper prefix used as the -r REFERENCE module next to the complete module: terminates, no sanitizer report, no '
                       'SIGSEGV/SIGBUS/SIGFPE/SIGILL; own abort()/assert on a truncated file is tolerated and counted. distinct_nontrivial = (module, k) whose '
                       'termination class or diagnostic differs from that of prefix k-1, plus distinct (module, option-set-group) jobs')
    chk.sample({'prefix': 'i32.0.wasm[:77]', 'class': 'diag'})
    chk.sample({'valid': 'hand-all', 'options': '-p -m -g -d gnu-ld -f 1 -t 4 -c -r REF'})
    chk.assumptions += ['ASan/UBSan build of the translator (gcc -O1); leaks are not counted (the translator exits without freeing by design)']
    return chk.finish()


if __name__ == '__main__':
    sys.exit(main(sys.argv[1] if len(sys.argv) > 1 else 'quick'))
