#!/usr/bin/env python3
"""C17 memory.atomic.wait / notify: effective address, return codes, no lost wake-ups, exact counts, no deadlock, no UAF.

E1 (emission, single thread, real pthreads): translated wait32/wait64/notify with memarg offset 0 and 16; the return code
   of a wait with timeout 0 shows which cell was examined.
E2 (protocol, stateless model checking of the REAL futex.c/list.c/map.c + w2c2_base.h under mc/sched.c): waiter and notifier
   threads of one instance family call the translated functions; all interleavings of lock/unlock/cond operations and
   harness yields up to a preemption bound, environment deviations (timeout fires early, spurious wake-up) up to their
   bound, in a plain, an ASan and (smaller bound) a TSan build.  The order in which the critical sections were entered
   (scheduler's sync log) is the linearisation that is replayed on a sequential futex model.

usage: c17.py quick|thorough      |      c17.py replay <replays/C17-*.json>"""
import itertools, json, os, re, subprocess, sys, time
sys.path.insert(0, os.path.join(os.path.dirname(os.path.abspath(__file__)), '..', 'lib'))
from vcommon import *
from wasmenc import *
import batch, mclib

A, A2, B = 64, 64 + 1024 * 4, 128      # A and A2 fall into the same bucket of the 1024-bucket map (checked on the end states), B does not
INF = -1
FIN = 1000000                          # 1 ms; the scheduler ignores the value, the environment decides when it fires
MAXCOUNT = 0xFFFFFFFF


def module():
    m = Module()
    m.mems.append((1, 1, True))
    for off in (0, 16):
        m.add_func('iiI', 'i', (), local_get(0) + local_get(1) + local_get(2) + atomic(0x01, 2, off), export='w32o%d' % off)
        m.add_func('iII', 'i', (), local_get(0) + local_get(1) + local_get(2) + atomic(0x02, 3, off), export='w64o%d' % off)
        m.add_func('ii', 'i', (), local_get(0) + local_get(1) + atomic(0x00, 2, off), export='no%d' % off)
    m.add_func('ii', '', (), local_get(0) + local_get(1) + atomic(0x17, 2, 0), export='st32')
    m.add_func('ii', '', (), local_get(0) + local_get(1) + memop(0x36, 2, 0), export='init32')
    m.add_func('iI', '', (), local_get(0) + local_get(1) + memop(0x37, 3, 0), export='init64')
    return m.encode()


def futex_srcs():
    return [os.path.join(REPO, 'futex', f) for f in ('futex.c', 'list.c', 'map.c')]


def build(flavours, root=None):
    d = os.path.join(root or scratch('c17'), 'futex')
    os.makedirs(d, exist_ok=True)
    os.makedirs(os.path.join(d, 'futex'), exist_ok=True)
    rc, err = batch.translate(module(), d, w2c2=mclib.w2c2_binary())
    if rc != 0:
        raise mclib.PipelineFailure('w2c2 failed on the C17 module', err)
    # h_futex.c includes "../futex/map.h" relative to an include dir: give it REPO/w2c2 so that ../futex resolves into REPO
    incs = [d, os.path.join(REPO, 'w2c2')]
    srcs = [os.path.join(d, 'm.c'), os.path.join(mclib.MC, 'h_futex.c')] + futex_srcs()
    exes = dict(pmap(lambda fl: (fl, mclib.build_harness(d, fl, srcs, incs=incs)), flavours))
    return exes, d


# ---------------------------------------------------------------- E1
E1_EXPECT = {  # per the threads proposal: the cell at addr+offset is compared; 1 = not-equal, 2 = timed-out
    'w32o0 expA': 2, 'w32o0 expB': 1, 'w32o16 expA': 1, 'w32o16 expB': 2,
    'w64o0 expA': 2, 'w64o0 expB': 1, 'w64o16 expA': 1, 'w64o16 expB': 2, 'no0': 0, 'no16': 0,
    'w64o0 expHiB': 1, 'w64o0 expLoB': 1, 'w32o0 expA-again': 2}


def run_e1(chk, d, be=False):
    exe = os.path.join(d, 'e1be' if be else 'e1')
    cmd = ['gcc', '-O1', '-g', '-w', '-DWASM_THREADS_PTHREADS'] + (['-DWASM_ENDIAN=WASM_BIG_ENDIAN'] if be else []) + ['-I', d, '-I', os.path.join(REPO, 'w2c2'), os.path.join(d, 'm.c'),
           os.path.join(mclib.MC, 'h_futex_e1.c')] + futex_srcs() + ['-o', exe, '-lpthread']
    r = run(cmd)
    if r.returncode != 0:
        raise mclib.PipelineFailure('cannot build E1 driver', r.stderr.decode()[-2000:])
    try:
        out = run([exe], timeout=60).stdout.decode()
    except subprocess.TimeoutExpired:
        # every probe uses timeout 0 or wakes nobody: a driver that does not finish is a wait/notify that never returns (e.g. a mutex left locked)
        chk.violation('emission|probe-sequence-hangs%s' % ('|be' if be else ''), {'kind': 'program', 'how_to_replay': 'python3 checks/c17.py quick (E1: mc/h_futex_e1.c)'},
                      'the single-threaded probe sequence (waits with timeout 0, notifies without waiters) did not finish within 60 s: a call blocks forever')
        return 0
    got = {}
    for ln in out.splitlines():
        w = ln.rsplit(' ', 1)
        got[w[0]] = int(w[1])
    if set(got) != set(E1_EXPECT):
        raise mclib.MachineryError('E1 driver output incomplete: ' + out)
    chk.cov['e1_emission_probes'] = {k: {'returned': got[k], 'specified': E1_EXPECT[k]} for k in sorted(got)}
    groups = {'wait32': ('w32o0', 'w32o16'), 'wait64': ('w64o0', 'w64o16'), 'notify': ('no0', 'no16')}
    for k in ('w64o0 expHiB', 'w64o0 expLoB', 'w32o0 expA-again'):
        if got[k] != E1_EXPECT[k]:
            chk.violation('emission|compare-width|%s' % k.split()[1], {'kind': 'program', 'probe': k, 'got': got[k], 'expected': E1_EXPECT[k], 'how_to_replay': 'python3 checks/c17.py quick'},
                          'memory.atomic.%s compares the wrong number of bits: probe %s returned %d, specified %d (1 = not-equal, 2 = timed-out)' % ('wait64' if k.startswith('w64') else 'wait32', k, got[k], E1_EXPECT[k]))
    for name, (f0, f16) in groups.items():
        bad0 = [k for k in got if k.split()[0] == f0 and got[k] != E1_EXPECT[k]]
        bad16 = [k for k in got if k.split()[0] == f16 and got[k] != E1_EXPECT[k]]
        if bad0:
            chk.violation('emission|%s-offset0-wrong-result' % name, {'kind': 'program', 'probe': bad0, 'got': got, 'expected': E1_EXPECT, 'how_to_replay': 'python3 checks/c17.py quick'},
                          'memory.atomic.%s with offset 0 returned %s, specified %s' % (name, {k: got[k] for k in bad0}, {k: E1_EXPECT[k] for k in bad0}))
        elif bad16:
            chk.violation('emission|%s-ignores-memarg-offset' % name, {'kind': 'program', 'probe': bad16, 'got': got, 'expected': E1_EXPECT, 'wasm_hex': module().hex(),
                                                                     'how_to_replay': 'python3 checks/c17.py quick'},
                          'memory.atomic.%s with memarg offset 16 examined the cell at addr instead of addr+16: cells differ, timeout 0, returned %s, specified %s (1=not-equal, 2=timed-out)' % (
                              name, {k: got[k] for k in bad16}, {k: E1_EXPECT[k] for k in bad16}))
    return len(got)


def run_e3(chk, d):
    """deadline arithmetic of a finite timeout: interposed host clock x timeouts, single thread (mc/h_futex_e3.c)"""
    exe = os.path.join(d, 'e3')
    cmd = ['gcc', '-O1', '-g', '-w', '-DWASM_THREADS_PTHREADS', '-Dpthread_cond_timedwait=e3_timedwait', '-Dpthread_cond_wait=e3_wait', '-I', d, '-I', os.path.join(REPO, 'w2c2'), os.path.join(d, 'm.c'),
           os.path.join(mclib.MC, 'h_futex_e3.c')] + futex_srcs() + ['-o', exe, '-lpthread']
    r = run(cmd)
    if r.returncode != 0:
        raise mclib.PipelineFailure('cannot build E3 driver', r.stderr.decode()[-2000:])
    try:
        rr = run([exe], timeout=120)
    except subprocess.TimeoutExpired:
        chk.violation('deadline|driver-hangs', {'kind': 'program', 'how_to_replay': 'python3 checks/c17.py quick (E3: mc/h_futex_e3.c)'},
                      'the deadline driver (every timed wait answers ETIMEDOUT at once) did not finish within 120 s: a call blocks forever')
        return 0
    out = rr.stdout.decode()
    lines = [l.split() for l in out.splitlines() if l.startswith('E3 ')]
    if rr.returncode != 0 or len(lines) != 5 * 6 * 14:
        chk.violation('deadline|driver-died', {'kind': 'program', 'stdout': out[-600:], 'stderr': rr.stderr.decode()[-600:], 'how_to_replay': 'python3 checks/c17.py quick'},
                      'E3 driver ended with status %d after %d of 420 cases: %s' % (rr.returncode, len(lines), (out[-200:] + rr.stderr.decode()[-200:])))
        return len(lines)
    NS = 10 ** 9      # restated, not read from w2c2_base.h
    bad = {}
    late_ok = 0
    for _, sec, nsec, to, ret, calls, dsec, dnsec in lines:
        sec, nsec, to, ret, calls, dsec, dnsec = int(sec), int(nsec), int(to), int(ret), int(calls), int(dsec), int(dnsec)
        total = sec * NS + nsec + to
        want = (total // NS, total % NS)
        if ret != 2 or calls < 1:
            bad.setdefault('deadline|wait-did-not-time-out', []).append('now=%d.%09d timeout=%d ns: returned %d after %d timed waits (the timed wait reported ETIMEDOUT)' % (sec, nsec, to, ret, calls))
        elif (dsec, dnsec) != want:
            cls = 'not-normalised' if not 0 <= dnsec < NS else ('too-early' if (dsec, dnsec) < want else 'too-late')
            if cls == 'too-late' and (dsec * NS + dnsec) - total <= 10 ** 6:
                late_ok += 1       # rounding the deadline up by at most 1 ms is not a violation of the statement
                continue
            bad.setdefault('deadline|%s' % cls, []).append('now=%d.%09d timeout=%d ns: absolute deadline given to pthread_cond_timedwait is %d.%09d, exact now+timeout is %d.%09d' % (
                sec, nsec, to, dsec, dnsec, want[0], want[1]))
    # negative timeouts: "wait forever" - the first blocking call must be an untimed wait, or a timed one whose deadline is at least a year away
    negs = [l.split() for l in out.splitlines() if l.startswith('E3N ')]
    if len(negs) != 6:
        bad.setdefault('deadline|negative-timeout-driver', []).append('expected 6 negative-timeout cases, got %d: %s' % (len(negs), out[-300:]))
    for _, to, how, dsec, dnsec in negs:
        if how == 'untimed':
            continue
        if how == 'timed' and int(dsec) >= 1700000000 + 365 * 86400:
            continue
        bad.setdefault('deadline|infinite-wait-has-a-deadline', []).append('timeout=%s ns (negative = wait forever): %s' % (
            to, 'the wait returned %s without blocking although the cell equals the expected value' % dsec if how == 'returned' else
            'the wait blocks with the absolute deadline %s.%09d while the host clock says 1700000000.000000005' % (dsec, int(dnsec))))
    for key, msgs in sorted(bad.items()):
        chk.violation(key, {'kind': 'program', 'cases': msgs[:20], 'how_to_replay': 'python3 checks/c17.py quick (E3: mc/h_futex_e3.c)'}, '%s (%d of 420 clock x timeout cases)' % (msgs[0], len(msgs)))
    chk.cov['e3_deadline_cases'] = {'cases': len(lines), 'host_clock_answers': '5 seconds values x 6 nanosecond values (0, 1, 499999999, 500000000, 999999998, 999999999)',
                                    'timeouts_ns': '1, 999, 5e8, 1e9-1, 1e9, 1e9+1, 1.5e9, 2e9-1, 2e9, 3.6e12, 2^53+1, 2^63-1, 2^63-2, 2^63-1e9', 'negative_timeouts': '-1, -2, -5, -1e9, -2^32, -2^63: must block without (or with a far) deadline', 'wrong': sum(len(v) for v in bad.values()), 'late_by_at_most_1ms_tolerated': late_ok}
    return len(lines)


# ---------------------------------------------------------------- E2: sequential futex model replayed along the linearisation
def W(addr, exp='old', timeout=INF, bits=32, off=0):
    return 'W:%d:%d:%d:%s:%d' % (bits, addr, off, exp, timeout)


def N(addr, count=1, store=0, off=0):
    return 'N:%d:%d:%d:%d' % (addr, off, count, store)


def parse_word(w):
    f = w.split(':')
    if f[0] == 'W':
        return {'kind': 'W', 'bits': int(f[1]), 'addr': int(f[2]), 'off': int(f[3]), 'exp': f[4], 'timeout': int(f[5]), 'eff': int(f[2]) + int(f[3])}
    return {'kind': 'N', 'addr': int(f[1]), 'off': int(f[2]), 'count': int(f[3]), 'store': int(f[4]), 'eff': int(f[1]) + int(f[2])}


def old32(x):
    return (0xA0000000 + x) & 0xffffffff


def oracle(job, o):
    """replays the log on the sequential model; returns [(key, msg)]"""
    th = {'T%d' % (i + 1): dict(parse_word(w)) for i, w in enumerate(job['words'])}
    pre = 'memarg-offset|' if any(t['off'] for t in th.values()) else ''
    fails = []

    def fail(key, msg):
        fails.append((pre + key, msg + '   log: ' + ' '.join(o['obs'].split('\n'))))
    cells = {}
    for t in th.values():
        cells[t['eff']] = old32(t['eff'])
        cells[t['eff'] + 4] = (0xB0000000 + t['eff']) & 0xffffffff
    for t in th.values():
        t.update(state='idle', ret=None, want=None, notified=False, reason=None, asleep=False, cs=False, sig=[], entry_waiting=None, cond=None)
    cond_owner = {}

    def waiting(eff):
        return [n for n, t in th.items() if t['kind'] == 'W' and t['state'] == 'enq' and not t['notified'] and t['eff'] == eff]
    for ln in o['obs'].strip().split('\n'):
        w = ln.split()
        if w[0] == 'E':
            t = th['T' + w[1][2:]]
            t['reason'] = 'to' if w[1].startswith('TO') else 'sp'
            t['asleep'] = False
            continue
        if w[0] == 'T0':
            if len(w) > 3 and w[1] == 'p' and int(w[3]) != 0:
                fail('notify|final-probe-woke-nobody-but-returned-%s' % w[3], 'after all threads had returned, notify(%s, 0xFFFFFFFF) returned %s: no waiter exists any more' % (w[2], w[3]))
            continue
        name, t, ev = w[0], th[w[0]], w[1]
        if ev == 's':
            cells[int(w[2])] = int(w[3])
        elif ev == 'i':
            t['state'] = 'called'
        elif ev[0] == 'L':
            if t['kind'] == 'W':
                if t['state'] == 'called':
                    cur = cells[t['eff']] | (cells[t['eff'] + 4] << 32 if t['bits'] == 64 else 0)
                    o32 = old32(t['eff']) + (1 if t['exp'] == 'new' else 0)
                    exp = o32 | ((0xB0000000 + t['eff']) << 32 if t['bits'] == 64 else 0)
                    if cur != exp:
                        t['state'], t['want'] = 'cmpfail', 1
                    else:
                        t['state'] = 'enq'
            else:
                t['cs'], t['sig'], t['entry_waiting'] = True, [], waiting(t['eff'])
        elif ev[0] == 'C':
            t['asleep'], t['reason'], t['cond'] = True, None, ev[1:]
            cond_owner[ev[1:]] = name
            if t['kind'] != 'W' or t['state'] != 'enq' or t['notified'] or t['want'] is not None:
                fail('wait|sleeps-although-it-must-return', '%s goes to sleep but the model says it must return %s' % (name, t['want']))
        elif ev[0] == 'A':
            if t['kind'] == 'W' and t['state'] == 'enq':
                if t['notified']:
                    t['state'], t['want'] = 'left', 0
                elif t['reason'] == 'to':
                    t['state'], t['want'] = 'left', 2
                # spurious wake-up (or a signal that did not count it): must go back to sleep
        elif ev[0] in 'SB':
            c, tgt = ev[1:].split('>')
            if t['kind'] != 'N' or not t['cs']:
                fail('protocol|signal-outside-notify', '%s signals outside a notify critical section' % name)
                continue
            who = cond_owner.get(c)
            t['sig'].append(who)
            if tgt != '-':
                th['T' + tgt]['asleep'] = False
                th['T' + tgt]['reason'] = 'sig'
        elif ev[0] == 'U':
            if t['kind'] == 'N' and t['cs']:
                t['cs'] = False
                ew, sig = t['entry_waiting'], t['sig']
                for who in sig:
                    if who is None:
                        fail('notify|signalled-unknown-waiter', '%s signalled a condition variable no waiter ever slept on' % name)
                    elif th[who]['eff'] != t['eff']:
                        fail('notify|woke-waiter-of-other-address', '%s (address %d) woke %s which waits on address %d' % (name, t['eff'], who, th[who]['eff']))
                    elif who not in ew or sig.count(who) > 1:
                        fail('notify|counted-waiter-twice', '%s counted %s which is not waiting any more (already notified or gone)' % (name, who))
                    else:
                        th[who]['notified'] = True
                t['woken'] = len(sig)
                want = min(t['count'], len(ew))
                if len(sig) > t['count']:
                    fail('notify|woke-more-than-count', '%s woke %d waiters, count=%d' % (name, len(sig), t['count']))
                elif len(set(sig)) < want:
                    fail('notify|lost-wakeup', '%s woke %d waiter(s) but %d waiter(s) %s had started blocking on address %d before it (count=%d)' % (name, len(sig), len(ew), ew, t['eff'], t['count']))
        elif ev == 'r':
            ret = int(w[3])
            t['ret'], t['state_at_ret'] = ret, t['state']
            if t['kind'] == 'W':
                if t['want'] is None:
                    fail('wait|returned-%d-while-model-still-waiting' % ret, '%s returned %d but no notify counted it and no timeout applied (state %s)' % (name, ret, t['state']))
                elif ret != t['want']:
                    fail('wait|returned-%d-expected-%d' % (ret, t['want']), '%s returned %d, model says %d (1 = compare failed, 0 = counted by a notify, 2 = timed out)' % (name, ret, t['want']))
                t['state'] = 'done'
            else:
                if ret != t.get('woken', 0):
                    fail('notify|return-differs-from-woken', '%s returned %d but woke %d waiter(s)' % (name, ret, t.get('woken', 0)))
                t['state'] = 'done'
    # terminal state
    m = re.match(r'thr=(\S+) (.*)blocked=(\d) map=(.*)$', o['end'])
    thr, held, blocked, mp = m.group(1), m.group(2), int(m.group(3)), m.group(4)
    for i, (name, t) in enumerate(sorted(th.items(), key=lambda x: int(x[0][1:]))):
        letter = thr[i + 1]
        if t['ret'] is None:
            if t['kind'] == 'N':
                fail('deadlock|notifier-never-returns', '%s never returned (thread state %s)' % (name, letter))
            elif t['state'] == 'enq' and not t['notified'] and t['timeout'] < 0 and letter == 'C':
                pass    # sleeps forever, and the model agrees: nobody will ever notify it
            elif t['notified']:
                fail('deadlock|notified-waiter-never-returns', '%s was counted by a notify but never returned (thread state %s)' % (name, letter))
            else:
                fail('deadlock|waiter-stuck', '%s never returned: model state %s, thread state %s, timeout %d' % (name, t['state'], letter, t['timeout']))
    if 'dangling' in mp:
        fail('map|freed-memory-still-linked', 'at the terminal state the futex map links freed memory: %s (the next wait/notify on that bucket or address reads it)' % mp)
    if held:
        fail('terminal|mutex-still-held', 'at the terminal state %s' % held)
    still = {}
    for name, t in th.items():
        if t['kind'] == 'W' and t['ret'] is None and t['state'] == 'enq':
            still[t['eff']] = still.get(t['eff'], 0) + 1
    nodes = dict((int(k), int(n)) for b, k, n in re.findall(r'\[b(\d+) k(\d+) n(\d+)\]', mp))
    if nodes != still and not fails:
        fail('map|nodes-differ-from-waiting-set', 'futex map holds %s (key: wait records) but the still-waiting set is %s' % (nodes, still))
    return fails


def projection(o):
    return (o['status'], tuple(sorted(l for l in o['obs'].split('\n') if ' r ' in l)), o['end'])


# ---------------------------------------------------------------- cases
def make_cases(tier):
    """-> [(words, pb, db)]   (measured sizes with the environment reduction: 1W+1N (2,1) ~80 schedules, (3,2) ~250;
    3 threads (2,1) ~3-4k, (3,1) ~10k, (2,2) ~19k; 2W+2N (1,1) ~18k, (2,1) ~150k; 3W+1N (1,1) ~42k)"""
    cs = []
    quick = tier == 'quick'
    # 1W + 1N: every waiter flavour x every notifier flavour
    for exp, to, bits in itertools.product(('old', 'new'), (INF, FIN), (32, 64)):
        for addr, cnt, st in itertools.product((A, A2, B), (0, 1, 2, MAXCOUNT), (0, 1)):
            cs.append(([W(A, exp, to, bits), N(addr, cnt, st)], 2 if quick else 3, 1 if quick else 2))
    # any negative timeout means "wait forever"
    cs.append(([W(A, 'old', -5), N(A, 1, 0)], 2, 1))
    cs.append(([W(A, 'old', -(2 ** 62), bits=64), N(A, 1, 1)], 2, 1))
    # 2W + 1N
    second = [(A, 'old', INF), (A, 'old', FIN), (A2, 'old', INF), (B, 'old', FIN), (A, 'new', INF)]
    for to1, (a2, exp2, to2), cnt, st in itertools.product((INF, FIN), second, (0, 1, 2, MAXCOUNT), (0, 1)):
        if (to1 == FIN and to2 == FIN) or (st and cnt in (0, 2)) or (a2 != A and cnt in (0, MAXCOUNT)):
            continue
        if quick and not ((to1 == INF and st == 0 and cnt in (1, MAXCOUNT)) or (to1 == FIN and a2 == A and exp2 == 'old' and cnt == 1)):
            continue
        cs.append(([W(A, 'old', to1), W(a2, exp2, to2), N(A, cnt, st)], 2 if quick else 3, 1))
    # 1W + 2N
    for to, (c1, s1), (a2, c2, s2) in itertools.product((INF, FIN), [(1, 0), (1, 1), (MAXCOUNT, 0), (0, 0)], [(A, 1, 0), (A, 2, 1), (A2, 1, 0), (B, MAXCOUNT, 0), (A, MAXCOUNT, 0)]):
        if (to == FIN and c1 == 0) or (s1 and s2):
            continue
        if quick and not ((to == INF and (c1, s1) in ((1, 0), (1, 1)) and a2 == A) or (to == FIN and (c1, s1) == (1, 0) and (a2, c2) in ((A, 1), (A2, 1)))):
            continue
        cs.append(([W(A, 'old', to), N(A, c1, s1), N(a2, c2, s2)], 2 if quick else 3, 1))
    # 2W + 2N
    four = [([W(A, 'old', INF), W(A, 'old', INF), N(A, 1, 0), N(A, 1, 0)]),
            ([W(A, 'old', INF), W(A2, 'old', FIN), N(A, 2, 0), N(A2, 1, 0)]),
            ([W(A, 'old', INF), W(A, 'old', FIN), N(A, 1, 1), N(A, MAXCOUNT, 0)]),
            ([W(A, 'old', FIN), W(B, 'old', INF), N(A, 1, 1), N(B, 1, 0)])]
    if quick:
        for ws in four[:2]:
            cs.append((ws, 1, 1))
    else:
        for ws in four[:2]:
            cs.append((ws, 2, 1))
        for ws in four[2:]:
            cs.append((ws, 1, 1))
        # deviation bound 2 with three threads
        for ws in ([W(A, 'old', INF), W(A, 'old', FIN), N(A, 1, 0)], [W(A, 'old', FIN), W(A2, 'old', FIN), N(A, MAXCOUNT, 0)], [W(A, 'old', FIN), N(A, 1, 0), N(A, 1, 1)],
                   [W(A, 'old', INF), N(A, 1, 0), N(A, MAXCOUNT, 0)]):
            cs.append((ws, 2, 2))
        # 3W + 1N
        for cnt in (1, 2, MAXCOUNT):
            cs.append(([W(A, 'old', INF), W(A, 'old', FIN), W(A2, 'old', INF), N(A, cnt, 0)], 1, 1))
    # memarg offsets under the protocol (E1 continued): a waiter registered at the effective address vs notify with offset 16,
    # and a waiter with offset 16 vs a plain notify on the effective address
    cs.append(([W(A + 16, 'old', INF), N(A, 1, 0, off=16)], 2, 1))
    cs.append(([W(A, 'old', INF, off=16), N(A + 16, 1, 0)], 2, 1))
    cs.append(([W(A, 'old', FIN, bits=64, off=16), N(A, 1, 1, off=16)], 2, 1))
    return cs


def weight(words, pb, db, fl):
    n = len(words)
    return (12 ** n) * (5 ** pb) * (4 ** db) * {'plain': 1, 'asan': 4, 'tsan': 7}[fl] / 1e4


def main(tier):
    if tier == 'replay':
        return replay_file(sys.argv[2])
    chk = Check('C17', 'model_checking', tier)
    budget = 150 if tier == 'quick' else 1800
    deadline_at = chk.t0 + budget
    try:
        root = scratch('c17')
        exes, d = build(('asan', 'tsan'), root)
        ne1 = run_e1(chk, d)
        ne1 += run_e3(chk, d)
        jobs = []
        caselist = [(w, pb, db, 0) for w, pb, db in make_cases('quick')]
        if tier != 'quick':     # round 0 of the thorough tier is the complete quick tier; deeper rounds only start before the soft deadline
            caselist += [(w, pb, db, 1 if len(w) == 2 else 2 if len(w) == 3 and db < 2 else 3) for w, pb, db in make_cases(tier)]
        for words, pb, db, rnd in caselist:
            for fl in ('asan', 'tsan'):       # every execution runs under ASan ("nor touches freed memory"); no separate plain run
                p, dv = pb, db
                if fl == 'tsan':      # data races are a bonus for this property (DESIGN 1.5): one preemption level less, <= 3 threads
                    p, dv = max(pb - 1, 1), min(db, 1)
                    if len(words) > 3:
                        continue
                wt = weight(words, p, dv, fl)
                jobs.append({'case': {'threads': words}, 'words': words, 'exe': exes[fl], 'flavour': fl, 'pb': p, 'db': dv, 'spurious': 1, 'round': rnd,
                             'mix': ''.join(w[0] for w in words), 'weight': wt, 'jobs': 16 if wt > 500 else 8 if wt > 100 else 1, 'count_flavour': 'asan'})
        mx = mclib.Matrix(chk, [REPO, d], allowed_status=('ok', 'blocked'), projection=projection)
        results = mx.run(jobs, oracle, deadline_at)
        mx.report('checks/c17.py', lambda ex, r, key: True)
        mx.fill_coverage('E2: case = one word per thread, W:<bits>:<addr>:<memarg offset>:<expected old|new>:<timeout> or N:<addr>:<offset>:<count>:<store first>; addresses %d and %d '
                         'share a bucket of the futex map, %d does not; every interleaving of harness yields and of the lock/unlock/cond_wait/cond_timedwait/cond_signal calls inside '
                         'futex.c up to the preemption bound, with up to db environment deviations (a timeout that fires while other threads can still run, a spurious wake-up) and every '
                         'choice of the signalled waiter, is executed on the real code in an ASan build (and again, one preemption level lower and with <= 3 threads, in a TSan build); the log of critical-section entries is replayed on '
                         'a sequential futex model.  distinct_nontrivial = cases whose schedules give more than one distinct (return values, terminal thread states, futex map) combination. '
                         'E1: 10 single-threaded probes of the translated functions with memarg offset 0/16. E3: 420 (host clock answer, finite timeout) cases: the absolute deadline handed to '
                         'pthread_cond_timedwait must be exactly now + timeout, normalised' % (A, A2, B))
        chk.cov['evaluations'] += ne1
        # did the two colliding addresses really meet in one bucket?
        coll = 0
        for res in results:
            if isinstance(res, dict):
                for o in res['outcomes']:
                    bs = re.findall(r'\[b(\d+) k(\d+)', o['end'])
                    if len(bs) >= 2 and len(set(b for b, k in bs)) < len(bs):
                        coll += 1
        chk.cov['outcomes_with_two_keys_in_one_bucket'] = coll
        chk.cov['thread_mixes'] = sorted(set(''.join(w[0] for w in j['words']) for j in jobs))
        chk.cov['preemption_bound'] = max(j['pb'] for j in jobs)
        chk.cov['deviation_bound'] = max(j['db'] for j in jobs)
        chk.assumptions += ['sequentially consistent scheduler; preemption only at synchronisation calls and harness yields',
                            'the absolute time passed to pthread_cond_timedwait is ignored: the explorer decides when a timeout fires',
                            'waking a waiter = pthread_cond_signal on its condition variable inside the notifier\'s critical section; which waiters a notify picks is free',
                            'threads, preemptions and deviations beyond the completed bounds are not covered']
    except mclib.PipelineFailure as e:
        mclib.report_pipeline_failure(chk, e, 'bin/check C17 quick')
        return chk.finish()
    except mclib.MachineryError as e:
        print('MACHINERY-ERROR C17: %s' % e)
        return 2
    return chk.finish()


def replay_file(path):
    obj = json.load(open(path))
    if obj.get('kind') != 'schedule':
        print('E1 emission finding; re-run: python3 checks/c17.py quick'); print(json.dumps(obj, indent=1)[:3000])
        return 1
    exes, d = build([obj['flavour']])
    r = mclib.replay(exes[obj['flavour']], obj['words'], obj['schedule'], spurious=obj.get('spurious', 1))
    print('case      :', json.dumps(obj['case']))
    print('flavour   :', obj['flavour'], ' schedule:', r['sched'], ' enabled-set sizes:', r['enabled'])
    print('trace     :\n' + r['trace'])
    print('observations:\n' + r['obs'])
    print('end state :', r['end'], ' status:', r['status'], ' sanitizer:', r['san'])
    if r['san']:
        print(r['stderr'][:5000])
    fails = oracle({'words': obj['words']}, r) if r['status'] in ('ok', 'blocked') else [('terminal|' + r['status'], r['err'] + r['stderr'][-500:])]
    if r['san']:
        fails.append(mclib.classify_report(r['stderr'], [REPO, d])[:1] + ('sanitizer report',))
    for f in fails:
        print('ORACLE    :', f[0], '-', f[1][:600])
    same = r['obs'].strip().split('\n') == obj['observed']['observations'] and r['end'] == obj['observed']['end_state']
    print('replay %s the recorded observations; key %s %s' % ('REPRODUCES' if same else 'DIFFERS FROM', obj['key'], 'still fails' if any(f[0] == obj['key'] for f in fails) else 'does not fail now'))
    return 1 if fails else 0


if __name__ == '__main__':
    sys.exit(main(sys.argv[1] if len(sys.argv) > 1 else 'quick'))
