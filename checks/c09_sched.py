#!/usr/bin/env python3
"""C09 E-sched: the real producer / worker-pool protocol of the translator (c.c) under the controlled scheduler.

All translator sources from vcommon.REPO are compiled with the pthread renames and -Dmain=w2c2_main and linked with
mc/h_pool.c + mc/sched.c; w2c2_main runs as model thread 0, its writer threads are model threads.  Every interleaving of the
lock / unlock / cond_wait / cond_signal (with every choice of the woken waiter) / cond_broadcast / create / join operations
up to the preemption bound (+ spurious condition-variable wake-ups up to the deviation bound) is executed, each in a forked
child writing into its own directory.  Oracle per schedule: all threads terminate (no deadlock, no lost task), exit status
0, and the digest of every file written equals that of the ordinary sequential run (-t 1 of the plain binary); the same
schedules run in an ASan/UBSan and a ThreadSanitizer build.

usage (stand-alone): c09_sched.py replay <replays/C09-*.json>"""
import glob, json, os, subprocess, sys, tempfile, time
sys.path.insert(0, os.path.join(os.path.dirname(os.path.abspath(__file__)), '..', 'lib'))
from vcommon import *
import mclib

FLAV_CC = {'plain': ('gcc', []), 'tsan': ('clang', ['-fsanitize=thread', '-fno-omit-frame-pointer']),
           'asan': ('clang', ['-fsanitize=address,undefined', '-fno-sanitize-recover=all', '-fno-omit-frame-pointer'])}


def build(flavours, root):
    exes = {}

    def one(fl):
        cc, fl_flags = FLAV_CC[fl]
        objdir = build_w2c2('sched-' + fl, cc=cc, extra_flags=fl_flags + mclib.RENAMES + ['-w'], rename_main=True, objects_only=True)
        objs = sorted(glob.glob(os.path.join(objdir, '*.o')))
        d = os.path.join(root, 'pool-' + fl)
        os.makedirs(d, exist_ok=True)
        return fl, mclib.build_harness(d, fl, [os.path.join(mclib.MC, 'h_pool.c')], extra_objs=objs)
    for fl, exe in pmap(one, flavours):
        exes[fl] = exe
    return exes


def fnv_dir(d, skip=('m.wasm', 'ref.wasm')):
    h = 1469598103934665603
    M = (1 << 64) - 1
    names = sorted(n for n in os.listdir(d) if n not in skip)
    for n in names:
        for b in n.encode():
            h = ((h ^ b) * 1099511628211) & M
        h = ((h ^ 0xff) * 1099511628211) & M
        for b in open(os.path.join(d, n), 'rb').read():
            h = ((h ^ b) * 1099511628211) & M
        h = ((h ^ 0xfe) * 1099511628211) & M
    return len(names), '%x' % h


failed_baselines = set()


def make_cases(tier, root, chk=None):
    """-> [dict(name, words, pb, db, expect=(files, digest))]"""
    sys.path.insert(0, os.path.dirname(os.path.abspath(__file__)))
    import c09
    w2c2 = mclib.w2c2_binary()
    mods = {name: (m.encode(), m) for name, m, calls, imports in c09.base_modules()}
    # BT: every function decodes a small br_table of its own (decoder state that must not be shared between the writer threads)
    # ... and uses every other writer that needs scratch space of its own: f32/f64/i64 literal formatting (different digits per function, so a
    # buffer shared between the threads is a race under TSan and a different digest when two formatters interleave), typed locals, a memory
    # access, a global, a direct call
    import struct
    from wasmenc import Module, local_get, local_set, block, br_table, i32_const, i64_const, f32_const, f64_const, global_get, call, memop, numop, DROP, END, RETURN, I32, I64, F32, F64
    bt = Module()
    bt.mems.append((1, 1))
    bt.globals.append((I32, 1, i32_const(7)))
    for k in range(3):
        f32b = struct.unpack('<I', struct.pack('<f', 1.1 + 1.7 * k))[0]
        f64b = struct.unpack('<Q', struct.pack('<d', 0.1 + 3.3 * k))[0]
        pre = (f32_const(f32b) + local_set(2) + f64_const(f64b) + local_set(3) + i64_const(0x1122334455667788 * (k + 1) & 0x7fffffffffffffff) + local_set(1)
               + local_get(0) + memop(0x28, 2, 4 * k) + DROP + global_get(0) + DROP + (local_get(0) + call((k + 2) % 3) + DROP if k == 0 else b''))
        body = pre + block(None) + block(None) + block(None) + local_get(0) + br_table([(k + j) % 3 for j in range(3 + k)], k % 3) + END + i32_const(10 + k) + RETURN + END + i32_const(20 + k) + RETURN + END + i32_const(30 + k)
        bt.add_func('i', 'i', ((1, I64), (1, F32), (1, F64)), body, export='t%d' % k)
    mods['BT'] = (bt.encode(), bt)
    cases = []

    def add(modname, opts, pb, db, ref=None, rnd=0):
        wasm, m = mods[modname]
        d = os.path.join(root, 'in-%s' % modname)
        os.makedirs(d, exist_ok=True)
        wp_ = os.path.join(d, 'm.wasm')
        if not os.path.exists(wp_):
            open(wp_, 'wb').write(wasm)
        words = list(opts)
        if ref:
            rp = os.path.join(d, 'ref-%s.wasm' % ref)
            if not os.path.exists(rp):
                open(rp, 'wb').write(dict(c09.reference_variants(modname, m))[ref])
            words += ['-r', rp]
        # expected files: the ordinary binary, one worker thread, same other options
        seq = tempfile.mkdtemp(prefix='seq-', dir=root)
        seqopts = []
        skip = False
        for o in words:
            if skip:
                skip = False
                seqopts.append('1')
                continue
            seqopts.append(o)
            if o == '-t':
                skip = True
        bname = '%s %s' % (modname, ' '.join(o if not o.startswith('/') else os.path.basename(o) for o in seqopts))
        if bname in failed_baselines:
            return
        try:
            r = run([w2c2] + seqopts + [wp_, os.path.join(seq, 'm.c')], timeout=60)
            bad = None if r.returncode == 0 else 'exit status %d: %s' % (r.returncode, r.stderr.decode(errors='replace')[-300:])
        except subprocess.TimeoutExpired:
            bad = 'no termination within 60 s (ordinary threads, one worker)'
        if bad:
            # the ordinary binary with ONE worker thread does not even produce the baseline: that is a finding about the tree, not about the machinery
            name = '%s %s' % (modname, ' '.join(o if not o.startswith('/') else os.path.basename(o) for o in seqopts))
            if chk is not None and name not in failed_baselines:
                failed_baselines.add(name)
                chk.violation('sched|sequential-run-fails', {'kind': 'config', 'w2c2_args': name, 'what': bad, 'how_to_replay': 'w2c2 %s m.wasm out.c on module %s of checks/c09.py' % (' '.join(seqopts), modname)},
                              'w2c2 %s: %s' % (name, bad))
            return
        nfiles, digest = fnv_dir(seq)
        cases.append({'name': '%s %s' % (modname, ' '.join(o if not o.startswith('/') else os.path.basename(o) for o in words)), 'words': words + [wp_, '@OUT@'],
                      'pb': pb, 'db': db, 'expect': (nfiles, digest), 'round': rnd})
    # measured schedule counts (plain build): -f 1 -t 2 on 3 functions: pb 0/1/2 = 96 / 3 292 / 28 849, (pb 1, db 1) = 69 578;
    # 3 workers: pb 0 = 1 443 (2 files) / 8 463 (3 files), pb 1 = 138 618 (2 files); pool started twice (-r): pb 0/1 = 432 / 24 720
    # san=(pb, db) are the bounds of the ASan/UBSan and TSan builds (10-25x slower per execution)
    def both(mod, opts, pb, db, san, ref=None, rnd=0):
        n = len(cases)
        add(mod, opts, pb, db, ref=ref, rnd=rnd)
        if len(cases) > n:
            cases[-1]['san'] = san
    both('B2', ['-f', '1', '-t', '2'], 2, 0, (1, 0))                      # 3 functions -> 3 files, producer + 2 workers
    both('B2', ['-f', '1', '-t', '2'], 0, 1, (0, 1))                      # + one spurious wake-up
    both('B2', ['-f', '2', '-t', '3'], 0, 0, (0, 0))                      # 2 files, 3 workers (more workers than tasks)
    both('B1', ['-f', '3', '-t', '2', '-g'], 1, 0, (0, 0), ref='one-body-changed')   # static + dynamic files: the pool is started twice
    both('BT', ['-f', '1', '-t', '2'], 1, 0, (1, 0))                      # three files, each function with its own br_table
    if tier != 'quick':
        both('B2', ['-f', '1', '-t', '2'], 3, 0, (2, 0), rnd=1)
        both('B2', ['-f', '1', '-t', '2'], 1, 1, (1, 1), rnd=1)
        both('B1', ['-f', '2', '-t', '2', '-p'], 2, 0, (1, 0), rnd=1)
        both('B3', ['-f', '3', '-t', '2', '-m'], 2, 0, (1, 0), rnd=1)
        both('B2', ['-f', '2', '-t', '3'], 1, 0, (0, 1), rnd=2)
        both('B2', ['-f', '1', '-t', '3'], 0, 0, (0, 0), rnd=2)
        both('B1', ['-f', '3', '-t', '3', '-g'], 0, 0, (0, 0), ref='one-body-changed', rnd=3)
        both('B3', ['-f', '2', '-t', '3'], 0, 0, (0, 0), rnd=3)
        both('B2', ['-f', '1', '-t', '3'], 0, 1, (0, 0), rnd=4)
        both('B2', ['-f', '1', '-t', '2'], 2, 1, (1, 1), rnd=4)
    return cases


def oracle(job, o):
    fails = []
    if o['status'] != 'ok':
        return [('sched|terminal|' + o['status'], 'the translator did not terminate under this schedule: %s %s' % (o['end'], o.get('err', '')))]
    end = dict(x.split('=') for x in o['end'].split() if '=' in x)
    nfiles, digest = job['expect']
    if 'T0 rc 0' not in o['obs']:
        fails.append(('sched|exit-status', 'w2c2 main returned non-zero under this schedule: %s' % o['obs'].strip()))
    elif int(end['files']) != nfiles or end['digest'] != digest:
        fails.append(('sched|output-differs-from-sequential-run', 'files written under this schedule (%s files, digest %s) differ from the -t 1 run (%d files, digest %s)' % (
            end['files'], end['digest'], nfiles, digest)))
    return fails


def sched_part(chk, tier):
    budget = 150 if tier == 'quick' else 1500
    deadline_at = time.time() + budget
    root = scratch('c09s')
    base = os.path.join(root, 'runs')
    os.makedirs(base)
    os.environ['C09S_BASE'] = base
    flavours = ('plain', 'asan', 'tsan')
    exes = build(flavours, root)
    jobs = []
    cases = make_cases(tier, root, chk)
    for c in cases:
        for fl in flavours:
            pb, db = (c['pb'], c['db']) if fl == 'plain' else c['san']       # sanitizer builds explore smaller bounds (see make_cases)
            jobs.append({'case': {'w2c2_args': c['name'], 'expect': list(c['expect'])}, 'words': c['words'], 'exe': exes[fl], 'flavour': fl, 'pb': pb, 'db': db, 'spurious': 1 if db else 0,
                         'mix': c['name'], 'expect': c['expect'], 'jobs': 16, 'weight': 100 ** pb * (4 ** db), 'horizon': 20000, 'round': c['round']})
    mx = mclib.Matrix(chk, [REPO], projection=lambda o: (o['status'], o['end']))
    mx.replay_module = 'c09_sched.py'
    pre = dict(chk.cov)
    mx.run(jobs, oracle, deadline_at)
    mx.report('checks/c09_sched.py', lambda ex, r, key: True)
    st = mx.stats
    spb, cum = {}, 0
    for p in sorted(mx.per_bound):
        cum += mx.per_bound[p]
        spb[str(p)] = {'new': mx.per_bound[p], 'cumulative': cum}
    if not st['exhaustive']:
        chk.cov['exhaustive'] = False
    for j in jobs[:2]:
        pass
    return {'cases': [c['name'] + ' pb=%d db=%d (sanitizer builds pb=%d db=%d)' % ((c['pb'], c['db']) + tuple(c['san'])) for c in cases], 'schedules': st['schedules'], 'states': st['states'], 'transitions': st['transitions'],
            'schedules_by_flavour': st['schedules_by_flavour'], 'schedules_per_preemption_bound': spb, 'by_case_and_bounds': st.get('by_mix', {}), 'exhaustive': st['exhaustive'],
            'max_steps_per_execution': st['maxsteps'], 'rounds_completed': [r for r in mx.rounds_started if r not in mx.skipped_rounds],
            'oracle': 'every schedule: all threads terminate, main returns 0, digest of all written files == sequential (-t 1) run; ASan/UBSan and TSan builds silent',
            'scheduling_points': 'pthread_mutex_lock/unlock, pthread_cond_wait/signal/broadcast, pthread_create/join in c.c (renamed to the model at compile time); signal wake-up choice explored'}


def replay_file(path):
    obj = json.load(open(path))
    root = scratch('c09s')
    base = os.path.join(root, 'runs')
    os.makedirs(base)
    os.environ['C09S_BASE'] = base
    exes = build([obj['flavour']], root)
    # the recorded words hold scratch paths of the run that found it: rebuild the case list and pick the same case
    cases = make_cases('thorough', root)
    c = next((c for c in cases if c['name'] == obj['case']['w2c2_args']), None)
    if c is None:
        print('case not found:', obj['case'])
        return 2
    r = mclib.replay(exes[obj['flavour']], c['words'], obj['schedule'], spurious=obj.get('spurious', 0), horizon=20000)
    print('case      :', json.dumps(obj['case']))
    print('flavour   :', obj['flavour'], ' schedule:', r['sched'])
    print('trace     :\n' + r['trace'])
    print('observations:\n' + r['obs'])
    print('end state :', r['end'], ' status:', r['status'], ' sanitizer:', r['san'])
    if r['san']:
        print(r['stderr'][:5000])
    fails = oracle({'expect': c['expect']}, r) if r['status'] in ('ok', 'blocked') else [('sched|terminal|' + r['status'], r['err'])]
    if r['san']:
        fails.append(mclib.classify_report(r['stderr'], [REPO])[:1] + ('sanitizer report',))
    for f in fails:
        print('ORACLE    :', f[0], '-', f[1])
    return 1 if fails else 0


if __name__ == '__main__':
    if len(sys.argv) > 2 and sys.argv[1] == 'replay':
        sys.exit(replay_file(sys.argv[2]))
