#!/usr/bin/env python3
"""C02 Floating-point arithmetic and numeric conversions."""
import sys, os
sys.path.insert(0, os.path.dirname(os.path.abspath(__file__)))
from numeric import *

def int_sources32():
    s = set(a32())
    for base in (1 << 24, 1 << 25, 1 << 30, 1 << 31):
        for d in (-3, -2, -1, 0, 1, 2, 3):
            s.add((base + d) & 0xffffffff)
    s |= {0x7fffffbf, 0x7fffffc0, 0x7fffffc1, 0x7fffff80, 0xffffff7f, 0xffffff80, 0xffffff81, 0xfffffe80, 0x01000001, 0x01000003, 0x81000001}
    return sorted(s)

def int_sources64():
    m = (1 << 64) - 1
    s = set(a64())
    for base in (1 << 24, 1 << 25, 1 << 53, 1 << 54, 1 << 62, 1 << 63):
        for d in (-3, -2, -1, 0, 1, 2, 3):
            s.add((base + d) & m)
    s |= {0x7fffffbfffffffff, 0x7fffffc000000000, 0x7fffffc000000001, 0x7ffffffffffffbff, 0x7ffffffffffffc00, 0x7ffffffffffffc01,
          0xfffffffffffffbff, 0xfffffffffffffc00, 0xfffffffffffffc01, 0xffffff7fffffffff, 0xffffff8000000000, 0xffffff8000000001,
          0x0020000000000001, 0x0020000000000003, 0x8020000000000001, 0x0000008000000001, 0x0040000000000002, 0x0040000000000006,
          0x8000008000000000, 0x8000008000000001, 0x8000000000000400, 0x8000000000000401}
    return sorted(s)

def main(tier):
    alphas = [int_sources32(), int_sources64(), f32_special(), f64_special(), r32(), r64(), rf32(), rf64()]
    unary32 = [0x8b, 0x8c, 0x8d, 0x8e, 0x8f, 0x90, 0x91, 0xa8, 0xa9, 0xae, 0xaf, 0xFC00, 0xFC01, 0xFC04, 0xFC05, 0xbb, 0xbc,
               0xb2, 0xb3, 0xb7, 0xb8, 0xbe]
    return run_numeric('C02', tier, FLOAT_OPS, alphas, {'i': 0, 'I': 1, 'f': 2, 'F': 3}, {'i': 4, 'I': 5, 'f': 6, 'F': 7}, unary32,
                       'NaN results that the spec leaves payload-unspecified are compared as "is a NaN"; bit-preserving operators on exact inputs are compared exactly; trap kind invalid-conversion vs integer-overflow is part of the outcome')

if __name__ == '__main__':
    sys.exit(main(sys.argv[1] if len(sys.argv) > 1 else 'quick'))
