#!/usr/bin/env python3
"""C19 Linear memory is little-endian regardless of host byte order.
No big-endian machine exists in the sandbox: the property is decided on the FORCED configuration
-DWASM_ENDIAN=WASM_BIG_ENDIAN on this little-endian host, using the statement's own formulation: every 16/32/64-bit
access applies exactly one byte reversal of exactly that width, 8-bit accesses and bulk byte copies none.  The
reference interpreter models that image access by access (big_endian_image)."""
import sys, os, glob
sys.path.insert(0, os.path.dirname(os.path.abspath(__file__)))
from numeric import *
import c05, c07, c16

BE = ('-DWASM_ENDIAN=WASM_BIG_ENDIAN', '-DWASM_THREADS_PTHREADS')


def build_be_lit_harness():
    defs = W2C2_DEFS + ['-DWASM_ENDIAN=WASM_BIG_ENDIAN']
    objdir = build_w2c2('be', defs=defs, objects_only=True)
    objs = [o for o in sorted(glob.glob(os.path.join(objdir, '*.o'))) if os.path.basename(o) not in ('c.o', 'main.o')]
    src = os.path.join(VERIF, 'harness', 'c07_lit.c')
    key = sha_files([src] + w2c2_sources()[0] + w2c2_sources()[1], 'be')
    exe = os.path.join(BUILD, 'c19_lit-' + key)
    if not os.path.exists(exe):
        for old in glob.glob(os.path.join(BUILD, 'c19_lit-*')):
            os.unlink(old)
        r = run(['gcc', '-O2', '-w', '-DC07_BE_FORCED'] + defs + ['-I', os.path.join(REPO, 'w2c2'), src] + objs + ['-o', exe, '-lpthread', '-lm'])
        if r.returncode != 0:
            raise RuntimeError('cannot build c19 harness: ' + r.stderr.decode()[-2000:])
    return exe


SWAPTEST = r'''
#include "w2c2_base.h"
#include <stdio.h>
void trap(Trap t) { (void)t; abort(); }
U32 wasmMemoryAtomicWait(wasmMemory* m, U32 a, U64 e, I64 t, bool w) { return 0; }
U32 wasmMemoryAtomicNotify(wasmMemory* m, U32 a, U32 c) { return 0; }
#define CHECK(suffix, type, n) { unsigned char in[8] = {1,2,3,4,5,6,7,8}, out[8]; type v; int k, bad = 0; memcpy(&v, in, n); swap_##suffix(&v); memcpy(out, &v, n); \
  for (k = 0; k < n; k++) if (out[k] != (EXPECT_SWAP ? in[n - 1 - k] : in[k])) bad = 1; if (bad) { printf("SWAPBAD %s\n", #suffix); fails++; } checks++; }
int main(void) { int fails = 0, checks = 0;
  CHECK(s, short, 2) CHECK(S, unsigned short, 2) CHECK(i, int, 4) CHECK(I, unsigned int, 4) CHECK(q, long long, 8) CHECK(Q, unsigned long long, 8) CHECK(f, float, 4) CHECK(d, double, 8)
  printf("SWAPDONE checks=%d fails=%d\n", checks, fails); return fails != 0; }
'''


def detection_models(chk):
    """every host model of the families below x both byte orders; returns (models, wrong)"""
    import subprocess, tempfile, itertools
    src = open(os.path.join(REPO, 'w2c2', 'w2c2_base.h')).read()
    try:
        start = src.index('#define WASM_LITTLE_ENDIAN')
        end = src.index('#endif /* WASM_ENDIAN */', start) + len('#endif /* WASM_ENDIAN */')
    except ValueError:
        chk.violation('detection|block-not-found', {'kind': 'config'}, 'the byte-order detection block of w2c2_base.h (from "#define WASM_LITTLE_ENDIAN" to "#endif /* WASM_ENDIAN */") was not found')
        return 0, 0
    wd = tempfile.mkdtemp(prefix='c19det.', dir='/dev/shm')
    with open(os.path.join(wd, 'probe.c'), 'w') as f:
        f.write(src[start:end] + '\nDETECTED WASM_ENDIAN\n')
    os.makedirs(os.path.join(wd, 'le')); os.makedirs(os.path.join(wd, 'be'))
    for e, v in (('le', '__LITTLE_ENDIAN'), ('be', '__BIG_ENDIAN')):
        with open(os.path.join(wd, e, 'endian.h'), 'w') as f:      # what glibc's <endian.h> provides on a host of that byte order
            f.write('#define __LITTLE_ENDIAN 1234\n#define __BIG_ENDIAN 4321\n#define __PDP_ENDIAN 3412\n#define __BYTE_ORDER %s\n' % v)
    be_arch = ['__sparc', '__sparc__', '_POWER', '__powerpc__', '__ppc__', '__hpux', '__hppa', '__hppa__', '_MIPSEB', '__MIPSEB', '__MIPSEB__', '__AARCH64EB__', '__THUMBEB__', '__ARMEB__', '__ARM_BIG_ENDIAN', '__s390__']
    le_arch = ['__i386__', '_M_IX86', '__alpha__', '__alpha', '_M_ALPHA', '__ia64', '__ia64__', '_M_IA64', '__amd64', '__amd64__', '_M_AMD64', '__x86_64', '__x86_64__', '_M_X64', '_M_ARM', '_M_ARM64',
               '__AARCH64EL__', '__THUMBEL__', '__ARMEL__', '_MIPSEL', '__MIPSEL', '__MIPSEL__', '__bfin__']
    models = []
    for E in ('le', 'be'):
        arch = le_arch if E == 'le' else be_arch
        order = '__ORDER_LITTLE_ENDIAN__' if E == 'le' else '__ORDER_BIG_ENDIAN__'
        gcc46 = ['-D__ORDER_LITTLE_ENDIAN__=1234', '-D__ORDER_BIG_ENDIAN__=4321', '-D__ORDER_PDP_ENDIAN__=3412', '-D__BYTE_ORDER__=' + order]
        one = ['-D_LITTLE_ENDIAN'] if E == 'le' else ['-D_BIG_ENDIAN']
        both = ['-D_LITTLE_ENDIAN=1234', '-D_BIG_ENDIAN=4321', '-D_BYTE_ORDER=' + ('_LITTLE_ENDIAN' if E == 'le' else '_BIG_ENDIAN')]     # BSD / newlib <machine/endian.h>
        apple = ['-D__LITTLE_ENDIAN__=1'] if E == 'le' else ['-D__BIG_ENDIAN__=1']
        models.append((E, 'compiler with __BYTE_ORDER__ (GCC >= 4.6, clang)', gcc46))
        models.append((E, 'compiler with __BYTE_ORDER__ + glibc', gcc46 + ['-D__GLIBC__=2']))
        models.append((E, 'glibc <endian.h>, compiler without __BYTE_ORDER__', ['-D__GLIBC__=2']))
        models.append((E, 'only the macro of the own byte order (_LITTLE_ENDIAN / _BIG_ENDIAN)', one))
        models.append((E, '__LITTLE_ENDIAN__ / __BIG_ENDIAN__ of the compiler only', apple))
        for a_ in arch:
            models.append((E, 'architecture macro %s only' % a_, ['-D%s=1' % a_]))
            # BSD and newlib headers define BOTH _LITTLE_ENDIAN and _BIG_ENDIAN (as values) on every host
            models.append((E, 'both _LITTLE_ENDIAN and _BIG_ENDIAN defined as values + %s' % a_, both + ['-D%s=1' % a_]))
        models.append((E, 'both _LITTLE_ENDIAN and _BIG_ENDIAN defined as values + compiler macro', both + apple))
        models.append((E, 'both _LITTLE_ENDIAN and _BIG_ENDIAN defined as values + __BYTE_ORDER__', both + gcc46))
    wrong = 0
    for E, desc, defs in models:
        r = subprocess.run(['gcc', '-E', '-P', '-undef', '-nostdinc', '-I', os.path.join(wd, E)] + defs + [os.path.join(wd, 'probe.c')], stdout=subprocess.PIPE, stderr=subprocess.PIPE)
        out = r.stdout.decode()
        got = 'error' if r.returncode != 0 else ('le' if 'DETECTED 0' in out else 'be' if 'DETECTED 1' in out else 'undetermined')
        if got != E:
            wrong += 1
            chk.violation('detection|%s-host-detected-as-%s|%s' % (E, got, desc.split(' + __')[0].split(' %s' % '__')[0][:40]), {'kind': 'config', 'host': E, 'model': desc, 'macros': defs, 'detected': got, 'stderr': r.stderr.decode()[-300:],
                          'how_to_replay': 'python3 checks/c19.py quick (detection_models)'},
                          'host model "%s" with byte order %s: the detection chain of w2c2_base.h arrives at %s' % (desc, {'le': 'little-endian', 'be': 'big-endian'}[E], got))
    import shutil
    shutil.rmtree(wd, ignore_errors=True)
    return len(models), wrong


def main(tier):
    chk = Check('C19', 'exploration', tier)
    w2c2 = build_w2c2('plain'); build_ref()
    jobs = []
    for label, b in (('plain loads/stores', c05.flavour_batch()), ('atomic loads/stores/rmw/cmpxchg', c16.e1_batches(True)),
                     ('bulk + segments history', c05.history_batch((1, 3), 2 if tier == 'quick' else 3, 4000000))):
        b.big_endian = True
        jobs.append(('forced-BE ' + label, b, {'cc': 'gcc', 'cflags': ('-O1', '-pthread'), 'defines': BE, 'drv_args': ((2 if tier == 'quick' else 3), 900) if getattr(b, 'main', '') == 'bfs' else ()}))
        if tier == 'thorough':
            b2 = {'plain loads/stores': c05.flavour_batch, 'atomic loads/stores/rmw/cmpxchg': lambda: c16.e1_batches(True)}.get(label)
            if b2:
                bb = b2(); bb.big_endian = True
                jobs.append(('forced-BE clang-O2 ' + label, bb, {'cc': 'clang', 'cflags': ('-O2', '-pthread'), 'defines': BE}))
    # WebAssembly accesses may be unaligned: the big-endian access paths must not depend on the alignment of the address either (typed
    # accesses through a cast pointer are undefined for odd addresses and trap on strict-alignment big-endian machines)
    ba = c05.flavour_batch(); ba.big_endian = True
    jobs.append(('forced-BE alignment-sanitizer plain loads/stores', ba, {'cc': 'clang', 'cflags': ('-O0', '-pthread', '-fsanitize=alignment', '-fno-sanitize-recover=all'), 'defines': BE}))
    # the portable mask-and-shift swap macros (taken when the compiler offers no byte-swap builtins): same flavour batch, compiler identification removed
    bn = c05.flavour_batch(); bn.big_endian = True
    jobs.append(('forced-BE portable swap macros plain loads/stores', bn, {'cc': 'gcc', 'cflags': ('-O1', '-include', os.path.join(VERIF, 'ref', 'noswapbuiltin.h')), 'defines': tuple(d for d in BE if 'THREADS' not in d)}))
    # the unforced (little-endian) configuration on the same cases, reference switch off
    jobs.append(('LE plain loads/stores', c05.flavour_batch(), {'cc': 'gcc', 'cflags': ('-O1',)}))
    jobs.append(('LE atomics', c16.e1_batches(True), {'cc': 'gcc', 'cflags': ('-O1', '-pthread'), 'defines': ('-DWASM_THREADS_PTHREADS',)}))

    def work(job):
        label, b, kw = job
        return run_batch(b, w2c2=w2c2, **kw)
    parts = {}
    for (label, b, kw), res in zip(jobs, pmap(work, jobs)):
        hist = res.get('histories') or []
        if hist and res.get('mismatch_lines'):
            for line, h in zip(res['mismatch_lines'], hist):
                names = [b.opnames[i] for i in h]
                chk.violation('%s|%s' % (label, names[-1]), {'kind': 'history', 'history': names, 'line': line}, 'history %s: %s' % (' ; '.join(names), line))
            res['mismatch_lines'] = []
        ok = report(chk, b, res, label, extra=kw)
        if ok:
            parts[label] = {'programs': res['funcs'], 'evaluations': res['evals'], 'skipped': res['skipped']}
        else:
            chk.cov['exhaustive'] = False
    # translator side: forced-BE build reads float immediates with exactly one swap, integers unchanged
    exe = build_be_lit_harness()
    tj = [['f32q'], ['f64'], ['i32q'], ['i64']]
    if tier == 'thorough':
        tj += [['f32', str((s << 32) // 16), str(((s + 1) << 32) // 16)] for s in range(16)]
    tot = 0
    for args, r in zip(tj, pmap(lambda a: run([exe] + a, timeout=3600), tj)):
        out = r.stdout.decode(errors='replace')
        done = [l for l in out.splitlines() if l.startswith('LITDONE')]
        if not done:
            chk.violation('translator-be|machinery', {'kind': 'literal', 'args': args, 'out': out[-300:]}, 'BE literal harness died'); continue
        tot += int(done[0].split('evals=')[1].split()[0])
        for l in out.splitlines():
            if l.startswith('LITMISMATCH'):
                chk.violation('translator-be|%s' % l.split('type=')[1].split()[0], {'kind': 'literal', 'line': l}, 'forced-BE translator: ' + l); break
    chk.add(evaluations=tot)
    parts['translator immediates (forced BE)'] = {'evaluations': tot}
    # DEFINE_SWAP helpers
    wd = scratch('c19s')
    with open(os.path.join(wd, 's.c'), 'w') as f:
        f.write(SWAPTEST)
    for be in (1, 0):
        r = run(['gcc', '-O1', '-w', '-DEXPECT_SWAP=%d' % be] + (['-DWASM_ENDIAN=WASM_BIG_ENDIAN'] if be else []) + ['-I', os.path.join(REPO, 'w2c2'), os.path.join(wd, 's.c'), '-o', os.path.join(wd, 's%d' % be), '-lm'])
        if r.returncode != 0:
            chk.violation('swap-helpers|compile', {'kind': 'config', 'stderr': r.stderr.decode()[-500:]}, 'swap helper test does not compile'); continue
        r = run([os.path.join(wd, 's%d' % be)])
        out = r.stdout.decode()
        chk.add(evaluations=8)
        if 'fails=0' not in out:
            chk.violation('swap-helpers|%s' % ('be' if be else 'le'), {'kind': 'config', 'out': out}, 'DEFINE_SWAP helpers wrong: ' + out[:200])
    # the mutex-based big-endian RMW / compare-exchange path under the controlled scheduler: two threads, same cell, every interleaving of
    # the lock/unlock operations; the linearizability oracle works on the big-endian image of the cell, so "the RMW writes the swapped
    # result" is also checked under contention (checks/c16_sched.py, big-endian cases only)
    import c16_sched, c17, mclib, batch
    try:
        # memory.atomic.wait32/wait64 compare a cell: in the forced big-endian configuration that access needs its byte reversal too
        # (the single-threaded emission probes of C17 E1, futex.c compiled for that configuration; cells are not byte palindromes)
        dw = scratch('c19w')
        rc, err = batch.translate(c17.module(), dw, w2c2=mclib.w2c2_binary())
        if rc != 0:
            raise mclib.PipelineFailure('w2c2 failed on the wait/notify module', err)
        nprobe = c17.run_e1(chk, dw, be=True)
        chk.add(evaluations=nprobe)
        parts['wait/notify probes (forced BE)'] = {'evaluations': nprobe}
        parts['big-endian RMW path under the scheduler'] = c16_sched.sched_part(chk, tier, be_only=True)
    except mclib.PipelineFailure as e:
        mclib.report_pipeline_failure(chk, e, 'bin/check C19 quick')
        return chk.finish()
    except mclib.MachineryError as e:
        print('MACHINERY-ERROR C19: %s' % e)
        return 2
    # the endianness DETECTION chain of the runtime header, preprocessed under models of hosts: (true byte order, the macros its toolchain and
    # system headers define).  The chain must arrive at the host's byte order for every model.
    nmodels, wrong = detection_models(chk)
    chk.add(evaluations=nmodels)
    parts['endianness detection chain under host models'] = {'models': nmodels, 'wrong': wrong}
    # the WASI host writes its results into guest memory too: the same scenario with wasi.c built for the little-endian and for the forced
    # big-endian configuration; every field read back through the typed loads of the same build must have the same value (wasix/beprobe.c)
    import wasix
    try:
        hle = wasix.Harness(['beprobe.c'], 'beprobe-le')
        hbe = wasix.Harness(['beprobe.c'], 'beprobe-be', extra=['-DWASM_ENDIAN=WASM_BIG_ENDIAN'])
    except RuntimeError as e:
        print('MACHINERY-ERROR C19: %s' % e)
        return 2
    nfields = 0
    for ns in (0, 1):
        rl, rb = hle.run_lines('x', [str(ns)])[0], hbe.run_lines('x', [str(ns)])[0]
        vl = [x for x in rl['info'] if x.startswith('V ')]; vb = [x for x in rb['info'] if x.startswith('V ')]
        nsname = ('wasi_snapshot_preview1', 'wasi_unstable')[ns]
        if not rl['done'] or len(vl) < 60:
            print('MACHINERY-ERROR C19: the little-endian build of the WASI probe did not finish: %r %r' % (rl['san'][:5], vl[-3:])); return 2
        if not rb['done']:
            chk.violation('wasi-host|forced-be|crash', {'kind': 'config', 'namespace': nsname, 'report': rb['san'][:20], 'how_to_replay': 'python3 checks/c19.py quick (wasix/beprobe.c)'},
                          'WASI host built for the forced big-endian configuration did not finish the probe scenario: %s' % ' / '.join(rb['san'][:3]))
            continue
        bad = [x for x in vl if 'bytes-that-differ' in x and not x.endswith(' 0')] + [x for x in vb if 'bytes-that-differ' in x and not x.endswith(' 0')]
        for x in bad:
            chk.violation('wasi-host|fd_readdir|truncated-record-not-a-prefix', {'kind': 'config', 'namespace': nsname, 'line': x, 'how_to_replay': 'python3 checks/c19.py quick (wasix/beprobe.c)'},
                          '%s.fd_readdir with a buffer that ends inside the second record wrote bytes that differ from the complete listing (%s)' % (nsname, x))
        for a_, b_ in zip(vl, vb):
            nfields += 1
            if a_ != b_:
                fld = a_.split()[1]
                chk.violation('wasi-host|forced-be|%s' % fld.split('.')[0], {'kind': 'config', 'namespace': nsname, 'little_endian_build': a_, 'forced_big_endian_build': b_, 'how_to_replay': 'python3 checks/c19.py quick (wasix/beprobe.c)'},
                              '%s: field %s read back through the typed loads is %s in the little-endian build and %s in the forced big-endian build of wasi.c' % (nsname, fld, a_.split(' ', 2)[2], b_.split(' ', 2)[2]))
        if len(vl) != len(vb):
            chk.violation('wasi-host|forced-be|scenario-diverges', {'kind': 'config', 'namespace': nsname, 'fields': [len(vl), len(vb)]}, 'the probe scenario printed %d fields in the little-endian and %d in the forced big-endian build' % (len(vl), len(vb)))
    chk.add(evaluations=nfields)
    parts['WASI host results read back field by field, LE build vs forced-BE build'] = {'fields_compared': nfields}
    chk.cov['parts'] = parts
    chk.cov['rule'] = ('forced configuration -DWASM_ENDIAN=WASM_BIG_ENDIAN on the little-endian host vs. the reference in big-endian-image mode: all 23 plain load/store '
                       'flavours x 5 static offsets x 18 base addresses (aligned and odd) x values, all 14 atomic loads/stores and 49 RMW/cmpxchg flavours (mutex based path), '
                       'bulk operations and data segments followed by loads of every width (BFS over histories); after every store/RMW ALL memory bytes are compared, so '
                       'mixed-width sequences (store w1, load w2 at overlapping addresses) are covered; the same cases with the switch off; the forced-BE translator must '
                       'read f32/f64 immediates with exactly one byte reversal and leave integer immediates alone; the swap_* helpers reverse exactly their width; '
                       'the mutex-based RMW path additionally under the controlled scheduler (2 threads, same cell, all interleavings, linearizability on the big-endian image); the WASI host (wasi.c) built for both configurations runs one scenario (args, environ, prestat, open/write/seek/read through iovecs, fdstat, filestat, readlink, clocks, fd_readdir complete and with every buffer length that cuts the second record) and every field it stored into guest memory is read back through the typed loads of the same build: values must agree')
    chk.sample({'case': 'i64.store32 offset=1 at base 0xfffd, then i32.load16_s at 0xffff', 'mode': 'forced big endian'})
    chk.assumptions += ['real big-endian hardware is not available; the endianness detection chain is evaluated under 92 host models (sets of predefined macros), not on real toolchains; the portable swap macros are exercised by the plain load/store flavours only']
    return chk.finish()


if __name__ == '__main__':
    sys.exit(main(sys.argv[1] if len(sys.argv) > 1 else 'quick'))
