#!/usr/bin/env python3
"""C20 The translator touches only its own output files.
Product of output-path shapes x working directory x options x pre-existing directory contents (near-miss names).
Two monitors on every run of the real translator: a full tree snapshot before/after, and an strace log of every
file-system mutating call.  The allowed set is computed by an own model of the documented behaviour."""
import sys, os, re, hashlib, itertools, json, shutil, subprocess, tempfile
sys.path.insert(0, os.path.dirname(os.path.abspath(__file__)))
from numeric import *
from c08 import handbuilt
from concurrent.futures import ProcessPoolExecutor

IMPL = re.compile(r'^[sd][0-9]{10}\.c$')      # restated from the documentation, not read from the code
NEAR = ['s0000000001.c', 'd0000000002.c', 'x0000000001.c', 'S0000000001.c', 's000000001.c', 's00000000001.c', 's000000000a.c', 's0000000001.h',
        's0000000001.cc', 's0000000001.c~', 'datasegments', 'out.h', 'other.c', 'ss000000001.c', 'd00000000010c', 's0000000001.C', 'd-000000001.c', 'd0000000009.c.bak',
        # 13 characters, s/d in front, .c at the end, but a dot / a blank / a sign inside the ten-character field
        'out.c.tmp', 'out.tmp', 'out.c~', 'out.h.tmp', '.out.c.swp', 'out.c.bak', 'out.c.new',     # names an "atomic replace" / editor would use
        'd2024.01.02.c', 's00000000.c.c', 's.123456789.c', 's 000000001.c', 'd+000000001.c', 's0x00000001.c', 'd00000000.1.c']
LONGDIR = 'L' * 250        # < NAME_MAX, but the directory PART of the output path is then longer than 255 bytes


def snapshot(root):
    out = {}
    for dp, dns, fns in os.walk(root, followlinks=False):
        for n in dns + fns:
            p = os.path.join(dp, n)
            rel = os.path.relpath(p, root)
            if os.path.islink(p):
                out[rel] = ('link', os.readlink(p))
            elif os.path.isdir(p):
                out[rel] = ('dir',)
            else:
                with open(p, 'rb') as f:
                    out[rel] = ('file', hashlib.sha1(f.read()).hexdigest())
    return out


def populate(root, variant):
    """pre-existing contents; variant selects which near-miss names exist where"""
    for d in ('in', 'cwd', 'out', 'out/sub', 'out/sub.d', 'elsewhere', 'out/' + LONGDIR, 'out/' + LONGDIR + '/' + 'M' * 60):
        os.makedirs(os.path.join(root, d), exist_ok=True)
    os.symlink('out', os.path.join(root, 'lnk'))
    if variant == 2:
        # the output file of an earlier run is a symbolic link to a file in ANOTHER directory (out/out.c -> ../elsewhere/real.c)
        with open(os.path.join(root, 'elsewhere', 'real.c'), 'w') as f:
            f.write('target of the link out/out.c\n')
        os.symlink('../elsewhere/real.c', os.path.join(root, 'out', 'out.c'))
    dirs = ['out', 'out/sub', 'out/sub.d', 'elsewhere', 'cwd', 'out/' + LONGDIR, 'out/' + LONGDIR + '/' + 'M' * 60]
    for di, d in enumerate(dirs):
        for ni, n in enumerate(NEAR):
            if variant == 0 or (variant == 1 and (ni + di) % 2 == 0) or (variant == 2 and (ni + di) % 3 == 0):
                with open(os.path.join(root, d, n), 'w') as f:
                    f.write('pre-existing %s in %s\n' % (n, d))
        # a DIRECTORY whose name matches the pattern, non-empty so that it cannot be removed by accident
        os.makedirs(os.path.join(root, d, 'd0000000003.c'), exist_ok=True)
        with open(os.path.join(root, d, 'd0000000003.c', 'keep'), 'w') as f:
            f.write('x')


OUTSHAPES = [('out', 'out.c'), ('out', './out.c'), ('out', '../out/out.c'), ('out', 'sub/out.c'), ('cwd', 'ABS/out/out.c'), ('out', 'outx'), ('out', 'out.tar.c'),
             ('out', LONGDIR + '/out.c'), ('cwd', '../lnk/out.c'), ('cwd', '../out/sub/a_rather_long_basename_for_the_output_file.c'), ('out', 'sub/../out.c'),
             # no extension in the file name while a DIRECTORY component contains a dot
             ('out', LONGDIR + '/' + 'M' * 60 + '/out.c'),      # the directory part of a RELATIVE output path is longer than 255 bytes
             ('out', 'out.c/'), ('cwd', '../out/sub/out.c//'),      # trailing separators after the file name
             ('out', './outx'), ('cwd', '../out/outx'), ('out', 'sub.d/outx'), ('cwd', 'ABS/out/sub.d/outx'), ('out', 'sub.d/out.c')]


def model(root, cwd, outpath, opts):
    """allowed effects: (dir, set of allowed created/overwritten names or pattern, deletions allowed?)"""
    p = outpath.replace('ABS', root)
    # the directory part is resolved physically, the file name is taken as given: the output file itself may be a symbolic link (a re-run
    # over a linked file writes THROUGH the link, everything else still belongs into the directory of the path that was given)
    lex = os.path.join(root, cwd, p).rstrip('/')
    outdir = os.path.realpath(os.path.dirname(lex))
    base = os.path.basename(lex)
    stem = base[:base.rindex('.')] if '.' in base else base
    header = stem + '.h'
    allowed = {base, header}
    if 'gnu-ld' in opts:
        allowed.add('datasegments')
    through = set()
    for n in (base, header):
        lp = os.path.join(outdir, n)
        if os.path.islink(lp):
            through.add(os.path.realpath(lp))
    model.through = through
    return outdir, allowed, '-c' in opts


WRITE_CALLS = ('openat', 'open', 'creat', 'unlink', 'unlinkat', 'rename', 'renameat', 'renameat2', 'truncate', 'mkdir', 'mkdirat', 'rmdir', 'symlink', 'symlinkat', 'link', 'linkat', 'chmod', 'fchmodat', 'chdir')


def parse_strace(log, start_cwd):
    """returns list of (action, absolute path)"""
    cwd = start_cwd
    eff = []
    for line in log.splitlines():
        m = re.match(r'^(?:\d+\s+)?(\w+)\((.*)\)\s+=\s+(-?\d+)', line)
        if not m:
            continue
        call, args, ret = m.group(1), m.group(2), int(m.group(3))
        if ret < 0:
            continue
        paths = re.findall(r'"((?:[^"\\]|\\.)*)"', args)

        def ab(p):
            return os.path.normpath(os.path.join(cwd, p))
        if call == 'chdir' and paths:
            cwd = ab(paths[0])
        elif call in ('openat', 'open') and paths:
            if re.search(r'O_WRONLY|O_RDWR|O_CREAT|O_TRUNC|O_APPEND', args):
                eff.append(('write', ab(paths[0])))
        elif call == 'creat' and paths:
            eff.append(('write', ab(paths[0])))
        elif call in ('unlink', 'unlinkat', 'rmdir') and paths:
            eff.append(('delete', ab(paths[0])))
        elif call in ('rename', 'renameat', 'renameat2') and len(paths) >= 2:
            eff.append(('delete', ab(paths[0]))); eff.append(('write', ab(paths[1])))
        elif call in ('truncate', 'mkdir', 'mkdirat', 'symlink', 'symlinkat', 'link', 'linkat', 'chmod', 'fchmodat') and paths:
            eff.append(('write', ab(paths[-1])))
    return eff


def run_one(job):
    idx, w2c2, wasm, refwasm, cwd, outpath, opts, variant = job[:8]
    mode = job[8] if len(job) > 8 else 'ok'      # 'fails': the run is expected to end with an error (module the code generator rejects, or a directory that cannot be entered)
    root = tempfile.mkdtemp(prefix='c20.', dir='/dev/shm')
    root = os.path.realpath(root)
    try:
        populate(root, variant)
        with open(os.path.join(root, 'in', 'm.wasm'), 'wb') as f:
            f.write(wasm)
        with open(os.path.join(root, 'in', 'ref.wasm'), 'wb') as f:
            f.write(refwasm)
        # "ghost" files: what a RELATIVE output path names when it is resolved again after the translator has changed into the output directory
        # (<outdir>/<outpath> and the header next to it); they belong to somebody else and must survive
        if not outpath.startswith('ABS') and len(outpath) < 200:
            od = os.path.dirname(os.path.normpath(os.path.join(root, cwd, outpath.rstrip('/'))))
            ghost = os.path.normpath(os.path.join(od, outpath.rstrip('/')))
            if os.path.isdir(od) and ghost.startswith(root + '/') and os.path.realpath(os.path.dirname(ghost)) != os.path.realpath(od):
                try:
                    os.makedirs(os.path.dirname(ghost), exist_ok=True)
                    for g in (ghost, os.path.splitext(ghost)[0] + '.h'):
                        if not os.path.lexists(g):
                            with open(g, 'w') as f:
                                f.write('ghost of a stale relative path\n')
                except OSError:
                    pass
        before = snapshot(root)
        args = [a if a != 'REF' else os.path.join(root, 'in', 'ref.wasm') for a in opts]
        op = outpath.replace('ABS', root)
        log = os.path.join(root, '..', os.path.basename(root) + '.strace')
        cmd = ['strace', '-f', '-qq', '-e', 'trace=' + ','.join(WRITE_CALLS), '-o', log, w2c2] + args + [os.path.join(root, 'in', 'm.wasm'), op]
        r = subprocess.run(cmd, cwd=os.path.join(root, cwd), stdout=subprocess.PIPE, stderr=subprocess.PIPE, timeout=120)
        after = snapshot(root)
        try:
            slog = open(log).read(); os.unlink(log)
        except OSError:
            slog = ''
        outdir, allowed, may_delete = model(root, cwd, outpath, opts)
        problems = []
        if r.returncode != 0 and mode != 'fails':
            problems.append(('exit', 'exit status %d: %s' % (r.returncode, r.stderr.decode(errors='replace')[-200:])))

        through = set(model.through)

        def ok_write(p):
            if os.path.realpath(p) in through and not os.path.islink(p):
                return True         # the target of a pre-existing link that has the name of the output file / header
            d, n = os.path.dirname(os.path.realpath(p) if os.path.exists(p) else os.path.normpath(p)), os.path.basename(p)
            rd = os.path.realpath(os.path.dirname(p))
            return rd == outdir and (n in allowed or IMPL.match(n) is not None)

        def ok_delete(p):
            rd = os.path.realpath(os.path.dirname(p))
            # a run that fails may remove what it was allowed to create itself (a truncated output file is no use to anybody)
            if mode == 'fails' and rd == outdir and os.path.basename(p) in allowed:
                return True
            return may_delete and rd == outdir and IMPL.match(os.path.basename(p)) is not None
        neffects = 0
        # monitor 1: snapshots
        for rel in set(before) | set(after):
            p = os.path.join(root, rel)
            if rel not in after:
                neffects += 1
                if not ok_delete(p):
                    problems.append(('deleted', rel))
            elif rel not in before:
                neffects += 1
                if not ok_write(p):
                    problems.append(('created', rel))
            elif before[rel] != after[rel]:
                neffects += 1
                if not ok_write(p):
                    problems.append(('modified', rel))
        # monitor 2: system calls
        for act, p in parse_strace(slog, os.path.join(root, cwd)):
            if not p.startswith(root + '/'):
                if act == 'write' and not p.startswith('/dev/') and not p.startswith('/proc/'):
                    problems.append(('syscall-' + act + '-outside', p))
                continue
            neffects += 1
            if act == 'write' and not ok_write(p):
                problems.append(('syscall-write', os.path.relpath(p, root)))
            if act == 'delete' and not ok_delete(p):
                problems.append(('syscall-delete', os.path.relpath(p, root)))
        # with -c every matching FILE of the output directory must be gone unless re-created by this run (documented behaviour)
        if may_delete and r.returncode == 0:
            for rel, v in before.items():
                p = os.path.join(root, rel)
                if v[0] == 'file' and IMPL.match(os.path.basename(rel)) and os.path.realpath(os.path.dirname(p)) == outdir and after.get(rel) == v:
                    problems.append(('not-cleaned', rel))
        return idx, neffects, problems, (len(slog.splitlines()))
    finally:
        shutil.rmtree(root, ignore_errors=True)


def main(tier):
    chk = Check('C20', 'exploration', tier)
    w2c2 = build_w2c2('plain')
    hb = dict(handbuilt())
    wasm = hb['hand-all']
    # reference module: same functions, one body changed
    m = Module()
    m.add_func('ii', 'i', (), local_get(0), export='f')
    refwasm = m.encode()
    fm = Module()
    fm.add_func('', 'i', (), i32_const(1), export='a')
    fm.add_func('', '', (), b'\xd0\x70' + DROP, export='b')
    failwasm = fm.encode()
    if tier == 'replay':
        r = json.load(open(sys.argv[2]))
        idx, neff, problems, nlog = run_one((0, w2c2, failwasm if r.get('input') == 'rejected-by-code-generator' else wasm, refwasm, r['cwd'], r['outpath'], r['options'], r['variant'], r.get('mode', 'ok')))
        print(problems)
        print('REPLAY: %s' % ('violation reproduced' if problems else 'case passes on the current tree'))
        return 1 if problems else 0
    jobs = []
    optsets = []
    for f, t, d, c, r, g, p, mm in itertools.product((0, 1, 2), (1, 3), ('arrays', 'gnu-ld'), (0, 1), (0, 1), (0, 1), (0, 1), (0, 1)):
        o = ['-f', str(f), '-t', str(t), '-d', d]
        if c: o.append('-c')
        if r: o += ['-r', 'REF']
        if g: o.append('-g')
        if p: o.append('-p')
        if mm: o.append('-m')
        optsets.append(o)
    if tier == 'quick':
        # every option value appears with every output shape; the full product is the thorough tier
        optsets = [o for k, o in enumerate(optsets) if k % 11 == 0 or o[-1:] == ['-c'] and k % 5 == 0]
    k = 0
    for (cwd, outpath) in OUTSHAPES:
        for o in optsets:
            for variant in ((0, 1, 2) if tier == 'thorough' else (k % 3,)):
                jobs.append((len(jobs), w2c2, wasm, refwasm, cwd, outpath, o, variant))
            k += 1
    # runs that END WITH AN ERROR must keep to the same rules: (a) a valid module the code generator rejects half-way (ref.null), every shape;
    # (b) an output directory that does not exist / whose component is a regular file / that may not be searched: nothing may be written or
    # deleted anywhere (in particular not in the invoking directory)
    some = [o for k, o in enumerate(optsets) if k % 7 == 0] if tier == 'quick' else optsets[::3]
    for (cwd, outpath) in OUTSHAPES:
        for k2, o in enumerate(some):
            jobs.append((len(jobs), w2c2, failwasm, refwasm, cwd, outpath, o, k2 % 3, 'fails'))
    for (cwd, outpath) in (('cwd', 'missing/out.c'), ('cwd', '../in/m.wasm/out.c'), ('out', 'sub/missing/deeper/out.c'), ('cwd', 'ABS/nowhere/out.c'), ('cwd', '../out/d0000000003.c/keep/out.c')):
        for k2, o in enumerate(optsets if tier == 'thorough' else optsets[::2]):
            jobs.append((len(jobs), w2c2, wasm, refwasm, cwd, outpath, o, k2 % 3, 'fails'))
    with ProcessPoolExecutor(NCPU) as ex:
        results = list(ex.map(run_one, jobs, chunksize=4))
    nontrivial = 0
    for job, (idx, neff, problems, nlog) in zip(jobs, results):
        chk.add(evaluations=1)
        if neff > 0:
            nontrivial += 1
        if nlog == 0:
            chk.violation('machinery|no-strace-log', {'kind': 'config', 'job': job[4:]}, 'strace produced no log')
        seen = set()
        for kind, what in problems:
            name = os.path.basename(what) if kind != 'exit' else ''
            key = '%s|%s|%s' % (kind, name if not IMPL.match(name) else 'impl-file-pattern', 'shape=' + job[5].replace(LONGDIR, 'LONG'))
            if key in seen:
                continue
            seen.add(key)
            chk.violation(key, {'kind': 'config', 'cwd': job[4], 'outpath': job[5], 'options': job[6], 'variant': job[7], 'mode': job[8] if len(job) > 8 else 'ok', 'input': 'rejected-by-code-generator' if job[2] is failwasm else 'hand-all', 'problem': [kind, what], 'replay_module': 'c20.py'},
                          'cwd=%s output=%s options=%s: %s %s' % (job[4], job[5].replace(LONGDIR, 'L*250'), ' '.join(job[6]), kind, what.replace(LONGDIR, 'L*250')))
    chk.cov['distinct_nontrivial'] = nontrivial
    chk.cov['output_shapes'] = [s[1].replace(LONGDIR, 'L*250') for s in OUTSHAPES]
    chk.cov['option_sets'] = len(optsets)
    chk.cov['near_miss_names'] = NEAR + ['d0000000003.c/ (directory)']
    chk.cov['rule'] = ('every output-path shape (relative, ./, ../, nested, absolute, no extension, two extensions, 250-character directory, through a symlinked '
                       'directory, long basename, extension-less name below ./, ../ and a directory whose name contains a dot) x working directory x option sets (thorough: the full product {-f 0,1,2}x{-t 1,3}x{-d arrays,gnu-ld}x{-c}x{-r}x{-g}x{-p}x{-m} '
                       'x 3 layouts of pre-existing near-miss names in the output directory, its sub-directory, the working directory and an unrelated directory); '
                       'monitors: tree snapshot diff + strace of every mutating call; allowed: output, header, [sd][0-9]{10}.c, datasegments (gnu-ld only) in '
                       'dirname(output); deletions only of pattern names there and only with -c. distinct_nontrivial = runs with at least one observed effect')
    chk.sample({'cwd': 'out', 'output': './out.c', 'options': '-f 1 -t 3 -d gnu-ld -c -r REF', 'pre-existing': NEAR[:6]})
    chk.assumptions += ['strace sees every file-system mutating system call of the process and its threads']
    return chk.finish()


if __name__ == '__main__':
    sys.exit(main(sys.argv[1] if len(sys.argv) > 1 else 'quick'))
