#!/usr/bin/env python3
"""C15 (e): wasi thread-spawn under the controlled scheduler (real wasi.c, translated module, mc/h_spawn.c).

Parent threads of one shared-memory instance family call the translated import wasi.thread-spawn concurrently; wasi.c's
pthread_create is renamed to the model, so the spawned threads are model threads too; nextThreadID's atomic add is a scheduling
point (mc/atomic_points.h).  ALL interleavings up to the preemption bound run in a plain, a TSan and an ASan build.  Oracle:
returned identifiers are positive and pairwise distinct; wasi_thread_start ran exactly once per spawn with (that id, that
argument) - run counter and recorded id live in the SHARED memory, so the start function's instance shares the parent's memory;
the instance-local global of the root and of every parent is untouched (the start function ran on another instance).  Variant
module without the export: every spawn returns a negative value and nothing runs.

usage (stand-alone): c15_sched.py replay <replays/C15-*.json>"""
import itertools, json, os, sys, time
sys.path.insert(0, os.path.join(os.path.dirname(os.path.abspath(__file__)), '..', 'lib'))
from vcommon import *
from wasmenc import *
import batch, mclib


def module(with_export=True):
    m = Module()
    m.import_func('wasi', 'thread-spawn', 'i', 'i')
    m.mems.append((1, 1, True))
    m.globals.append((I32, 1, i32_const(0)))
    m.add_func('i', 'i', (), local_get(0) + call(0), export='spawn')
    body = (local_get(1) + i32_const(4) + op(0x6c) + i32_const(1) + atomic(0x1e, 2, 0) + DROP +
            local_get(1) + i32_const(4) + op(0x6c) + local_get(0) + atomic(0x17, 2, 256) + local_get(0) + global_set(0))
    # look-alike export names on both sides of the real one: a longer name with the same prefix BEFORE it in the export section, a shorter
    # one and one with a character in front after it; the module "without the export" has ONLY look-alikes (wasi_thread_starter, ...)
    decoy = m.add_func('ii', '', (), local_get(1) + i32_const(4) + op(0x6c) + i32_const(1000) + atomic(0x1e, 2, 0) + DROP)
    m.exports.append(('wasi_thread_start_hook', 0, decoy))
    m.add_func('ii', '', (), body, export='wasi_thread_start' if with_export else 'wasi_thread_starter')
    m.exports.append(('wasi_thread_star', 0, decoy)); m.exports.append(('_wasi_thread_start', 0, decoy)); m.exports.append(('wasi_thread_start\x01', 0, decoy))
    if not with_export:
        m.exports = [e for e in m.exports if e[0] != 'wasi_thread_start_hook'] + [('wasi_thread_start_hook', 0, decoy)]
    return m.encode()


def module2(step, with_export=True):
    """variant for the two-module scenario: the start function adds `step` to cell[arg]"""
    m = Module()
    m.import_func('wasi', 'thread-spawn', 'i', 'i')
    m.mems.append((1, 1, True))
    m.add_func('i', 'i', (), local_get(0) + call(0), export='spawn')
    body = local_get(1) + i32_const(4) + op(0x6c) + i32_const(step) + atomic(0x1e, 2, 0) + DROP
    m.add_func('ii', '', (), body, export='wasi_thread_start' if with_export else 'some_other_export')
    return m.encode()


def build2(flavours, root, b_exports):
    """two different modules translated with -m (module-name prefixes) linked into one harness with the real wasi.c"""
    d = os.path.join(root, 'spawn2-%s' % ('both' if b_exports else 'b-noexport'))
    os.makedirs(d, exist_ok=True)
    for name, wasm in (('ma', module2(1)), ('mb', module2(100, b_exports))):
        rc, err = batch.translate(wasm, d, w2c2=mclib.w2c2_binary(), w2c2_args=('-m',), modname=name)
        if rc != 0:
            raise mclib.PipelineFailure('w2c2 -m failed on the two-module thread-spawn scenario', err)
    defs = ['-include', os.path.join(mclib.MC, 'atomic_points.h'), '-std=gnu99'] + WASI_DEFS + ([] if b_exports else ['-DB_NOEXPORT'])
    srcs = [os.path.join(d, 'ma.c'), os.path.join(d, 'mb.c'), os.path.join(mclib.MC, 'h_spawn2.c'), os.path.join(REPO, 'wasi', 'wasi.c')]
    exes = dict(pmap(lambda fl: (fl, mclib.build_harness(d, fl, srcs, incs=[d, os.path.join(REPO, 'w2c2'), os.path.join(REPO, 'wasi')], defs=defs)), flavours))
    return exes, d


def oracle2(job, o):
    """two modules: every spawn through module X with the export runs X's start function once (counter += step of X, in X's
    memory only); a spawn through a module without the export returns a negative value and runs nothing"""
    if o['status'] != 'ok':
        return [('spawn2|terminal|' + o['status'], 'threads did not all terminate: %s' % o['end'])]
    fails = []
    rets = {}
    for ln in o['obs'].strip().split('\n'):
        w = ln.split()
        if len(w) >= 5 and w[1] == 'r':
            rets[int(w[3][1:])] = (w[3][0], int(w[4]))
    cells = {}
    for x in o['end'].split():
        if x.startswith('x') and ':' in x:
            a, rest = x[1:].split(':')
            kv = dict(p.split('=') for p in rest.split(','))
            cells[int(a)] = (int(kv['inA']), int(kv['inB']))
    desc = 'returned %s; counters (in ma, in mb) %s' % (rets, cells)
    ids = [r for mod, r in rets.values() if r > 0]
    if len(set(ids)) != len(ids):
        fails.append(('spawn2|duplicate-id', 'two spawns returned the same identifier: %s' % desc))
    for a, (mod, r) in rets.items():
        want = (1, 0) if mod == 'a' else ((0, 100) if job['b_exports'] else (0, 0))
        if mod == 'b' and not job['b_exports']:
            if r >= 0:
                fails.append(('spawn2|no-export|non-negative-result', 'module mb does not export wasi_thread_start but its thread-spawn(%d) returned %d: %s' % (a, r, desc)))
        elif r <= 0:
            fails.append(('spawn2|non-positive-id', 'thread-spawn(%d) through module m%s returned %d: %s' % (a, mod, r, desc)))
        if cells.get(a) != want:
            fails.append(('spawn2|wrong-start-function', 'spawn(%d) through module m%s: run counters (ma, mb) = %s, specified %s (ma\'s start function adds 1 in ma\'s memory, mb\'s adds 100 in mb\'s): %s' % (
                a, mod, cells.get(a), want, desc)))
    return fails


def build(flavours, root=None, with_export=True):
    d = os.path.join(root or scratch('c15s'), 'spawn' if with_export else 'spawn-noexport')
    os.makedirs(d, exist_ok=True)
    rc, err = batch.translate(module(with_export), d, w2c2=mclib.w2c2_binary())
    if rc != 0:
        raise mclib.PipelineFailure('w2c2 failed on the thread-spawn module', err)
    defs = ['-include', os.path.join(mclib.MC, 'atomic_points.h'), '-std=gnu99'] + WASI_DEFS
    srcs = [os.path.join(d, 'm.c'), os.path.join(mclib.MC, 'h_spawn.c'), os.path.join(REPO, 'wasi', 'wasi.c')]
    exes = dict(pmap(lambda fl: (fl, mclib.build_harness(d, fl, srcs, incs=[d, os.path.join(REPO, 'w2c2'), os.path.join(REPO, 'wasi')], defs=defs)), flavours))
    return exes, d


def oracle(job, o):
    fails = []
    if o['status'] != 'ok':
        return [('spawn|terminal|' + o['status'], 'threads did not all terminate: %s' % o['end'])]
    rets = {}
    for ln in o['obs'].strip().split('\n'):
        w = ln.split()
        if len(w) >= 5 and w[1] == 'r':
            rets[int(w[3])] = int(w[4])
    end = o['end'].split()
    cells = {}
    glob = {}
    for x in end:
        if x.startswith('a') and ':' in x:
            a, rest = x[1:].split(':')
            kv = dict(p.split('=') for p in rest.split(','))
            cells[int(a)] = (int(kv['runs']), int(kv['tid']))
        elif 'g=' in x:
            k, v = x.split('=')
            glob[k] = int(v)
    desc = 'returned %s; cells %s; globals %s' % (rets, cells, glob)
    if job.get('noexport'):
        for a, r in rets.items():
            if r >= 0:
                fails.append(('spawn|no-export|non-negative-result', 'module does not export wasi_thread_start but thread-spawn(%d) returned %d' % (a, r)))
        if any(c[0] for c in cells.values()):
            fails.append(('spawn|no-export|something-ran', 'module does not export wasi_thread_start but a start function ran: %s' % desc))
        return fails
    # arguments >= 20: the native thread creation of that spawn FAILS (environment answer, mc_fail_next_create): negative result, nothing runs
    for a, r in list(rets.items()):
        if a >= 20:
            if r >= 0:
                fails.append(('spawn|creation-failed|non-negative-result', 'the native thread creation for thread-spawn(%d) failed, but it returned %d: %s' % (a, r, desc)))
            if cells.get(a, (0, 0))[0] != 0:
                fails.append(('spawn|creation-failed|something-ran', 'the native thread creation for thread-spawn(%d) failed, but a start function ran: %s' % (a, desc)))
            del rets[a]
    ids = list(rets.values())
    if any(r <= 0 for r in ids):
        fails.append(('spawn|non-positive-id', 'thread-spawn returned a non-positive identifier: %s' % desc))
    if len(set(ids)) != len(ids):
        fails.append(('spawn|duplicate-id', 'two spawns returned the same identifier: %s' % desc))
    for a, r in rets.items():
        runs, tid = cells.get(a, (None, None))
        if runs != 1:
            fails.append(('spawn|start-function-ran-%s-times' % runs, 'wasi_thread_start for argument %d ran %s times (must be exactly once per spawn): %s' % (a, runs, desc)))
        elif tid != r:
            fails.append(('spawn|start-function-got-other-id', 'wasi_thread_start for argument %d received id %s but thread-spawn returned %d: %s' % (a, tid, r, desc)))
    if any(v != 0 for v in glob.values()):
        fails.append(('spawn|ran-on-parent-instance', 'the instance-local global of a parent instance was modified by wasi_thread_start (it must run on a new child instance): %s' % desc))
    return fails


def make_cases(tier):
    """(parent words, pb plain, pb sanitizer builds, round).  Measured schedules (plain): 2 parents x 1 spawn: pb 1/2 = 270 / 1 502;
    2+1 spawns: 2 502 / 26 439; 3 parents x 1: pb 1/2 = 19 432 / 258 342"""
    cs = [(['1', '2'], 2, 2, 0), (['1.2'], 2, 2, 0), (['1.2', '3'], 2, 1, 0), (['1', '2', '3'], 1, 0, 0),
          # a spawn whose native thread creation fails, next to spawns that succeed (identifiers must stay distinct)
          (['21.1', '2'], 2, 1, 0), (['1', '22'], 2, 2, 0), (['21.22.3'], 1, 1, 0)]
    if tier != 'quick':
        cs += [(['1', '2'], 4, 3, 1), (['1.2', '3'], 3, 2, 1), (['1.2', '3.4'], 2, 1, 2), (['1', '2', '3'], 2, 1, 2), (['1.2.3'], 3, 3, 1)]
    return cs


def sched_part(chk, tier):
    budget = 100 if tier == 'quick' else 600
    deadline_at = time.time() + budget
    root = scratch('c15s')
    flavours = ('plain', 'tsan', 'asan')
    exes, d = build(flavours, root)
    exes_n, dn = build(('plain', 'asan'), root, with_export=False)
    jobs = []
    for words, pb, spb_, rnd in make_cases(tier):
        for fl in flavours:
            p = pb if fl == 'plain' else spb_
            jobs.append({'case': {'parents': words}, 'words': words, 'exe': exes[fl], 'flavour': fl, 'pb': p, 'db': 0, 'spurious': 0, 'mix': '%d parents, %d spawns' % (len(words), sum(len(w.split('.')) for w in words)),
                         'jobs': 16 if p >= 2 else 4, 'weight': 30 ** p * len(words), 'round': rnd})
    for words in (['1'], ['1', '2']):
        for fl in ('plain', 'asan'):
            jobs.append({'case': {'parents': words, 'module': 'without wasi_thread_start export'}, 'words': words, 'exe': exes_n[fl], 'flavour': fl, 'pb': 1, 'db': 0, 'spurious': 0, 'noexport': True,
                         'mix': 'no export', 'jobs': 4, 'weight': 1})
    # two different modules in one process (w2c2 -m): module ma has the export, mb has its own / has none
    d2s = []
    for b_exports in (True, False):
        exes2, d2 = build2(('plain', 'tsan'), root, b_exports)
        d2s.append(d2)
        for words, pb in ((['a1.b2'], 1), (['b2.a1'], 1), (['a1', 'b2'], 2 if tier != 'quick' else 1), (['a1.b2.a3'], 1)):
            for fl in ('plain', 'tsan'):
                jobs.append({'case': {'parents': words, 'modules': 'ma exports wasi_thread_start (+1), mb %s' % ('exports its own (+100)' if b_exports else 'does not export it')}, 'words': words, 'exe': exes2[fl],
                             'flavour': fl, 'pb': pb, 'db': 0, 'spurious': 0, 'two': True, 'b_exports': b_exports, 'mix': 'two modules', 'jobs': 4, 'weight': 5})
    mx = mclib.Matrix(chk, [REPO, d, dn] + d2s, projection=lambda o: (o['status'], tuple(sorted(l for l in o['obs'].split('\n') if ' r ' in l)), o['end']))
    mx.replay_module = 'c15_sched.py'
    mx.run(jobs, lambda job, o: oracle2(job, o) if job.get('two') else oracle(job, o), deadline_at)
    mx.report('checks/c15_sched.py', lambda ex, r, key: True)
    st = mx.stats
    if not st['exhaustive']:
        chk.cov['exhaustive'] = False
    spb, cum = {}, 0
    for p in sorted(mx.per_bound):
        cum += mx.per_bound[p]
        spb[str(p)] = {'new': mx.per_bound[p], 'cumulative': cum}
    return {'schedules': st['schedules'], 'cases': st['cases'], 'distinct_end_states': st['states'], 'transitions': st['transitions'], 'schedules_by_flavour': st['schedules_by_flavour'],
            'schedules_per_preemption_bound': spb, 'by_case_and_bounds': st.get('by_mix', {}), 'exhaustive': st['exhaustive'], 'max_steps_per_execution': st['maxsteps'],
            'cases_with_more_than_one_outcome': st['nontrivial_cases']}


def replay_file(path):
    obj = json.load(open(path))
    noexp = 'module' in obj['case']
    exes, d = build([obj['flavour']], with_export=not noexp)
    r = mclib.replay(exes[obj['flavour']], obj['words'], obj['schedule'])
    print('case      :', json.dumps(obj['case']), ' flavour:', obj['flavour'], ' schedule:', r['sched'])
    print('trace     :\n' + r['trace'])
    print('observations:\n' + r['obs'])
    print('end state :', r['end'], ' status:', r['status'], ' sanitizer:', r['san'])
    if r['san']:
        print(r['stderr'][:5000])
    fails = oracle({'noexport': noexp}, r) if r['status'] in ('ok', 'blocked') else [('spawn|terminal|' + r['status'], r['err'])]
    if r['san']:
        fails.append(mclib.classify_report(r['stderr'], [REPO, d])[:1] + ('sanitizer report',))
    for f in fails:
        print('ORACLE    :', f[0], '-', f[1])
    return 1 if fails else 0


if __name__ == '__main__':
    if len(sys.argv) > 2 and sys.argv[1] == 'replay':
        sys.exit(replay_file(sys.argv[2]))
