#!/usr/bin/env python3
"""C14 WASI path operations act on the resolved path; directory listings are complete.

E1  every (directory length, trailing slash, guest path length, absolute?) combination around the host path
    limit, through every path-taking call, guest path at the very end of guest memory (ASan-guarded);
E2  breadth-first search over histories of path operations with a POSIX twin on a sibling directory;
E3  fd_readdir for every buffer size and every resume strategy, against the host's own readdir/telldir listing.
All on the real wasi.c through the specification-signature shim; oracles in wasix/paths.c (own constants)."""
import json, os, sys, time
sys.path.insert(0, os.path.dirname(os.path.abspath(__file__)))
from wasix import *

PM = 4096                     # host PATH_MAX (POSIX limits.h on Linux), restated
NSNAME = {0: 'wasi_snapshot_preview1', 1: 'wasi_unstable'}
E1_CALLS = ['create_directory', 'remove_directory', 'unlink_file', 'filestat_get', 'open', 'readlink', 'symlink', 'rename_old', 'rename_new']
E2_NAMES = ['a', 'b', 'd', 'd/a', 'missing/x', '<absolute path of a>', '<256-byte component>', 'a (relative to opened d)', 'n (relative to opened d)', 'a/', 'b/']
# content classes for single operations (histories of length 1 that are not extended)
E2_WIDE = ['./a', 'd/../a', 'd//a', 'd/./a', 'a/.', 'd/.', 'd/..', '.', '..', '/', 'd/', 'd//', 'a b', '-x', 'a\\b', '*', '\xc3\xa9', '\xff\xfe', '%s%n', 'd/a/', './', 'd/../d/a',
           '../a (relative to opened d)', '. (relative to opened d)', './a (relative to opened d)',
           'a (relative to d opened without the directory flag)', 'n (relative to d opened without the directory flag)', '../a (relative to d opened without the directory flag)']
E2_CORE = len(E2_NAMES)
E2_NAMES = E2_NAMES + E2_WIDE
E2_OPS = {'md': 'path_create_directory', 'rd': 'path_remove_directory', 'ul': 'path_unlink_file', 'rn': 'path_rename', 'sl': 'path_symlink',
          'rl': 'path_readlink', 'fs': 'path_filestat_get', 'op': 'path_open'}
RL_MODES = {0: '0', 1: '1', 2: 'exact', 3: 'exact+1'}
OFL = {0: '0', 1: 'CREAT', 2: 'DIRECTORY'}


def make_harness():
    return Harness(['paths.c'], 'paths')


# ------------------------------------------------------------------------------------------------ E1
def e1_cases():
    cases = []
    ds = [(1, 1), (2, 0), (2, 1)] + [(d, s) for d in (100, PM - 3, PM - 2, PM - 1, PM, PM + 1, 2 * PM) for s in (0, 1)]
    for d, slash in ds:
        ps = {0, 1, 2, PM - 2, PM - 1, PM, PM + 1, 2 * PM}
        if d < PM:
            ps |= {p for p in range(PM - d - 3, PM - d + 2) if p > 2}     # the sum crosses the limit here
        for p in sorted(ps):
            for ab in ((0, 1) if p > 0 else (0,)):
                root_target = p <= 2 and (ab or d <= 2) and p > 0
                if d <= 2 and not ab and 2 < p < 120:
                    continue        # a relative path from the root directory must be long enough to name the scratch directory
                for call in E1_CALLS:
                    if root_target and call not in ('filestat_get', 'open'):
                        continue    # the object is the host's root directory: only non-destructive calls
                    if ab and 2 < p < 120:
                        continue
                    for ns in (0, 1):
                        cases.append('%s,%d,%d,%d,%d,%d' % (call, d, slash, p, ab, ns))
    return cases


def e1_describe(line):
    c, d, s, p, ab, ns = line.split(',')
    return '%s.path_%s: directory string of %s bytes%s, %s guest path of %s bytes at the end of guest memory' % (
        NSNAME[int(ns)], c, d, ' ending in /' if s == '1' else '', 'absolute' if ab == '1' else 'relative', p)


def run_e1(ex):
    cases = e1_cases()
    t = time.time()
    for line, r in zip(cases, ex.h.run_lines('e1', cases)):
        ex.note(r, outcome_of=lambda s: ' '.join([str(s[2])] + [kv for kv in s[3].split() if kv.split('=')[0] in ('fits', 'weak', 'effect')]))
        c, d, s, p, ab, ns = line.split(',')
        cls = '%s,%s' % ('abs' if ab == '1' else 'rel', 'dir-ends-in-slash' if s == '1' else 'dir-without-slash')
        if crash_class(r):
            ex.crash(line, r, 'E1|path_%s|%s' % (c, cls), e1_describe)
            continue
        for stepno, what, rest in r['x']:
            ex.report('E1|path_%s|%s|%s' % (c, cls, what), line, r, 'path resolution: %s: %s — %s' % (what, rest, e1_describe(line)), e1_describe)
        if r['steps']:
            ex.states.add('E1:' + r['steps'][0][3].split('resolved=')[-1])
            if 'weak=1' in r['steps'][0][3]:
                ex.chk.cov['weak'] = ex.chk.cov.get('weak', 0) + 1
    ex.chk.cov['E1_cases'] = len(cases)
    ex.chk.sample({'E1': e1_describe(cases[len(cases) // 2])})
    print('E1: %d cases, %.0fs' % (len(cases), time.time() - t)); sys.stdout.flush()


# ------------------------------------------------------------------------------------------------ E2
def e2_alphabet(info, depth):
    names = range(E2_CORE)
    ops = []
    for n in names:
        ops += ['md,%d,0' % n, 'rd,%d,0' % n, 'ul,%d,0' % n, 'fs,%d,0' % n, 'fs,%d,1' % n]
        ops += ['rl,%d,%d,0' % (n, m) for m in RL_MODES]
        ops += ['op,%d,%d,0' % (n, o) for o in OFL]
        ops += ['rn,%d,%d,0' % (n, m) for m in names if m != n]
        ops += ['sl,%d,%d,0' % (t, n) for t in (0, 1, 2, 4, 5)]
    if depth == 1:
        # every operation once with every name of the wide alphabet on the initial tree (rename: wide x core and core x wide)
        for n in range(E2_CORE, len(E2_NAMES)):
            ops += ['md,%d,0' % n, 'rd,%d,0' % n, 'ul,%d,0' % n, 'fs,%d,0' % n, 'fs,%d,1' % n, 'rl,%d,3,0' % n]
            ops += ['op,%d,%d,0' % (n, o) for o in OFL]
            ops += ['rn,%d,%d,0' % (n, m) for m in (0, 1, 2)] + ['rn,%d,%d,0' % (m, n) for m in (0, 2)]
            ops += ['sl,%d,%d,0' % (0, n), 'sl,%d,%d,0' % (n, 1)]
    return ops


def e2_describe_op(op):
    f = op.split(',')
    ns = NSNAME[int(f[-1])]
    nm = lambda i: E2_NAMES[int(i)]
    if f[0] == 'rn': return '%s.path_rename(%s -> %s)' % (ns, nm(f[1]), nm(f[2]))
    if f[0] == 'sl': return '%s.path_symlink(target "%s", link %s)' % (ns, nm(f[1]), nm(f[2]))
    if f[0] == 'rl': return '%s.path_readlink(%s, buffer=%s)' % (ns, nm(f[1]), RL_MODES[int(f[2])])
    if f[0] == 'op': return '%s.path_open(%s, oflags=%s)' % (ns, nm(f[1]), OFL[int(f[2])])
    return '%s.%s(%s)' % (ns, E2_OPS[f[0]], nm(f[1]))


def e2_describe(line):
    return ' ; '.join(e2_describe_op(op) for op in line.split()) or '(initial tree: a, d/, d/a)'


WANT_NAME = {55: 'NOTEMPTY', 32: 'LOOP', 37: 'NAMETOOLONG', 20: 'EXIST', 54: 'NOTDIR', 31: 'ISDIR', 44: 'NOENT', 28: 'INVAL', 0: 'SUCCESS', 10: 'BUSY', 63: 'PERM', 75: 'XDEV'}


def make_e2_judge(ex):
    def judge(line, r):
        ops = line.split()
        if crash_class(r):
            op = ops[min(len(r['steps']), len(ops) - 1)] if ops else 'md'
            ex.crash(line, r, 'E2|%s' % E2_OPS[op.split(',')[0]], e2_describe)
            return None, None
        if r['x']:
            seen = set()
            for stepno, what, rest in r['x']:
                op = ops[stepno]
                cls = what
                if what == 'errno':
                    want = int(rest.split('want=')[1])
                    cls = 'errno|impl=%s|want=%s(%s)' % (rest.split('impl=')[1].split()[0], want, WANT_NAME.get(want, '?'))
                key = 'E2|%s|%s' % (E2_OPS[op.split(',')[0]], cls)
                if key not in seen:
                    seen.add(key)
                    ex.report(key, line, r, '%s differs from the POSIX twin at step %d (%s): %s — history: %s' % (what, stepno, e2_describe_op(op), rest, e2_describe(line)), e2_describe)
            return None, None
        if any(int(f[1]) >= E2_CORE or (f[0] in ('rn', 'sl') and int(f[2]) >= E2_CORE) for f in (op.split(',') for op in ops)):
            return None, None           # single operations with the wide name alphabet are checked, not extended
        return 'E2:' + r['state'], True
    return judge


# ------------------------------------------------------------------------------------------------ E3
def e3_configs(tier):
    cfgs = [(0, 0, 0)]
    for n in (1, 2, 3, 8, 40):
        for lm in (0, 1, 2, 3, 4):
            for to in (0, 1, 2):
                cfgs.append((n, lm, to))
    # directories that also hold FIFOs (several of them): entries whose host d_type has no WASI counterpart
    cfgs += [(8, 0, 10), (8, 4, 11), (5, 2, 12)]
    return cfgs


def e3_describe(line):
    f = line.split(',')
    n, lm, to, b, ns, md = f[:6]
    return '%s.fd_readdir on a directory of %s entries (name lengths %s, types rotated by %s), buffer of %s bytes at the end of guest memory, all strategies of <= %s calls%s' % (
        NSNAME[int(ns)], n, ['1', '2', '24', '255', '1/2/24/255 mixed'][int(lm)], to, b, md, ', host directory positions shifted above 2^32' if len(f) > 6 and f[6] == '1' else '')


def run_e3(ex, tier):
    t = time.time()
    cfgs = e3_configs(tier)
    depth = 3 if tier == 'quick' else 4
    probes = ['%d,%d,%d,4096,0,1' % c for c in cfgs]
    lines = []
    for c, r in zip(cfgs, ex.h.run_lines('e3', probes)):
        sizes = [int(x) for i in r['info'] if i.startswith('sizes') for x in i.split()[1:]]
        if not sizes:
            print('MACHINERY-ERROR: no listing for readdir configuration %r: %r' % (c, r['san'][:5])); sys.exit(2)
        bs = set(range(24 + 1, max(sizes) + 3)) | {48, 4096}
        acc = 0
        for s in sizes:                         # boundary steps: a record (or its header) just fits / just does not
            acc += s
            bs |= {acc + k for k in (-1, 0, 1, 23, 24, 25)}
        for b in sorted(x for x in bs if 25 <= x <= 4096):
            for ns in (0, 1):
                lines.append('%d,%d,%d,%d,%d,%d' % (c + (b, ns, depth)))
            # the same case with the host's directory positions presented as values above 2^32 (cookies are 64-bit quantities)
            if b % 7 == 0 or b in (48, 4096):
                lines.append('%d,%d,%d,%d,%d,%d,1' % (c + (b, 0, depth)))
    ncalls = nstrat = 0
    for b0 in range(0, len(lines), 20000):
        if ex.expired():
            ex.chk.cov['exhaustive'] = False
            ex.chk.cov['E3_cut_at'] = b0
            break
        part = lines[b0:b0 + 20000]
        for line, r in zip(part, ex.h.run_lines('e3', part)):
            ex.note(r, outcome_of=lambda s: ' '.join(kv for kv in s[3].split() if kv.split('=')[0] in ('agrees', 'full_listing_calls', 'complete')))
            if crash_class(r):
                ex.crash(line, r, 'E3|fd_readdir', e3_describe)
                continue
            for stepno, what, rest in r['x']:
                ex.report('E3|fd_readdir|%s|%s' % (what, rest.split()[0].split('=')[0]), line, r, 'fd_readdir (%s): %s — %s' % (what, rest, e3_describe(line)), e3_describe)
            if r['steps']:
                d = dict(kv.split('=') for kv in r['steps'][0][3].split())
                ncalls += int(d['calls']); nstrat += int(d['strategies'])
                ex.states.add('E3:%s:%s:%s' % (','.join(line.split(',')[:3]) + (':big' if line.count(',') > 5 else ''), d['full_listing_calls'], d['strategies']))
    ex.transitions += ncalls
    ex.chk.cov.update({'E3_directory_configurations': len(cfgs), 'E3_config_x_buffer_size_cases': len(lines), 'E3_strategies_executed': nstrat, 'E3_fd_readdir_calls': ncalls})
    ex.chk.sample({'E3': e3_describe(lines[len(lines) // 3])})
    print('E3: %d (configuration, buffer size) cases, %d strategies, %d fd_readdir calls, %.0fs' % (len(lines), nstrat, ncalls, time.time() - t)); sys.stdout.flush()


def main(tier):
    if tier in ('replay', '--replay'):
        rec = json.load(open(sys.argv[2]))
        res = replay_main(sys.argv[2], make_harness)
        print('REPLAY: %s' % ('differs from the reference / sanitizer report' if (res['x'] or crash_class(res)) else 'case agrees with the reference on the current tree'))
        return 1 if (res['x'] or crash_class(res)) else 0
    h, rc_ = harness_or_violation('C14', tier, make_harness)
    if h is None:
        return rc_
    ex = Explorer('C14', tier, h, 'e2', 'c14.py')
    ex.deadline = time.time() + (240 if tier == 'quick' else 900)
    ex.mode = 'e1'; run_e1(ex)
    ex.mode = 'e3'; run_e3(ex, tier)
    ex.mode = 'e2'
    depth = bfs(ex, e2_alphabet, make_e2_judge(ex), 3 if tier == 'quick' else 4, e2_describe)
    rule = ('E1: every (directory string length, trailing slash, guest path length, absolute) combination of the boundary grid x 9 path-taking calls x both name spaces; '
            'E2: breadth-first search over histories of 8 path operations x 9 names (one history per distinct directory tree is extended), compared with the POSIX twin after every step; '
            'E3: every directory configuration x every buffer size of the boundary set x every resume strategy (continue / restart at 0 / three earlier cookies) up to the call bound, '
            'every call compared with the host listing; distinct_nontrivial = distinct (operation, outcome) pairs observed')
    return ex.finish(rule, {'max_depth_completed': depth, 'E2_max_depth_completed': depth, 'E3_max_calls_per_strategy': 3 if tier == 'quick' else 4},
                     ['the twin runs on the same file system in a sibling directory of equal path length',
                      'E1: a relative path that would fit by exactly one byte because the directory string already ends in "/" may be rejected (counted in "weak"): the statement only requires rejection of what does not fit',
                      'E3: completeness of the listing is required for buffers that hold the longest entry; for smaller buffers every call is still compared with the host listing',
                      'E3: the contents of a trailing fragment shorter than a 24-byte header and the 3 padding bytes of a header are not determined',
                      'path_filestat_get is called with SYMLINK_FOLLOW so that stat() is the corresponding operation'])


if __name__ == '__main__':
    sys.exit(main(sys.argv[1] if len(sys.argv) > 1 else 'quick'))
