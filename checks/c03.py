#!/usr/bin/env python3
"""C03 Structured control flow, operand stack and locals: ALL valid bodies of <= N instructions over small alphabets."""
import sys, os, time, itertools
sys.path.insert(0, os.path.dirname(os.path.abspath(__file__)))
from numeric import *
import enum_cf
from enum_cf import Enumerator, encode_body, sigma_full, sigma_ctl, sigma_typed

BATCH = 2000


_PROBES = None


def probe_pool():
    """(sorted hashes, constants): value-returning probe functions `local.get 0; i32.const c; i32.add` and the SHA-1 of their code entries.
    The translator writes the functions of a file in the order of the SHA-1 of their code entries, so a probe whose hash lies just above the hash
    of an enumerated body is written right after it: whatever a body leaves behind in the translator (operands on the type stack at a
    `return`/`br`/`unreachable`, label stack, declarations) then meets a function whose result must still be right."""
    global _PROBES
    if _PROBES is None:
        import hashlib
        hs = sorted((hashlib.sha1(b'\x00' + local_get(0) + i32_const(c) + op(0x6a) + END).digest(), c) for c in range(1, 60001))
        _PROBES = ([h for h, c in hs], [c for h, c in hs])
    return _PROBES


def batches_of(label, symbols, params, locals_groups, result, n, inputs, imports, exact=False, context=None, probes=False):
    """generator of Batches covering every valid body with <= n symbols (exact: only those with exactly n);
    context = (prefix, suffix): the n symbols are enumerated inside that fixed context;
    probes: put a value-returning probe function right behind every body in emission order (see probe_pool)"""
    locs = ''.join(t * c for c, t in locals_groups)
    E = Enumerator(symbols, params, locs, result)
    if context:
        it = E.enumerate(n, prefix=context[0], suffix=context[1])
        if exact:
            it = (seq for seq in it if len(seq) == n + len(context[0]) + len(context[1]))
    else:
        it = E.enumerate(n)
        if exact:
            it = (seq for seq in it if len(seq) == n)
    while True:
        part = list(itertools.islice(it, BATCH))
        if not part:
            return
        m = Module()
        for mod, nm, ps, rs in imports:
            m.import_func(mod, nm, ps, '' if rs == 'v' else rs)
        cases = []
        for k, seq in enumerate(part):
            m.add_func(params, result, [(c, TCH[t]) for c, t in locals_groups], encode_body(seq), export='f%d' % k)
            cases.append(Case('f%d' % k, params, result or 'v', 0, -1, enum_cf.describe(seq)))
        # bodies may contain (dead) calls of functions 5 and 11 of their module: keep every module at 12 or more functions of this signature
        for k in range(len(part), 12):
            m.add_func(params, result, [(c, TCH[t]) for c, t in locals_groups], encode_body(part[0]))
        bt = Batch(m.encode(), cases, [('explicit', inputs)], [], imports)
        if probes:
            import hashlib, bisect
            ph, pc = probe_pool()
            lv = b''.join(uleb(c) + bytes([TCH[t]]) for c, t in locals_groups)
            lv = uleb(len(locals_groups)) + lv
            hv = sorted(set(hashlib.sha1(lv + encode_body(seq) + END).digest() for seq in part))
            used = set(); followed = 0
            for i, h in enumerate(hv):
                j = bisect.bisect_right(ph, h)
                if j < len(ph) and (i + 1 == len(hv) or ph[j] < hv[i + 1]) and pc[j] not in used:
                    used.add(pc[j]); followed += 1
            for c in sorted(used):
                m.add_func('ii', 'i', (), local_get(0) + i32_const(c) + op(0x6a), export='p%d' % c)
                cases.append(Case('p%d' % c, 'ii', 'i', 0, -1, 'probe local.get 0; i32.const %d; i32.add (written right after an enumerated body)' % c))
            bt = Batch(m.encode(), cases, [('explicit', inputs)], [], imports)
            bt.followed = followed; bt.bodies = len(hv)
        yield bt


def main(tier):
    chk = Check('C03', 'exploration', tier)
    t0 = time.time()
    deadline = t0 + (150 if tier == 'quick' else 2400)
    w2c2 = build_w2c2('plain')
    build_ref()
    vals = [0, 1, 2, 3, 0xffffffff]
    in_ii = [(a, b) for a in vals for b in vals]
    in_iI = [(a, b) for a in (0, 1, 2, 0xffffffff) for b in (0, 5, (1 << 32) + 1, 1 << 63)]
    mark = [('env', 'mark', 'i', 'i')]
    plans = []  # (label, generator factory, n)
    S, p, l, r = sigma_full()
    nfull = 4 if tier == 'quick' else 5
    nctl = 6 if tier == 'quick' else 8
    ntyp = 4 if tier == 'quick' else 5
    for n in range(1, nfull + 1):
        pass
    plans.append(('full', S, p, [(1, 'i'), (1, 'I')], r, nfull, in_ii, mark, False))
    # state carried from one function into the next: every valid body (value-returning, and VOID bodies that may end with operands left on
    # the stack) immediately followed, in emission order, by a probe function whose result is checked
    plans.append(('full+probe-after-each', S, p, [(1, 'i'), (1, 'I')], r, nfull - 1, in_ii, mark, False, None, True))
    plans.append(('void+probe-after-each', S, p, [(1, 'i'), (1, 'I')], '', nfull - 1, in_ii, mark, False, None, True))
    S2, p2, l2, r2 = sigma_ctl()
    plans.append(('ctl', S2, p2, [], r2, nctl, in_ii, [], False))
    # local declaration groupings; the second one starts with an EMPTY group of another type (count 0 is a valid encoding)
    groupings = [((1, 'f'), (2, 'F'), (1, 'i')), ((0, 'i'), (2, 'I'), (0, 'F'), (1, 'f'), (1, 'F')), ((1, 'F'), (1, 'I'), (1, 'f'), (1, 'i'))]
    for T in 'IfF':
        for gi, g in enumerate(groupings if tier == 'thorough' else groupings[:2]):
            S3, p3, l3, r3, g3 = sigma_typed(T, 'iI', g)
            plans.append(('typed-%s-g%d' % (T, gi), S3, p3, list(g3), r3, ntyp, in_iI, [], False))
    # contexts: all valid fillings of <= N instructions (21-symbol alphabet) of fixed contexts that need more instructions than the
    # plain enumerations reach: dead code inside a block that is followed by live code, dead code in either arm of a live if,
    # branches above extra operands inside / below a value-carrying block, bodies of a loop nested in a block
    Sm, pm, lm, rm = enum_cf.sigma_mid()
    nctx = 4 if tier == 'quick' else 5
    for cname, pre, suf in enum_cf.contexts():
        plans.append(('ctx:' + cname, Sm, pm, [], rm, nctx, in_ii, mark, False, (pre, suf)))
    for T in 'IfF':
        S3, p3, l3, r3, g3 = sigma_typed(T, 'iI', groupings[0])
        for cname, pre, suf in enum_cf.typed_contexts(T, S3):
            plans.append(('ctx-typed-%s:%s' % (T, cname), S3, p3, list(g3), r3, 3 if tier == 'quick' else 4, in_iI, [], False, (pre, suf)))
    if tier == 'thorough':
        # extension passes, cheapest first: only bodies with exactly N+1 instructions; the deadline may cut them short (reported per alphabet)
        for T in 'IfF':
            S3, p3, l3, r3, g3 = sigma_typed(T, 'iI', groupings[0])
            plans.append(('typed-%s-g0+6' % T, S3, p3, list(g3), r3, 6, in_iI, [], True))
        plans.append(('ctl+9', S2, p2, [], r2, 9, in_ii, [], True))
        plans.append(('full+6', S, p, [(1, 'i'), (1, 'I')], r, 6, in_ii, mark, True))
    per = {}
    import concurrent.futures
    capped = False
    with concurrent.futures.ThreadPoolExecutor(NCPU) as ex:
        pending = []

        def drain(limit):
            nonlocal capped
            while len(pending) > limit:
                label, b, fut = pending.pop(0)
                res = fut.result()
                ok = report(chk, b, res, label, extra={})
                d = per.setdefault(label, {'bodies': 0, 'evaluations': 0, 'nontrivial': 0})
                if ok:
                    d['bodies'] += res['funcs']; d['evaluations'] += res['evals']; d['nontrivial'] += res['nontrivial']
                else:
                    chk.cov['exhaustive'] = False
        for plan in plans:
            (label, S_, p_, g_, r_, n_, inp, imps, exact_), ctx_, probes_ = plan[:9], (plan[9] if len(plan) > 9 else None), (plan[10] if len(plan) > 10 else False)
            per.setdefault(label, {'bodies': 0, 'evaluations': 0, 'nontrivial': 0})['max_instructions'] = n_
            per[label]['exactly_n_only'] = exact_
            first = True
            if time.time() > deadline:
                capped = True; per[label]['capped'] = True
                continue
            if ctx_:
                per[label]['context'] = '%s [ <= %d instructions ] %s' % (' '.join(x.name for x in ctx_[0]), n_, ' '.join(x.name for x in ctx_[1]))
            for b in batches_of(label, S_, p_, g_, r_, n_, inp, imps, exact_, ctx_, probes_):
                if probes_:
                    per[label]['bodies_followed_by_a_probe'] = per[label].get('bodies_followed_by_a_probe', 0) + b.followed
                    per[label]['distinct_bodies'] = per[label].get('distinct_bodies', 0) + b.bodies
                if time.time() > deadline:
                    capped = True
                    per[label]['capped'] = True
                    break
                if first:
                    chk.sample({'alphabet': label, 'body': b.cases[-1].desc, 'inputs': 'all %d vectors' % len(inp)})
                    first = False
                # probe plans: automatic variables start with a fixed pattern, so a result slot that is never written reads the same wrong value on every run
                kw_ = {'cflags': ('-O0', '-ftrivial-auto-var-init=pattern')} if probes_ else {}
                pending.append((label, b, ex.submit(run_batch, b, w2c2=w2c2, **kw_)))
                drain(NCPU * 3)
        # every instruction of the supported set as DEAD code on an empty operand stack (after unreachable / return / br): the function must still
        # trap / return as if the dead instruction were not there (modules of checks/c10.py, which sends them through the ASan translator)
        import c10
        for n_, d_ in c10.dead_instruction_modules():
            names_ = c10.dead_instruction_modules.names
            cases_ = [Case('d%d' % (k + 1), 'i', 'i', 0, -1, '%s: %s' % (n_.split(' (')[0], nm)) for k, nm in enumerate(names_)]
            bd = Batch(d_, cases_, [('explicit', [(1,), (0xffffffff,)])])
            per.setdefault('dead-instructions', {'bodies': 0, 'evaluations': 0, 'nontrivial': 0})
            pending.append(('dead-instructions', bd, ex.submit(run_batch, bd, w2c2=w2c2, cc='gcc', cflags=('-O0', '-pthread'), defines=('-DWASM_THREADS_PTHREADS',))))
        drain(0)
    if capped:
        # the base passes (every alphabet up to its base N) are complete unless marked capped; only extension passes may be cut
        chk.cov['exhaustive'] = not any(v.get('capped') and not v.get('exactly_n_only') for v in per.values()) and False
        chk.cov['completed_without_cap'] = sorted(k for k, v in per.items() if not v.get('capped'))
    chk.cov['alphabets'] = per
    chk.cov['rule'] = ('validator-driven DFS enumerates every valid function body with <= N instructions over each alphabet (full: 33 symbols, '
                       'ctl: 13 symbols, typed-*: carried value of type i64/f32/f64 with mixed-type params and locals in several declaration '
                       'groupings; ctx:*: every valid filling of <= N instructions over a 25-symbol alphabet (incl. br_table with an empty label vector and dead calls whose index byte is the opcode of else / end) of six fixed contexts - dead code inside a block followed by live code, dead code in '
                       'either arm of a live if, above extra operands inside/below a value-carrying block, inside a loop nested in a block); each body runs on every input vector; return value, trap and ordered host-call trace are compared with the '
                       'reference; a body is non-trivial iff its reference outcome is not constant over the inputs; *+probe-after-each: every valid body (value-returning / void) up to N-1 with a value-returning probe function placed right behind it in emission order (SHA-1 of the code entry), the probe results are checked: nothing a body leaves in the translator may reach the next function')
    chk.assumptions += ['bodies longer than the completed N are not covered', 'reference = own interpreter validated against the spec test-suite']
    return chk.finish()


if __name__ == '__main__':
    sys.exit(main(sys.argv[1] if len(sys.argv) > 1 else 'quick'))
