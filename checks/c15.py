#!/usr/bin/env python3
"""C15 WASI process services: args/environ, clocks, random_get, proc_exit (sequential parts) and thread-spawn (hook).

Every case runs in a freshly forked child on the real wasi.c (ASan/UBSan, through the specification-signature
shim).  clock_gettime / clock_getres / getentropy are interposed by the harness (wasix/proc.c)."""
import itertools, json, os, sys, time
sys.path.insert(0, os.path.dirname(os.path.abspath(__file__)))
from wasix import *

NSNAME = {0: 'wasi_snapshot_preview1', 1: 'wasi_unstable'}
STRS = ['""', '"a"', '"k=v"', '300 bytes', 'bytes 0x01..0xFF']
MENU = ['(0,0)', '(1,999999999)', '(2^31,1)', '(2^33,5)']


def make_harness():
    return Harness(['proc.c'], 'proc')


def vectors(maxn):
    out = []
    for n in range(maxn + 1):
        out += list(itertools.product(range(5), repeat=n))
    return out


def vec(v):
    return '.'.join(str(i) for i in v) if v else '-'


def cases(tier):
    """[(mode, line, description, class used in violation keys)]"""
    out = []
    vs = vectors(5 if tier == 'quick' else 6)
    for i, v in enumerate(vs):
        env = vs[(7 * i + 3) % len(vs)]
        for pl in (0, 1, 2):
            for ns in (0, 1):
                out.append(('args', '%s,%s,%d,%d' % (vec(v), vec(env), pl, ns),
                            '%s: argv=[%s] environ=[%s], buffers %s' % (NSNAME[ns], ', '.join(STRS[k] for k in v), ', '.join(STRS[k] for k in env),
                                                                         ['at the start', 'unaligned', 'ending at the end of guest memory'][pl]),
                            'placement=%d' % pl))
    # the vector given at initialisation is argv[0..argc): the array may go on behind it (tail 1) or be absent for argc = 0 (tail 2)
    for v in vectors(2):
        for tail in ((1, 2) if not v else (1,)):
            for pl in (0, 2):
                for ns in (0, 1):
                    out.append(('args', '%s,%s,%d,%d' % (vec(v), vec((2,)), pl + 10 * tail, ns),
                                '%s: argc=%d argv=[%s]%s, buffers %s' % (NSNAME[ns], len(v), ', '.join(STRS[k] for k in v), ' followed by two more strings in the array' if tail == 1 else ' passed as a NULL array',
                                                                          ['at the start', 'unaligned', 'ending at the end of guest memory'][pl]), 'placement=%d,tail=%d' % (pl, tail)))
    seqs = [s for s in itertools.product(range(4), repeat=3) if s[0] <= s[1] <= s[2]]
    for fn in 'tr':
        for ns in (0, 1):
            for cid in (0, 1, 2, 3):
                for s in seqs:
                    out.append(('clock', '%s,%d,%s,%d,0' % (fn, cid, vec(s), ns), '%s.clock_%s_get(id %d) x3, host clock answers %s' % (
                        NSNAME[ns], 'res' if fn == 'r' else 'time', cid, ' then '.join(MENU[k] for k in s)), 'id=%d' % cid))
                out.append(('clock', '%s,%d,0.0.0,%d,1' % (fn, cid, ns), '%s.clock_%s_get(id %d) x3 against the real host clock' % (NSNAME[ns], 'res' if fn == 'r' else 'time', cid), 'id=%d,real' % cid))
            for cid in (4, 5, 2 ** 31, 2 ** 32 - 1):
                out.append(('clock', '%s,%d,1.1.1,%d,0' % (fn, cid, ns), '%s.clock_%s_get(invalid id %d)' % (NSNAME[ns], 'res' if fn == 'r' else 'time', cid), 'id=invalid'))
    lengths = [0, 1, 255, 256, 257, 512, 65536, 2 ** 20]
    for ns in (0, 1):
        for n in lengths + (list(range(2, 1025)) if tier == 'quick' else list(range(2, 8193))):
            out.append(('random', '%d,0,%d,255' % (n, ns), '%s.random_get(%d bytes), getentropy = model (EIO above 256 bytes)' % (NSNAME[ns], n), ('len>256' if n > 256 else 'len<=256') + ',model'))
        for n in lengths[:-1] + [2, 300, 768]:
            out.append(('random', '%d,0,%d,end' % (n, ns), '%s.random_get(%d bytes) into a buffer that ends exactly at the end of guest memory, getentropy = model' % (NSNAME[ns], n), ('len>256' if n > 256 else 'len<=256') + ',model,at-end'))
        for n in lengths:
            out.append(('random', '%d,1,%d,0' % (n, ns), '%s.random_get(%d bytes), real getentropy' % (NSNAME[ns], n), ('len>256' if n > 256 else 'len<=256') + ',real'))
        for code in (0, 1, 2, 125, 255):
            out.append(('exit', '%d,%d' % (code, ns), '%s.proc_exit(%d)' % (NSNAME[ns], code), 'code=%d' % code))
    return out


def thread_spawn_part(chk, tier):
    """(e) thread-spawn under the controlled scheduler (checks/c15_sched.py)"""
    import c15_sched
    return c15_sched.sched_part(chk, tier)


def main(tier):
    if tier in ('replay', '--replay'):
        res = replay_main(sys.argv[2], make_harness)
        print('REPLAY: %s' % ('differs from the reference / sanitizer report' if (res['x'] or crash_class(res)) else 'case agrees with the reference on the current tree'))
        return 1 if (res['x'] or crash_class(res)) else 0
    h, rc_ = harness_or_violation('C15', tier, make_harness)
    if h is None:
        return rc_
    ex = Explorer('C15', tier, h, 'args', 'c15.py')
    cs = cases(tier)
    per_mode = {}
    for mode in ('args', 'clock', 'random', 'exit'):
        part = [c for c in cs if c[0] == mode]
        ex.mode = mode
        descr = {c[1]: c[2] for c in part}
        for c, r in zip(part, h.run_lines(mode, [c[1] for c in part])):
            ex.note(r, outcome_of=lambda s: '%d %s' % (s[2], ' '.join(kv for kv in s[3].split() if not kv.startswith(('size=', 'total=', 'len=', 'n=', 'code=')))))
            for s in r['steps']:
                ex.states.add('%s %s %d %s' % (mode, s[1], s[2], s[3]))
            if crash_class(r):
                ex.crash(c[1], r, '%s|%s' % (mode, c[3]), lambda l: descr[l])
                continue
            seen = set()
            for stepno, what, rest in r['x']:
                key = '%s|%s|%s' % (mode, c[3], what)
                if key not in seen:
                    seen.add(key)
                    ex.report(key, c[1], r, '%s: %s — %s' % (what, rest, c[2]), lambda l: descr[l])
        per_mode[mode] = len(part)
        ex.chk.sample({mode: part[len(part) // 2][2]})
    ex.chk.cov['random_get_delivers_what_host_getentropy_produced'] = sorted(o.split('delivered=')[1] for o in ex.outcomes.get('random_get', ()) if 'delivered=' in o and 'entropy=model' in o)
    import mclib
    try:
        spawn = thread_spawn_part(ex.chk, tier)
    except mclib.PipelineFailure as e:
        mclib.report_pipeline_failure(chk, e, 'bin/check C15 quick')
        return chk.finish()
    except mclib.MachineryError as e:
        print('MACHINERY-ERROR C15: %s' % e)
        return 2
    rule = ('(a) every argv vector of 0..%d strings over 5 string classes (environment = another vector of the same set) x 3 buffer placements x both name spaces; '
            '(b) clock_time_get/clock_res_get for ids 0..3 with the interposed host clock answering every non-decreasing 3-sequence of a 4-value menu, invalid ids, one run on the real clocks; '
            '(c) random_get lengths with a model of getentropy and with the real one; (d) proc_exit codes; one forked child per case; (e) thread-spawn: concurrent spawns of 1-3 parent threads on the real wasi.c under the controlled scheduler, all interleavings up to the preemption bound in plain/TSan/ASan builds (thread_spawn_part block); '
            'states = distinct (call, errno, details) observations; distinct_nontrivial = distinct (call, outcome class) pairs' % (5 if tier == 'quick' else 6))
    return ex.finish(rule, {'cases_per_part': per_mode, 'max_depth_completed': ex.longest, 'thread_spawn_part': spawn,
                            'states': len(ex.states) + spawn['distinct_end_states'], 'transitions': ex.transitions + spawn['transitions'],
                            'traces_validated_against_impl': ex.histories + spawn['schedules'], 'evaluations': ex.histories + spawn['schedules']},
                     ['"every requested byte written" is decided by five calls on memory pre-filled with five different bytes: a position that keeps the pre-fill every time was not written',
                      'the model of getentropy follows POSIX/glibc: at most 256 bytes per call, EIO above'])


if __name__ == '__main__':
    sys.exit(main(sys.argv[1] if len(sys.argv) > 1 else 'quick'))
