#!/usr/bin/env python3
"""C08 Translation depends on the decoded module, not on its byte encoding.
For every base module every single deviation from its encoding (each LEB128 field padded to each longer legal length,
a custom section inserted at each section boundary, data segments re-encoded flag 0 <-> flag 2/memory 0, empty
sections present <-> omitted) is translated by the real w2c2 and must be accepted and yield the same multiset of C
definitions as the base encoding.  Thorough: pairs of deviations for the hand-built modules + all-maximal encodings."""
import sys, os, glob, json, copy, hashlib, subprocess, shutil, itertools, time
sys.path.insert(0, os.path.dirname(os.path.abspath(__file__)))
from numeric import *
import wasmparse as wp
from concurrent.futures import ProcessPoolExecutor


def valid_spec_modules():
    gen = os.path.join(REPO, 'tests', 'gen')
    out = []
    for j in sorted(glob.glob(os.path.join(gen, '*.json'))):
        for c in json.load(open(j))['commands']:
            if c['type'] == 'module':
                out.append(os.path.join(gen, c['filename']))
    return out


def handbuilt():
    """'everything' modules: imports of all kinds, all sections, br_table, memargs, consts, passive+active data, start"""
    mods = []
    m = Module()
    m.import_func('env', 'mark', 'i', 'i')
    m.imports.append(('env', 'g', 3, (I32, 0)))
    m.mems.append((1, 3)); m.tables.append((8, 8))
    m.globals.append((I64, 1, i64_const(-5))); m.globals.append((F32, 0, f32_const(0x7fc00000)))
    m.globals.append((F64, 1, f64_const(0x400921fb54442d18))); m.globals.append((I32, 0, i32_const(-7))); m.globals.append((F64, 0, f64_const(0xfff0000000000001)))
    f1 = m.add_func('ii', 'i', [(2, I32), (1, I64)], block('i') + local_get(0) + local_get(1) + br_table([0, 0, 0], 0) + END + i32_const(-123456) + op(0x6a) + i64_const(-(1 << 40)) + local_set(4) + local_get(0) + memop(0x28, 2, 16) + op(0x6a), export='f')
    f2 = m.add_func('', '', (), i32_const(0) + i32_const(1) + memop(0x36, 2, 65535) + i32_const(4) + i32_const(0) + i32_const(3) + memory_init(1) + data_drop(1), export='g')
    m.add_func('i', 'i', (), local_get(0) + call(0) + if_('i') + i32_const(1) + ELSE + i32_const(2) + END + i32_const(2) + call_indirect(m.type('i', 'i')), export='h')
    m.elems.append((0, i32_const(1), [f1, 0, f2]))
    m.datas.append(('active', 0, i32_const(8), b'hello')); m.datas.append(('passive', 0, b'', b'\x01\x02\x03')); m.datas.append(('active', 0, global_get(0), b'xy'))
    m.datacount = True
    m.start = f2
    mods.append(('hand-all', m.encode()))
    m = Module()
    m.add_func('', 'I', (), i64_const(0x7fffffffffffffff) + i64_const(-1) + op(0x7c), export='a')
    m.add_func('f', 'f', [(1, F64)], local_get(0) + op(0x8c), export='b')
    m.add_func('', 'F', (), f64_const(0x3ff0000000000001) + f32_const(0x3fc00000) + op(0xbb) + op(0xa0), export='c')
    # the longest decimal renderings: negative, 17 significant digits, three-digit exponent (-DBL_MAX, -DBL_MIN, a negative subnormal), and the f32 analogues
    m.add_func('', 'F', (), f64_const(0xffefffffffffffff) + f64_const(0x8010000000000000) + op(0xa0) + f64_const(0x800fffffffffffff) + op(0xa0) + f64_const(0xa4b6de4b1d3c7f21) + op(0xa0), export='d')
    m.add_func('', 'f', (), f32_const(0xff7fffff) + f32_const(0x80800000) + op(0x92) + f32_const(0x807fffff) + op(0x92), export='e')
    m.globals.append((F64, 0, f64_const(0xffefffffffffffff))); m.globals.append((F64, 0, f64_const(0x800fffffffffffff)))
    mods.append(('hand-small', m.encode()))
    m = Module()
    m.mems.append((1, None))
    m.add_func('i', 'I', (), local_get(0) + atomic(0x11, 3, 8) + local_get(0) + i64_const(1) + atomic(0x1f, 3, 0) + op(0x7c), export='at')
    m.datas.append(('active2', 0, i32_const(0), b'abc'))
    mods.append(('hand-atomics-flag2', m.encode()))
    # a module whose name section matters under -g: two NON-exported functions with debug names (only those get a debug symbol)
    m = Module()
    # (locals of several types in an order in which regrouping matters: same-type neighbours after a split, an i32 group behind a non-i32 one)
    fa = m.add_func('i', 'i', [(2, I64), (1, F32), (1, I32), (2, F64), (1, I32), (1, I64)],
                    local_get(0) + local_set(4) + i64_const(7) + local_set(2) + local_get(4) + i32_const(3) + op(0x6c) + local_set(7) + local_get(7))
    fb = m.add_func('i', 'i', (), local_get(0) + i32_const(1) + op(0x6a))
    m.add_func('i', 'i', (), local_get(0) + call(fa) + call(fb), export='run')
    m.names = {fa: 'alpha', fb: 'beta', 2: 'run'}
    mods.append(('hand-names', m.encode()))
    return mods


def norm(text):
    return sorted(x for x in text.split('\n\n') if x.strip())


def translate_file(w2c2, wd, data, args=()):
    wasm = os.path.join(wd, 'm.wasm')
    with open(wasm, 'wb') as f:
        f.write(data)
    for fn in ('m.c', 'm.h'):
        try:
            os.unlink(os.path.join(wd, fn))
        except OSError:
            pass
    try:
        r = subprocess.run([w2c2] + list(args) + [wasm, os.path.join(wd, 'm.c')], stdout=subprocess.PIPE, stderr=subprocess.PIPE, timeout=120)
    except subprocess.TimeoutExpired:
        return -9, 'timeout', None
    if r.returncode != 0:
        return r.returncode, r.stderr.decode(errors='replace')[-300:], None
    try:
        out = (norm(open(os.path.join(wd, 'm.h')).read()), norm(open(os.path.join(wd, 'm.c')).read()))
    except OSError:
        return -1, 'no output files', None
    return 0, '', out


def deviations(data, tier, pairs=False):
    """yield (kind, description, bytes) for every single deviation"""
    hdr, secs = wp.parse(data)
    lebs = wp.all_lebs(secs)
    for i, t in enumerate(lebs):
        canon, mx, orig = t.canonical_len(), t.max_len(), t.length
        lens = [L for L in range(canon, mx + 1) if L != orig]
        if tier == 'quick' and not t.signed:
            lens = sorted(set([L for L in lens if L in (canon, canon + 1, mx)]))   # signed fields: every length (sign extension differs per length)
        for L in lens:
            t.length = L
            yield ('leb:' + t.role, 'field#%d(%s)=%d padded %d->%d bytes' % (i, t.role, t.value, orig, L), (lambda: wp.emit(hdr, secs)))
        t.length = orig
    # custom sections at every section boundary
    # 'names' / 'name.bak' / 'nam': names that merely start like, or are a prefix of, the one custom section the translator interprets (with -g)
    names = ['', 'x', 'producers', 'name', 'names', 'name.bak', 'nam', '.debug_x'] if tier == 'thorough' else ['', 'x', 'name', 'names', 'nam']
    payloads = [b'', b'\x01\x02\x03', bytes(range(200))] if tier == 'thorough' else [b'', b'\x01\x02\x03']   # an empty payload makes the name the last bytes of the section (and of the file at the last boundary)
    for pos in range(len(secs) + 1):
        for nm in names:
            for pl in payloads:
                s2 = secs[:pos] + [wp.custom_section(nm, pl)] + secs[pos:]
                yield ('custom', 'custom section %r (%d bytes) at boundary %d' % (nm, len(pl), pos), (lambda s2=s2: wp.emit(hdr, s2)))
        # the length prefix of the custom section's name in more than one byte: padded LEB128, and a name of 130 bytes
        for what, nm, nlen in (('name length padded to 2 bytes', 'x', 2), ('name length padded to 5 bytes', 'pad', 5), ('name of 130 bytes', 'n' * 130, None)):
            cs = wp.custom_section(nm, b'\x01\x02\x03')
            if nlen:
                cs.sized.children[0].length = nlen
            s2 = secs[:pos] + [cs] + secs[pos:]
            yield ('custom', 'custom section with %s at boundary %d' % (what, pos), (lambda s2=s2: wp.emit(hdr, s2)))
    # the real name section with ADDITIONAL subsections behind the existing ones: ids the translator knows but does not use (2 locals ... 9)
    # and ids it does not know (10 field names, 11 tag names, 0x7f), non-empty payloads that look like name maps
    for k, s_ in enumerate(secs):
        if s_.id != 0:
            continue
        body = b''.join(c.emit() for c in s_.sized.children)
        if body[:5] != b'\x04name':
            continue
        payload = body[5:]
        for sid in (2, 9, 10, 11, 0x7f):
            for extra in (b'\x01\x00\x03uno', b'\x02\x00\x01a\x01\x01b'):
                sub = bytes([sid, len(extra)]) + extra
                s2 = secs[:k] + [wp.custom_section('name', payload + sub)] + secs[k + 1:]
                yield ('namesub', 'name section with an extra subsection id %d (%d bytes) appended' % (sid, len(extra)), (lambda s2=s2: wp.emit(hdr, s2)))
    # the same module padded by a custom section to file sizes that are exact multiples of common I/O block sizes (and one byte off)
    total = len(wp.emit(hdr, secs))
    for target in (4095, 4096, 4097, 8192, 12288, 16384, 65536, 131072):
        room = target - total
        if room < 8:
            continue
        # custom section: id (1) + size LEB (n) + name length (1) + 'pad' (3) + payload
        for nleb in (1, 2, 3):
            pay = room - 1 - nleb - 4
            if pay >= 0 and len(wp.Leb(pay + 4, False, 32, None, 'x').emit()) == nleb:
                s2 = secs + [wp.custom_section('pad', b'\x00' * pay)]
                if len(wp.emit(hdr, s2)) == target:
                    yield ('filesize', 'padded by a custom section to a file of exactly %d bytes' % target, (lambda s2=s2: wp.emit(hdr, s2)))
                break
    # data segments: flag 0 <-> flag 2 + memory index 0
    for s in secs:
        if s.id == 11:
            ch = s.sized.children
            for k, t in enumerate(ch):
                if isinstance(t, wp.Leb) and t.role == 'data.flag' and t.value in (0, 2):
                    old = list(ch)
                    if t.value == 0:
                        t.value = 2; ch.insert(k + 1, wp.Leb(0, False, 32, None, 'memidx'))
                        yield ('dataflag', 'data segment flag 0 -> flag 2 + memory 0', (lambda: wp.emit(hdr, secs)))
                        t.value = 0
                    else:
                        t.value = 0; del ch[k + 1]
                        yield ('dataflag', 'data segment flag 2 + memory 0 -> flag 0', (lambda: wp.emit(hdr, secs)))
                        t.value = 2
                    ch[:] = old
    # local declarations: the same list of locals written with another grouping (count x type runs) - per function body
    for s in secs:
        if s.id != 10:
            continue
        for bi, body in enumerate(t for t in s.sized.children if isinstance(t, wp.Sized)):
            ch = body.children
            g = ch[0]
            n = g.value
            groups = [(ch[1 + 2 * i].value, ch[2 + 2 * i].data) for i in range(n)]
            rest = ch[1 + 2 * n:]
            old = list(ch)

            def install(newgroups):
                toks = [wp.Leb(len(newgroups), False, 32, None, 'locals.groups')]
                for c, ty in newgroups:
                    toks += [wp.Leb(c, False, 32, None, 'locals.count'), wp.Raw(ty)]
                ch[:] = toks + rest
            variants = []
            if any(1 < c <= 64 for c, ty in groups):
                variants.append(('every local in a group of its own', [x for c, ty in groups for x in ([(1, ty)] * c if c <= 64 else [(c, ty)])]))
            merged = []
            for c, ty in groups:
                if merged and merged[-1][1] == ty:
                    merged[-1] = (merged[-1][0] + c, ty)
                else:
                    merged.append((c, ty))
            if merged != groups:
                variants.append(('adjacent groups of one type merged', merged))
            variants.append(('an empty group (0 x i64) in front', [(0, b'\x7e')] + groups))
            if groups:
                variants.append(('an empty group (0 x f32) at the end', groups + [(0, b'\x7d')]))
            if tier == 'quick' and bi % 4:
                variants = variants[:1]
            for what, ng in variants:
                install(ng)
                yield ('locals', 'function body %d: %s' % (bi, what), (lambda: wp.emit(hdr, secs)))
                ch[:] = old
    # empty sections: absent -> present with count 0
    present = {s.id for s in secs}
    for sid in (1, 2, 4, 5, 6, 7, 9, 11):
        if sid not in present:
            order = wp.ORDER
            pos = len(secs)
            for k, s in enumerate(secs):
                if s.id != 0 and order.index(s.id) > order.index(sid):
                    pos = k; break
            yield ('emptysection', 'empty section %d present instead of omitted' % sid, (lambda pos=pos, sid=sid: wp.emit(hdr, secs[:pos] + [wp.empty_section(sid)] + secs[pos:])))
    if 3 not in present and 10 not in present:
        s2 = list(secs)
        for sid in (3, 10):
            pos = len(s2)
            for k, s in enumerate(s2):
                if s.id != 0 and wp.ORDER.index(s.id) > wp.ORDER.index(sid):
                    pos = k; break
            s2.insert(pos, wp.empty_section(sid))
        yield ('emptysection', 'empty function+code sections present instead of omitted', (lambda s2=s2: wp.emit(hdr, s2)))
    # present with count 0 -> omitted
    for k, s in enumerate(secs):
        ch = s.sized.children
        if s.id in (1, 2, 4, 5, 6, 7, 9, 11) and len(ch) == 1 and isinstance(ch[0], wp.Leb) and ch[0].value == 0:
            yield ('emptysection', 'empty section %d omitted' % s.id, (lambda k=k: wp.emit(hdr, secs[:k] + secs[k + 1:])))
    # everything at maximum length + a custom section at every boundary
    for t in lebs:
        t.length = t.max_len()
    s2 = []
    for s in secs:
        s2.append(wp.custom_section('pad', b'\x00')); s2.append(s)
    s2.append(wp.custom_section('pad', b'\x00'))
    yield ('allmax', 'every LEB field at maximum length + custom section at every boundary', (lambda s2=s2: wp.emit(hdr, s2)))
    for t in lebs:
        t.length = t.orig_len


def work(job):
    """one base module: returns dict of counts + list of violations"""
    name, data, tier, w2c2, pairs, shard, nshards = job
    import tempfile
    wd = tempfile.mkdtemp(prefix='c08.', dir='/dev/shm' if os.path.isdir('/dev/shm') else None)
    res = {'name': name, 'runs': 0, 'variants': 0, 'distinct_encodings': 0, 'kinds': {}, 'violations': [], 'skipped': None}
    try:
        rc, err, base = translate_file(w2c2, wd, data)
        res['runs'] += 1
        if rc != 0:
            res['skipped'] = 'base encoding rejected (rc=%d): %s' % (rc, err[-120:])
            return res
        seen = {hashlib.sha1(data).digest()}
        base_g = None
        gens = [deviations(data, tier)]
        if pairs:
            def two():
                for k1, d1, t1 in deviations(data, 'quick'):
                    if k1 == 'allmax' or k1 == 'custom' and 'boundary 0' not in d1:
                        continue
                    n = 0
                    for k2, d2, t2 in deviations(t1(), 'quick'):
                        if k2 == 'allmax':
                            continue
                        n += 1
                        if n % 7:      # every 7th second-level deviation: keeps the pair space tractable but systematic
                            continue
                        yield (k1 + '+' + k2, d1 + ' AND ' + d2, t2)
            gens.append(two())
        ordinal = 0
        for gen in gens:
            for kind, desc, thunk in gen:
                ordinal += 1
                if ordinal % nshards != shard:
                    continue
                b = thunk()
                h = hashlib.sha1(b).digest()
                res['variants'] += 1
                if h in seen:
                    continue
                seen.add(h)
                res['distinct_encodings'] += 1
                res['kinds'][kind.split(':')[0]] = res['kinds'].get(kind.split(':')[0], 0) + 1
                rc, err, out = translate_file(w2c2, wd, b)
                res['runs'] += 1
                what = None
                if rc != 0:
                    what = 'rejected (rc=%d): %s' % (rc, err.strip()[-160:])
                elif out != base:
                    dh = [x for x in out[0] if x not in base[0]][:1] + [x for x in out[1] if x not in base[1]][:1]
                    what = 'different C definitions, e.g. %r' % (dh[0][:160] if dh else 'missing definitions')
                # with -g the translator reads the custom section called exactly "name" (and .debug_* sections): any OTHER inserted
                # custom section must leave the -g output unchanged as well
                if what is None and (kind == 'namesub' or kind == 'custom' and "custom section 'name' " not in desc and '.debug_' not in desc):
                    if base_g is None:
                        base_g = translate_file(w2c2, wd, data, ('-g',))
                        res['runs'] += 1
                    if base_g[0] == 0:
                        rc, err, out = translate_file(w2c2, wd, b, ('-g',))
                        res['runs'] += 1
                        if rc != 0:
                            what = 'with -g: rejected (rc=%d): %s' % (rc, err.strip()[-160:])
                        elif out != base_g[2]:
                            dh = [x for x in out[0] if x not in base_g[2][0]][:1] + [x for x in out[1] if x not in base_g[2][1]][:1]
                            what = 'with -g: different C definitions, e.g. %r' % (dh[0][:160] if dh else 'missing definitions')
                if what and len(res['violations']) < 6:
                    res['violations'].append((kind, desc, what, b.hex() if len(b) < 20000 else None))
                elif what:
                    res['violations'].append((kind, desc, what, None))
        return res
    finally:
        shutil.rmtree(wd, ignore_errors=True)


def main(tier):
    if tier == 'replay':
        r = json.load(open(sys.argv[2]))
        w2c2 = build_w2c2('plain')
        wd = scratch('c08r')
        ga = ('-g',) if str(r.get('what', '')).startswith('with -g') else ()
        rc0, e0, base = translate_file(w2c2, wd, bytes.fromhex(r['base_hex']), ga)
        rc1, e1, out = translate_file(w2c2, wd, bytes.fromhex(r['variant_hex']), ga)
        print('base rc=%d variant rc=%d %s same=%s' % (rc0, rc1, e1, out == base))
        bad = rc1 != 0 or out != base
        print('REPLAY: %s' % ('violation reproduced' if bad else 'case passes on the current tree'))
        return 1 if bad else 0
    chk = Check('C08', 'exploration', tier)
    w2c2 = build_w2c2('plain')
    corpus = [(os.path.basename(p), open(p, 'rb').read()) for p in valid_spec_modules()]
    if tier == 'quick':
        corpus = corpus[::6]
    # generated modules from the other enumerations (first of each shape class)
    sys.path.insert(0, os.path.dirname(os.path.abspath(__file__)))
    import c04, c06
    corpus += [('c04-shape', c04.shape_module(3, 'indirect', 'defined', 1, 1, 1, 'imported', 'g').wasm), ('c04-rec', c04.recursion_module(1).wasm),
               ('c06-config', c06.config_module('imported', 'overlap', 'defined', 2, 'defined').wasm), ('c06-passive', c06.config_module('defined', 'passive+active', 'none', 0, 'none').wasm)]
    hb = handbuilt()
    jobs = []
    for n, d in corpus + hb:
        pairs = tier == 'thorough' and n.startswith('hand-')
        try:
            nf = len(wp.all_lebs(wp.parse(d)[1]))
        except Exception:
            nf = 0
        nshards = 1 + (nf // 400 if tier == 'thorough' else nf // 1500) + (15 if pairs else 0)
        for sh in range(nshards):
            jobs.append((n, d, tier, w2c2, pairs, sh, nshards))
    jobs.sort(key=lambda j: -len(j[1]))
    with ProcessPoolExecutor(NCPU) as ex:
        results = list(ex.map(work, jobs, chunksize=1))
    kinds = {}
    skipped = []
    nbase = 0
    seen_base = set()
    for (name, data, _, _, _, shard, _), res in zip(jobs, results):
        chk.add(evaluations=res['runs'], distinct_nontrivial=res['distinct_encodings'])
        if res['skipped']:
            if shard == 0:
                skipped.append((name, res['skipped']))
            continue
        if name not in seen_base:
            seen_base.add(name); nbase += 1
        for k, v in res['kinds'].items():
            kinds[k] = kinds.get(k, 0) + v
        seen = set()
        for kind, desc, what, hexb in res['violations']:
            wkind = what.split(':')[0].split(',')[0]
            # key: deviation kind (with LEB role) + outcome class; one report per module and key
            key = '%s|%s' % (kind, 'rejected' if what.startswith('rejected') else 'different-output')
            if (key) in seen:
                continue
            seen.add(key)
            chk.violation(key, {'kind': 'encoding', 'module': name, 'deviation': desc, 'what': what, 'base_hex': data.hex() if len(data) < 20000 else None,
                                'variant_hex': hexb, 'replay_module': 'c08.py'}, '%s: %s: %s' % (name, desc, what))
    chk.cov['base_modules'] = nbase
    chk.cov['deviation_kinds'] = kinds
    chk.cov['skipped_base_modules'] = skipped[:20]
    chk.cov['n_skipped_base_modules'] = len(skipped)
    chk.cov['rule'] = ('base corpus = valid spec-suite modules (quick: every 6th, thorough: all 874) + modules from the C04/C06 enumerations + 3 hand-built '
                       'modules; for each: every single deviation from its byte encoding (each LEB128 field re-encoded at every other legal length '
                       '(quick: shortest, +1, maximal), custom sections at every section boundary, data flag 0<->2, empty sections present<->omitted, the local declarations of a body regrouped (split, merged, empty groups), '
                       'all-maximal encoding; thorough: systematic pairs for the hand-built modules). distinct_nontrivial = variants whose bytes differ '
                       'from the base and from each other; each must be accepted and give the same multiset of blank-line-separated C definitions '
                       '(function order legitimately follows the SHA-1 of the body bytes)')
    chk.sample({'module': jobs[0][0], 'deviation': 'section.size field padded 1->5 bytes'})
    chk.sample({'module': 'hand-all', 'deviation': 'custom section "name" with a non-name payload inserted before the type section'})
    chk.assumptions += ['call_indirect table index, memory.size/grow/copy/fill/init memory indices are single reserved bytes in the targeted spec level and are not padded',
                        'base modules the translator rejects in their given encoding are listed as skipped (unsupported feature), not as violations of C08']
    return chk.finish()


if __name__ == '__main__':
    sys.exit(main(sys.argv[1] if len(sys.argv) > 1 else 'quick'))
