#!/usr/bin/env python3
"""C05 Linear-memory instructions: loads/stores of every flavour, grow/size, copy/fill/init.
(a) every load/store flavour x static offset x base address x value, memory compared byte by byte;
(b) explicit-state BFS over histories of store/grow/fill/copy/init on one live instance, with canonical-state
    deduplication, reference model stepped in lockstep, all memory bytes compared after every transition."""
import sys, os
sys.path.insert(0, os.path.dirname(os.path.abspath(__file__)))
from numeric import *

PAGE = 65536


def flavour_batch():
    m = Module()
    m.mems.append((2, 2))
    pat = bytes((i * 7 + 3) & 0xff for i in range(256))
    for base in (0, 65536 - 128, 65536, 2 * 65536 - 256):
        m.datas.append(('active', 0, i32_const(base), pat))
    # signalling NaNs in memory (f32 at 40, f64 at 48): float loads return the bits as they are
    import struct
    m.datas.append(('active', 0, i32_const(40), struct.pack('<IIQ', 0x7fa00001, 0xff800001, 0xfff0000000000001)))
    cases = []
    offsets = (0, 1, 4, 65535, 65536)
    bases = [0, 1, 2, 3, 7, 40, 44, 48, 65536 - 8, 65536 - 4, 65536 - 3, 65536 - 2, 65536 - 1, 65536, 65536 + 5, 2 * 65536 - 8, 2 * 65536 - 4, 2 * 65536 - 2, 2 * 65536 - 1, 0xffffffff, 0xffff0000]
    # incl. signalling-NaN bit patterns of both signs: f32.store / f64.store (and the loads) move bits, they do not convert
    vals32 = [0x11223344, 0xffffffff, 0x80000000, 0x7fffffff, 0, 0x80, 0x8000, 0xff7f, 0x7fa00000, 0xff800001]
    vals64 = [0x1122334455667788, 0xffffffffffffffff, 0x8000000000000000, 0x7fffffffffffffff, 0, 0x80, 0x8000, 0x80000000, 0xffffffff7fffffff, 0x7ff4000000000000, 0xfff0000000000001]
    inputsets = [('explicit', [(b,) for b in bases]),
                 ('explicit', [(b, v) for b in bases for v in vals32]),
                 ('explicit', [(b, v) for b in bases for v in vals64])]
    k = 0
    for code, (nm, t, w) in sorted(LOADS.items()):
        for off in offsets:
            for align in (0, {1: 0, 2: 1, 4: 2, 8: 3}[w]):
                m.add_func('i', t, (), local_get(0) + memop(code, align, off), export='f%d' % k)
                cases.append(Case('f%d' % k, 'i', t, 0, -1, '%s offset=%d align=%d' % (nm, off, align))); k += 1
    for code, (nm, t, w) in sorted(STORES.items()):
        for off in offsets:
            m.add_func('i' + t, '', (), local_get(0) + local_get(1) + memop(code, 0, off), export='f%d' % k)
            cases.append(Case('f%d' % k, 'i' + t, 'v', 1 if t in 'if' else 2, -1, '%s offset=%d' % (nm, off))); k += 1
    # every load with its result ABOVE another operand of a different type and consumed by a further instruction (a result that is returned at
    # once sits in slot 0, which the function's return declares anyway); every store with operands above another operand
    other = {'i': 'I', 'I': 'i', 'f': 'F', 'F': 'f'}
    for code, (nm, t, w) in sorted(LOADS.items()):
        o = other[t]
        cmp_ = {'i': 0x46, 'I': 0x51, 'f': 0x5b, 'F': 0x61}[t]      # eq of the loaded type: leaves an i32
        body = const(o, 5) + local_get(0) + memop(code, 0, 4) + const(t, 0x80 if t in 'iI' else 0) + op(cmp_) + local_set(0) + DROP + local_get(0)
        m.add_func('i', 'i', (), body, export='f%d' % k)
        cases.append(Case('f%d' % k, 'i', 'i', 0, -1, '%s above an operand of another type, result compared' % nm)); k += 1
    for code, (nm, t, w) in sorted(STORES.items()):
        o = other[t]
        m.add_func('i' + t, o, (), const(o, 9) + local_get(0) + local_get(1) + memop(code, 0, 4), export='f%d' % k)
        cases.append(Case('f%d' % k, 'i' + t, o, 1 if t in 'if' else 2, -1, '%s above an operand of another type' % nm)); k += 1
    # the instructions WITHOUT a result (bulk operations, data.drop) and memory.grow / memory.size in the middle of an expression: a value pushed
    # before them is consumed after them, a store / load that follows takes ITS OWN operands (flat wrappers cannot see an operand that an
    # emitter forgets to pop)
    m.datas.append(('passive', 0, b'', bytes([0x00, 0xc1, 0xc2, 0xc3, 0x00, 0xc5, 0x00, 0x00])))
    m.datacount = True
    seg = len(m.datas) - 1
    K = i64_const(0x1234567890abcd)
    inputsets.append(('explicit', [(100, 0, 8), (65536 - 8, 2, 6), (7, 8, 0), (2 * 65536 - 4, 1, 4)]))
    i3 = len(inputsets) - 1
    inputsets.append(('explicit', [(300, 0x5a5a5a5a), (65536 - 2, 0x11223344)]))
    i2 = len(inputsets) - 1
    def fx(desc, params, result, body, iset):
        nonlocal k
        m.add_func(params, result, (), body, export='f%d' % k)
        cases.append(Case('f%d' % k, params, result or 'v', iset, -1, desc)); k += 1
    a3 = local_get(0) + local_get(1) + local_get(2)
    fx('memory.init above an i64 operand that is returned', 'iii', 'I', K + a3 + memory_init(seg), i3)
    fx('memory.copy above an i64 operand that is returned', 'iii', 'I', K + a3 + memory_copy(), i3)
    fx('memory.fill above an i64 operand that is returned', 'iii', 'I', K + a3 + memory_fill(), i3)
    m.datas.append(('passive', 0, b'', b'dropme'))          # a segment of its own for data.drop (the functions of a batch share one instance)
    fx('data.drop above an i64 operand that is returned', 'iii', 'I', K + data_drop(seg + 1), i3)
    fx('store address pushed BEFORE a memory.init, value after it', 'ii', 'i', local_get(0) + i32_const(40) + i32_const(0) + i32_const(8) + memory_init(seg) + local_get(1) + memop(0x36, 0, 0) + local_get(0) + memop(0x28, 0, 0), i2)
    fx('load after a memory.copy in the same block', 'ii', 'i', i32_const(500) + i32_const(0) + i32_const(16) + memory_copy() + local_get(0) + memop(0x28, 0, 0) + local_get(1) + op(0x6a), i2)
    fx('if (result i32) whose arm ends with memory.fill; value', 'ii', 'i', local_get(1) + if_('i') + local_get(0) + i32_const(0x77) + i32_const(4) + memory_fill() + local_get(0) + memop(0x28, 0, 0) + ELSE + i32_const(9) + END, i2)
    fx('memory.grow above an operand, then add', 'ii', 'I', K + local_get(1) + i32_const(0xff) + op(0x71) + memory_grow() + op(0xad) + op(0x7c), i2)
    fx('memory.size above an operand, then add', 'ii', 'I', K + memory_size() + op(0xad) + op(0x7c), i2)
    b = Batch(m.encode(), cases, inputsets)
    b.impl_mem = 'ls_cur_inst->m0'
    b.compare_mem = True
    return b


def uleb_padded(n, length):
    """n as unsigned LEB128 of exactly `length` bytes (non-minimal encodings are valid)"""
    out = bytearray()
    for k in range(length):
        b = n & 0x7f
        n >>= 7
        out.append(b | (0x80 if k < length - 1 else 0))
    assert n == 0
    return bytes(out)


def padded_memarg_batch():
    """every load/store flavour with a non-minimal (padded) LEB128 encoding of the alignment and of the offset field: the same
    access as with the canonical encoding"""
    m = Module()
    m.mems.append((1, 1))
    m.datas.append(('active', 0, i32_const(0), bytes((i * 13 + 5) & 0xff for i in range(200))))
    cases = []
    inputsets = [('explicit', [(b,) for b in (0, 3, 40)]), ('explicit', [(b, v) for b in (0, 3, 40) for v in (0x11223344, 0xffffffff)]),
                 ('explicit', [(b, v) for b in (0, 3, 40) for v in (0x1122334455667788, 0xffffffffffffffff)])]
    k = 0
    for code, (nm, t, w) in sorted(list(LOADS.items()) + list(STORES.items())):
        al = {1: 0, 2: 1, 4: 2, 8: 3}[w]
        for alen, olen, off in ((2, 1, 17), (5, 1, 17), (1, 5, 17), (3, 3, 17), (5, 5, 0), (2, 2, 1)):
            body = local_get(0) + (local_get(1) if code in STORES else b'') + bytes([code]) + uleb_padded(al, alen) + uleb_padded(off, max(olen, len(uleb(off))))
            if code in LOADS:
                m.add_func('i', t, (), body, export='f%d' % k)
                cases.append(Case('f%d' % k, 'i', t, 0, -1, '%s offset=%d, alignment field in %d bytes, offset field in %d bytes' % (nm, off, alen, olen)))
            else:
                m.add_func('i' + t, '', (), body, export='f%d' % k)
                cases.append(Case('f%d' % k, 'i' + t, 'v', 1 if t in 'if' else 2, -1, '%s offset=%d, alignment field in %d bytes, offset field in %d bytes' % (nm, off, alen, olen)))
            k += 1
    b = Batch(m.encode(), cases, inputsets)
    b.impl_mem = 'ls_cur_inst->m0'
    b.compare_mem = True
    return b


def huge_offset_batch():
    """static offsets at and above 2^31 (in bounds only in a memory of almost 4 GiB): store then load through the same memarg inside one
    function, a second load through base+delta with a smaller offset reads the same cell (so the offset is really added, once, unsigned)"""
    m = Module()
    m.mems.append((65535, 65535))
    cases = []
    inputsets = [('explicit', [(b, v) for b in (0, 1, 8, 0xfff0) for v in (0x11223344, 0xfedcba98)]),
                 ('explicit', [(b, v) for b in (0, 1, 8, 0xfff0) for v in (0x1122334455667788, 0xfedcba9876543210)])]
    k = 0
    for off in (0x7fffffff, 0x80000000, 0x80000001, 0xc0000000, 0xfffe0000):
        for (sc, lc, t) in ((0x36, 0x28, 'i'), (0x37, 0x29, 'I'), (0x3b, 0x2f, 'i'), (0x3e, 0x35, 'I')):
            body = local_get(0) + local_get(1) + memop(sc, 0, off) + local_get(0) + memop(lc, 0, off)
            m.add_func('i' + t, t, (), body, export='f%d' % k)
            cases.append(Case('f%d' % k, 'i' + t, t, 0 if t == 'i' else 1, -1, '%s/%s offset=%#x: store then load' % (STORES[sc][0], LOADS[lc][0], off))); k += 1
            # same cell addressed as (base + 0x10000) with offset - 0x10000
            body = local_get(0) + local_get(1) + memop(sc, 0, off) + local_get(0) + i32_const(0x10000) + op(0x6a) + memop(lc, 0, off - 0x10000)
            m.add_func('i' + t, t, (), body, export='f%d' % k)
            cases.append(Case('f%d' % k, 'i' + t, t, 0 if t == 'i' else 1, -1, '%s offset=%#x then %s at base+0x10000 offset=%#x' % (STORES[sc][0], off, LOADS[lc][0], off - 0x10000))); k += 1
    return Batch(m.encode(), cases, inputsets)


def sequence_batch(pairs):
    """store; store; load inside ONE function through two address operands that may or may not overlap at run time: the
    compiler sees all three accesses together (type-based alias analysis, store forwarding at -O2/-O3)"""
    m = Module()
    m.mems.append((1, 1))
    m.datas.append(('active', 0, i32_const(0), bytes((i * 29 + 7) & 0xff for i in range(128))))
    V = {'i': (0x11223344, 0xffffff80), 'I': (0x1122334455667788, 0xffffffffffff8000), 'f': (0x3fc00000, 0xff800001), 'F': (0x3ff8000000000000, 0xfff0000000000001)}
    addr = [(8, 8), (8, 9), (8, 10), (8, 12), (9, 8), (10, 8), (12, 8), (8, 16), (16, 8), (15, 8)]
    isets, iidx, cases = [], {}, []
    k = 0
    for s1, s2 in pairs:
        n1, t1, w1 = STORES[s1]; n2, t2, w2 = STORES[s2]
        if (t1, t2) not in iidx:
            iidx[(t1, t2)] = len(isets)
            isets.append(('explicit', [(p, q, a, b) for p, q in addr for a, b in zip(V[t1], reversed(V[t2]))]))
        for lc, (ln, lt, lw) in sorted(LOADS.items()):
            body = local_get(0) + local_get(2) + memop(s1) + local_get(1) + local_get(3) + memop(s2) + local_get(0) + memop(lc)
            m.add_func('ii' + t1 + t2, lt, (), body, export='f%d' % k)
            cases.append(Case('f%d' % k, 'ii' + t1 + t2, lt, iidx[(t1, t2)], -1, '%s p v1; %s q v2; %s p' % (n1, n2, ln))); k += 1
            # and the load through the second address after storing through the first
            body = local_get(1) + local_get(3) + memop(s2) + local_get(0) + local_get(2) + memop(s1) + local_get(1) + memop(lc)
            m.add_func('ii' + t1 + t2, lt, (), body, export='f%d' % k)
            cases.append(Case('f%d' % k, 'ii' + t1 + t2, lt, iidx[(t1, t2)], -1, '%s q v2; %s p v1; %s q' % (n2, n1, ln))); k += 1
    b = Batch(m.encode(), cases, isets)
    b.impl_mem = 'ls_cur_inst->m0'
    b.compare_mem = True
    return b


def history_batch(mem, depth, budget, mixed_segments=False):
    """mem = (min, max|None).  Operation alphabet over one instance.
    mixed_segments: passive and active segments interleaved (passive first), memory.init from two passive segments - the layout
    that matters when the segments are concatenated into one external blob (-d gnu-ld)"""
    m = Module()
    m.mems.append(mem)
    # (zero bytes at both ends: a passive segment is copied byte for byte by memory.init, its zeros included - the destination is pre-filled by stores)
    m.datas.append(('passive', 0, b'', bytes([0x00, 0xd1, 0xd2, 0x00, 0xd4, 0xd5, 0x00, 0x00])))
    if mixed_segments:
        m.datas.append(('active', 0, i32_const(40), bytes([0xa1, 0xa2, 0xa3, 0xa4, 0xa5])))
        m.datas.append(('passive', 0, b'', bytes([0xe0, 0xe1, 0x00])))
        m.datas.append(('active', 0, i32_const(43), bytes([0xb1, 0xb2, 0xb3, 0xb4])))
    m.datacount = True
    F = {}
    cases = []

    def fn(name, params, result, body):
        idx = len(cases)
        m.add_func(params, result, (), body, export='f%d' % idx)
        cases.append(Case('f%d' % idx, params, result or 'v', 0, -1, name))
        F[name] = idx
    fn('i32.store8', 'ii', '', local_get(0) + local_get(1) + memop(0x3a))
    fn('i32.store16', 'ii', '', local_get(0) + local_get(1) + memop(0x3b))
    fn('i32.store', 'ii', '', local_get(0) + local_get(1) + memop(0x36))
    fn('i64.store', 'iI', '', local_get(0) + local_get(1) + memop(0x37))
    fn('memory.grow', 'i', 'i', local_get(0) + memory_grow())
    fn('memory.size', '', 'i', memory_size())
    fn('memory.fill', 'iii', '', local_get(0) + local_get(1) + local_get(2) + memory_fill())
    fn('memory.copy', 'iii', '', local_get(0) + local_get(1) + local_get(2) + memory_copy())
    fn('memory.init', 'iii', '', local_get(0) + local_get(1) + local_get(2) + memory_init(0))
    fn('data.drop', '', '', data_drop(0))
    if mixed_segments:
        fn('memory.init seg 2', 'iii', '', local_get(0) + local_get(1) + local_get(2) + memory_init(2))
    fn('i32.load8_u', 'i', 'i', local_get(0) + memop(0x2d))
    fn('i32.load8_s', 'i', 'i', local_get(0) + memop(0x2c))
    fn('i32.load16_s', 'i', 'i', local_get(0) + memop(0x2e))
    fn('i32.load', 'i', 'i', local_get(0) + memop(0x28))
    fn('i64.load', 'i', 'I', local_get(0) + memop(0x29))
    fn('i64.load32_s', 'i', 'I', local_get(0) + memop(0x34))
    fn('f64.load', 'i', 'F', local_get(0) + memop(0x2b))
    ops = []

    def op_(name, *args, flag=0):
        ops.append((F[name], args, flag))
    op_('i32.store8', 0, 0xab); op_('i32.store8', PAGE - 1, 0xcd); op_('i32.store8', PAGE + 5, 0xef)
    op_('i32.store16', 1, 0xbeef); op_('i32.store16', PAGE - 1, 0x1234)
    op_('i32.store', 3, 0xdeadbeef); op_('i32.store', PAGE - 2, 0x89abcdef)
    op_('i64.store', 7, 0x1122334455667788); op_('i64.store', PAGE - 4, 0x8877665544332211)
    for d in (0, 1, 2, 3, 65535, 65536, 0xffffffff):
        op_('memory.grow', d)
    op_('memory.size')
    op_('memory.fill', 0, 0x5a, 10); op_('memory.fill', PAGE - 6, 0x1c3, 12); op_('memory.fill', 5, 7, 0); op_('memory.fill', PAGE, 1, 0)
    op_('memory.copy', 10, 0, 16); op_('memory.copy', 0, 10, 16); op_('memory.copy', PAGE - 6, 0, 12); op_('memory.copy', 0, PAGE - 6, 12)
    op_('memory.copy', 3, 3, 5); op_('memory.copy', 100, 0, 0); op_('memory.copy', 0, 8, PAGE - 8); op_('memory.copy', 8, 0, PAGE - 8)
    op_('memory.init', 20, 0, 8); op_('memory.init', PAGE - 2, 2, 6); op_('memory.init', 0, 8, 0); op_('memory.init', 0, 0, 9)
    op_('data.drop', flag=1)
    if mixed_segments:
        op_('memory.init seg 2', 60, 0, 3); op_('memory.init seg 2', 30, 1, 2); op_('i32.load', 40); op_('i32.load', 44); op_('i32.load', 60)
    op_('i32.load8_u', 0); op_('i32.load8_s', PAGE - 1); op_('i32.load16_s', PAGE - 1); op_('i32.load', PAGE - 2); op_('i32.load', 3)
    op_('i64.load', PAGE - 4); op_('i64.load', 0); op_('i64.load32_s', 3); op_('f64.load', 7); op_('i32.load8_u', PAGE + 5); op_('i32.load', 20)
    b = Batch(m.encode(), cases, [('explicit', [])])
    b.main = 'bfs'; b.ops = ops; b.bfs_depth = depth; b.bfs_budget = budget; b.impl_mem = 'ls_cur_inst->m0'
    b.opnames = ['%s(%s)' % (cases[ci].desc, ','.join('%#x' % a for a in args)) for ci, args, fl in ops]
    return b


def main(tier):
    chk = Check('C05', 'model_checking', tier)
    w2c2 = build_w2c2('plain'); build_ref()
    jobs = [('flavours', flavour_batch(), {'cflags': ('-O0', '-fsanitize=address', '-fno-omit-frame-pointer'), 'timeout': 900})]
    depth, budget, secs = (3, 400000, 600) if tier == 'quick' else (6, 60000000, 3000)
    for mem in ((1, 3), (0, 0), (1, None), (2, 2), (0, 2), (1, 65536)):
        jobs.append(('history mem=%s' % (mem,), history_batch(mem, depth, budget), {'cc': 'gcc', 'cflags': ('-O1',), 'drv_args': (depth, secs), 'timeout': secs + 60}))
        # the same exploration at depth 2 with AddressSanitizer: a stale or freed data pointer after grow fails loudly
        jobs.append(('history-asan mem=%s' % (mem,), history_batch(mem, 2, budget), {'cflags': ('-O1', '-fsanitize=address', '-fno-omit-frame-pointer'), 'drv_args': (2, secs), 'timeout': secs + 60}))
    # the host allocator fails: realloc (renamed for the translated code) returns NULL above 3 pages, the reference has the same embedder cap;
    # a failed grow must return -1 and change nothing - size, pages, contents, and what later grows see
    failing = {'defines': ('-Drealloc=ls_realloc', '-DLS_PAGE_CAP=3'),
               'driver_extra': '#undef realloc\nextern void* realloc(void*, size_t);\nvoid* ls_realloc(void* p, size_t n) { if (n > (size_t)LS_PAGE_CAP * 65536u) return NULL; return realloc(p, n); }\n'}
    jobs.append(('history mem=(1, None) allocator fails above 3 pages', history_batch((1, None), depth, budget), dict(failing, cc='gcc', cflags=('-O1',), drv_args=(depth, secs), timeout=secs + 60)))
    # a SHARED memory (reserved at its maximum, never reallocated): new pages must still be zero, old contents kept, accesses in new pages in bounds
    thr = {'defines': ('-DWASM_THREADS_PTHREADS',)}
    jobs.append(('history mem=(1, 3, shared)', history_batch((1, 3, True), depth, budget), dict(thr, cc='gcc', cflags=('-O1', '-pthread'), drv_args=(depth, secs), timeout=secs + 60)))
    jobs.append(('history-asan mem=(1, 3, shared)', history_batch((1, 3, True), 2, budget), dict(thr, cflags=('-O1', '-pthread', '-fsanitize=address', '-fno-omit-frame-pointer'), drv_args=(2, secs), timeout=secs + 60)))
    if tier == 'thorough':
        jobs.append(('flavours-gccO2', flavour_batch(), {'cc': 'gcc', 'cflags': ('-O2',), 'timeout': 900}))
    # interleaved passive/active segments, data segments embedded as arrays and as one external blob (-d gnu-ld, linked with ld -r -b binary)
    for dmode in ('arrays', 'gnu-ld'):
        jobs.append(('history mixed-segments -d %s' % dmode, history_batch((1, 2), 2 if tier == 'quick' else 3, budget, mixed_segments=True),
                     {'cc': 'gcc', 'cflags': ('-O1',), 'drv_args': (2 if tier == 'quick' else 3, secs), 'timeout': secs + 60, 'w2c2_args': ('-d', dmode)}))
    jobs.append(('padded-memarg', padded_memarg_batch(), {'cc': 'gcc', 'cflags': ('-O1',), 'timeout': 900}))
    jobs.append(('huge-static-offsets', huge_offset_batch(), {'cc': 'gcc', 'cflags': ('-O1',), 'timeout': 900}))
    # plain `char` unsigned (ARM, PowerPC, s390 ABIs): the sign-extending 8-bit loads must not depend on it
    jobs.append(('flavours -funsigned-char', flavour_batch(), {'cc': 'gcc', 'cflags': ('-O1', '-funsigned-char'), 'timeout': 900}))
    # the pretty-printed output format (-p): every load/store flavour, the memarg encodings and one history exploration again
    jobs.append(('flavours -p', flavour_batch(), {'cflags': ('-O0',), 'timeout': 900, 'w2c2_args': ('-p',)}))
    jobs.append(('padded-memarg -p', padded_memarg_batch(), {'cc': 'gcc', 'cflags': ('-O1',), 'timeout': 900, 'w2c2_args': ('-p',)}))
    jobs.append(('history mem=(1, 3) -p', history_batch((1, 3), min(depth, 4), budget), {'cc': 'gcc', 'cflags': ('-O1',), 'drv_args': (min(depth, 4), secs), 'timeout': secs + 60, 'w2c2_args': ('-p',)}))
    # (c) store/store/load sequences inside one function, optimising compilers
    allpairs = [(a, b) for a in sorted(STORES) for b in sorted(STORES)]
    third = (len(allpairs) + 2) // 3
    for cc, fl in (('gcc', '-O2'), ('clang', '-O2')) + ((('gcc', '-O3'), ('clang', '-O0')) if tier == 'thorough' else ()):
        for part in range(3):
            jobs.append(('sequences %s %s part %d' % (cc, fl, part), sequence_batch(allpairs[part * third:(part + 1) * third]), {'cc': cc, 'cflags': (fl,), 'timeout': 1800}))

    def work(job):
        label, b, kw = job
        return run_batch(b, w2c2=w2c2, **kw)
    states = transitions = 0
    per = {}
    for (label, b, kw), res in zip(jobs, pmap(work, jobs)):
        # ASan reports end up in stderr with a non-zero exit
        if res.get('stage') == 'run' and not res.get('done') and 'AddressSanitizer' in (res.get('stderr') or ''):
            chk.violation('%s|asan' % label, {'kind': 'pipeline', 'stderr': res['stderr'], 'label': label}, 'AddressSanitizer report: ' + res['stderr'][:300])
            chk.cov['exhaustive'] = False
            continue
        hist = res.get('histories') or []
        if hist and res.get('mismatch_lines'):
            # attach the failing operation history to each mismatch
            for line, h in zip(res['mismatch_lines'], hist):
                names = [b.opnames[i] for i in h]
                what = line.split('what=')[1].split()[0].split('(')[0].split('@')[0]
                chk.violation('%s|%s|%s' % (label, names[-1], what), {'kind': 'history', 'memory': label, 'history': names, 'line': line, 'replay_module': 'c05.py', 'ops': h},
                              'history %s: %s' % (' ; '.join(names), line))
            res['mismatch_lines'] = []
        ok = report(chk, b, res, label, extra=kw)
        if not ok:
            chk.cov['exhaustive'] = False
            continue
        if 'bfs' in res:
            per[label] = res['bfs']
            states += res['bfs']['states']; transitions += res['bfs']['transitions']
            if res['bfs']['capped']:
                chk.cov['exhaustive'] = False
        else:
            per[label] = {'evaluations': res['evals'], 'programs': res['funcs'], 'skipped_out_of_bounds': res['skipped']}
    chk.cov['states'] = states
    chk.cov['transitions'] = transitions
    chk.cov['traces_validated_against_impl'] = transitions
    chk.cov['parts'] = per
    chk.cov['rule'] = ('(a) 14 loads x 5 static offsets x 2 alignment hints and 9 stores x 5 offsets as one-instruction functions over 18 base addresses '
                       '(out-of-bounds combinations are skipped: the property speaks about in-bounds accesses) x value alphabets, all memory bytes '
                       'compared after every store; (b) BFS over histories of a 50-operation alphabet (stores, grow by 0/1/2/3/65535/65536/2^32-1, size, '
                       'fill, copy with overlap in both directions, init from a passive segment, data.drop, loads) for 6 memory declarations and a shared memory; a state is '
                       'the history reaching it, deduplicated by (pages, all bytes, dropped flag) of the reference; every transition executes the real '
                       'translated code on a fresh instance and compares result, trap, pages and every byte; ASan build; (c) every (store flavour, store flavour, load flavour) triple as ONE function '
                       'store p; store q; load p (and the mirrored order) over overlapping / disjoint address pairs, compiled by gcc and clang at -O2 (thorough: + -O3, -O0): all accesses visible to '
                       'the optimiser together; every flavour also with padded LEB128 alignment/offset fields; static offsets 2^31-1 .. 0xfffe0000 in a memory of 65535 pages. distinct_nontrivial = distinct states')
    chk.cov['distinct_nontrivial'] = max(chk.cov['distinct_nontrivial'], states)
    chk.sample({'history': ['memory.grow(1)', 'i64.store(0xfffc,0x8877665544332211)', 'memory.copy(0,0xfffa,12)'], 'compared': 'result, trap, pages, all bytes'})
    chk.assumptions += ['effective addresses >= 2^32 cannot be in bounds (memories are < 4 GiB), so address wrap-around is unobservable under the in-bounds precondition']
    return chk.finish()


if __name__ == '__main__':
    sys.exit(main(sys.argv[1] if len(sys.argv) > 1 else 'quick'))
