#!/usr/bin/env python3
"""bin/check replay <file> — re-executes exactly the case recorded in a replay artefact, without the enumerator."""
import base64, json, os, subprocess, sys, zlib
sys.path.insert(0, os.path.join(os.path.dirname(os.path.abspath(__file__)), '..', 'lib'))

def main(path):
    r = json.load(open(path))
    kind = r.get('kind')
    if kind == 'program':
        from batch import Batch, Case, run_batch
        wasm = zlib.decompress(base64.b64decode(r['wasm_b64z']))
        inputs = [int(x, 16) for x in r['inputs'].split(',')] if r.get('inputs') not in (None, '-', '') else []
        c = Case(r['export'], r['params'], r['result'], 0, -1, r.get('desc'))
        extra = r.get('extra') or {}
        kw = {}
        for k in ('cc', 'cflags', 'w2c2_args', 'defines'):
            if k in extra: kw[k] = tuple(extra[k]) if isinstance(extra[k], list) else extra[k]
        res = run_batch(Batch(wasm, [c], [('explicit', [tuple(inputs)])], [], [tuple(i) for i in r.get('imports', [])]), **kw)
        print(json.dumps({k: res.get(k) for k in ('done', 'stage', 'evals', 'mismatch_lines', 'crash', 'errors', 'stderr')}, indent=1))
        bad = (not res.get('done')) or res.get('mismatch_lines') or res.get('crash')
        print('REPLAY: %s' % ('violation reproduced' if bad else 'case passes on the current tree'))
        return 1 if bad else 0
    mod = r.get('replay_module')
    if mod:
        return subprocess.call([sys.executable, os.path.join(os.path.dirname(os.path.abspath(__file__)), mod), 'replay', path])
    prop = r.get('property', '').lower()
    f = os.path.join(os.path.dirname(os.path.abspath(__file__)), prop + '.py')
    if os.path.exists(f):
        return subprocess.call([sys.executable, f, 'replay', path])
    print('do not know how to replay', path)
    return 2

if __name__ == '__main__':
    sys.exit(main(sys.argv[1]))
