#!/usr/bin/env python3
"""C01 Integer instruction semantics and integer traps."""
import sys, os
sys.path.insert(0, os.path.dirname(os.path.abspath(__file__)))
from numeric import *

def main(tier):
    alphas = [a32(), a64(), r32(), r64()]
    unary32 = [0x45, 0x67, 0x68, 0x69, 0xac, 0xad, 0xc0, 0xc1]
    return run_numeric('C01', tier, INT_OPS, alphas, {'i': 0, 'I': 1}, {'i': 2, 'I': 3}, unary32,
                       'trap kind (divide-by-zero vs integer-overflow) is part of every outcome')

if __name__ == '__main__':
    sys.exit(main(sys.argv[1] if len(sys.argv) > 1 else 'quick'))
