"""Common driver for C01 (integer) and C02 (float) numeric-instruction checks."""
import base64, os, sys, zlib, json
sys.path.insert(0, os.path.join(os.path.dirname(os.path.abspath(__file__)), '..', 'lib'))
from vcommon import *
from wasmenc import *
from exprgen import *
from batch import Batch, Case, run_batch


def make_batch(trees, alphas, alpha_of_type, direct=False, explicit_inputs=None):
    """trees -> one module with one exported function per tree"""
    m = Module()
    cases = []
    inputsets = []
    isidx = {}
    for k, t in enumerate(trees):
        params = []
        body = emit(t, params)
        rt = result_type(t)
        ps = ''.join(params)
        m.add_func(ps, rt, (), body, export='f%d' % k)
        if explicit_inputs is not None:
            key = ('e', k)
            inputsets.append(('explicit', explicit_inputs[k]))
            isi = len(inputsets) - 1
        else:
            key = tuple(alpha_of_type[p] for p in params)
            if key not in isidx:
                inputsets.append(('product', list(key)))
                isidx[key] = len(inputsets) - 1
            isi = isidx[key]
        dop = -1
        if direct and t[0] == 'op' and all(c[0] == 'p' for c in t[2]):
            dop = t[1]
        cases.append(Case('f%d' % k, ps, rt, isi, dop, describe(t)))
    return Batch(m.encode(), cases, inputsets, alphas)


def chunks(lst, n):
    for i in range(0, len(lst), n):
        yield lst[i:i + n]


def report(chk, batch, res, label, extra=None):
    """turn a batch result into violations; returns True if the batch ran to completion"""
    if not res.get('done'):
        key = '%s|machinery|%s' % (label, res.get('stage'))
        if res.get('crash'):
            line = res['crash']
            fi = int(line.split('f=')[1].split()[0])
            desc = batch.cases[fi].desc
            chk.violation('%s|%s|crash' % (label, desc), {'kind': 'program', 'desc': desc, 'line': line, 'wasm_b64z': base64.b64encode(zlib.compress(batch.wasm)).decode(),
                                                       'export': batch.cases[fi].name, 'params': batch.cases[fi].params, 'result': batch.cases[fi].result}, 'implementation crashed/hung: ' + line)
            return False
        if res.get('stage') == 'compile' and res.get('bad_funcs'):
            attributed = 0
            for fi in res['bad_funcs'][:5]:
                k = fi - len(batch.imports)
                if 0 <= k < len(batch.cases):
                    c = batch.cases[k]
                    attributed += 1
                    chk.violation('%s|compile-error|%s' % (label, c.desc), {'kind': 'program', 'desc': c.desc, 'export': c.name, 'params': c.params, 'result': c.result,
                                  'inputs': '-', 'stderr': res.get('stderr'), 'imports': [list(i) for i in batch.imports], 'extra': extra,
                                  'wasm_b64z': base64.b64encode(zlib.compress(batch.wasm)).decode()}, 'generated C does not compile for body: ' + c.desc)
            if attributed:
                return False
            # the compile error sits in a function that is not one of the enumerated cases (a helper, a callee): never let it pass silently
        chk.violation(key, {'kind': 'pipeline', 'stage': res.get('stage'), 'stderr': res.get('stderr'), 'cmd': res.get('cmd'),
                            'wasm_b64z': base64.b64encode(zlib.compress(batch.wasm)).decode(), 'extra': extra},
                      'pipeline stage %s failed: %s' % (res.get('stage'), (res.get('stderr') or '')[-300:]))
        return False
    chk.add(evaluations=res['evals'], distinct_nontrivial=res['nontrivial'])
    chk.cov['skipped'] = chk.cov.get('skipped', 0) + res['skipped']
    chk.cov['weak'] = chk.cov.get('weak', 0) + res['weak']
    chk.cov['trapping_evaluations'] = chk.cov.get('trapping_evaluations', 0) + res['traps']
    chk.cov['programs'] = chk.cov.get('programs', 0) + res['funcs']
    seen = set()
    for line in res['mismatch_lines']:
        fi = int(line.split('f=')[1].split()[0])
        what = line.split('what=')[1].split()[0]
        exp = line.split('exp=')[1].split()[0]
        got = line.split('got=')[1].split()[0]
        inp = line.split(' in=')[1].split()[0]
        c = batch.cases[fi]
        key = '%s|%s|%s|exp=%s|got=%s' % (label, c.desc, what, exp.split(':')[0], got.split(':')[0])
        if 'FLAKY' in line:
            print('MACHINERY-ERROR: non-deterministic implementation result: ' + line)
            sys.exit(2)
        if key in seen:
            continue
        seen.add(key)
        chk.violation(key, {'kind': 'program', 'desc': c.desc, 'export': c.name, 'params': c.params, 'result': c.result,
                            'inputs': inp, 'expected': exp, 'observed': got, 'what': what, 'extra': extra, 'imports': [list(i) for i in batch.imports],
                            'wasm_b64z': base64.b64encode(zlib.compress(batch.wasm)).decode(),
                            'how_to_replay': 'bin/check replay <this file>'}, line)
    return True


def run_numeric(prop, tier, ops, alphas, alpha_of_type, ralpha_of_type, unary32_ops, level_note):
    chk = Check(prop, 'exploration', tier)
    w2c2 = build_w2c2('plain')
    build_ref()
    jobs = []   # (label, batch, kwargs)
    # level 1: every opcode alone x full alphabet product
    l1 = [leaf_op(o) for o in ops]
    for part in chunks(l1, 8):
        jobs.append(('L1', make_batch(part, alphas, alpha_of_type, direct=False), {}))
    # level 2: all type-correct compositions x reduced alphabets
    l2 = list(compositions(ops))
    for part in chunks(l2, 400):
        jobs.append(('L2', make_batch(part, alphas, ralpha_of_type), {}))
    # the pretty-printed output format (-p) has its own branches in the expression writers (spacing, parentheses): level 1 again with -p,
    # thorough: level 2 too
    for part in chunks(l1, 8):
        jobs.append(('L1-pretty', make_batch(part, alphas, alpha_of_type, direct=False), {'w2c2_args': ('-p',)}))
    if tier == 'thorough':
        for part in chunks(l2, 400):
            jobs.append(('L2-pretty', make_batch(part, alphas, ralpha_of_type), {'w2c2_args': ('-p',)}))
    if tier == 'thorough':
        # level 1 again, compiled by gcc -O2 (different folding of the macros)
        for part in chunks(l1, 8):
            jobs.append(('L1-gccO2', make_batch(part, alphas, alpha_of_type), {'cc': 'gcc', 'cflags': ('-O2',)}))
    # level K: every opcode with CONSTANT operands (t.const immediates instead of parameters) over the reduced alphabets, compiled by optimising
    # compilers: the optimiser evaluates the runtime macros at compile time, where undefined conversions and overflows are folded differently
    # from what the machine instruction does at run time
    import itertools
    ktrees = []
    for o in ops:
        ps, r_ = numop_sig(o)
        for vals in itertools.product(*[alphas[ralpha_of_type[t]] for t in ps]):
            ktrees.append(('op', o, [('c', t, v) for t, v in zip(ps, vals)]))
    for part in chunks(ktrees, 1500):
        kb = make_batch(part, alphas, alpha_of_type, explicit_inputs=[[()]] * len(part))
        jobs.append(('K-gccO2', kb, {'cc': 'gcc', 'cflags': ('-O2',), 'timeout': 1800}))
        if tier == 'thorough':
            jobs.append(('K-clangO2', kb, {'cc': 'clang', 'cflags': ('-O2',), 'timeout': 1800}))
            jobs.append(('K-gccO1', kb, {'cc': 'gcc', 'cflags': ('-O1',), 'timeout': 1800}))
    # plain `char` is unsigned on many ABIs (ARM, PowerPC, s390): level 1 again compiled with -funsigned-char (the runtime's 8-bit signed type must
    # not be plain char)
    for part in chunks(l1, 8):
        jobs.append(('L1-unsigned-char', make_batch(part, alphas, alpha_of_type, direct=False), {'cc': 'gcc', 'cflags': ('-O1', '-funsigned-char')}))
    # fallback (non-builtin) bit counting paths of the runtime header
    nb = [leaf_op(o) for o in ops if NUMOP_NAME[o].split('.')[1] in ('clz', 'ctz', 'popcnt')]
    if nb:
        jobs.append(('L1-nobuiltin', make_batch(nb, alphas, alpha_of_type), {'cflags': ('-O0', '-include', os.path.join(VERIF, 'ref', 'nobuiltin.h'))}))
    # exhaustive 2^32 for unary 32-bit-input opcodes
    if tier == 'thorough':
        shards = 16
        for o in unary32_ops:
            t = leaf_op(o)
            b = make_batch([t], alphas, alpha_of_type, direct=True)
            b.inputsets = [('range32',)]
            b.cases[0].inputset = 0
            for s in range(shards):
                lo, hi = (s << 32) // shards, ((s + 1) << 32) // shards
                jobs.append(('X32', b, {'drv_args': (lo, hi, 3000), 'cflags': ('-O1',), 'timeout': 3600}))
        for o in [o for o in unary32_ops if NUMOP_NAME[o].split('.')[1] in ('clz', 'ctz', 'popcnt')]:
            b = make_batch([leaf_op(o)], alphas, alpha_of_type, direct=True)
            b.inputsets = [('range32',)]
            b.cases[0].inputset = 0
            for s in range(shards):
                lo, hi = (s << 32) // shards, ((s + 1) << 32) // shards
                jobs.append(('X32-nobuiltin', b, {'drv_args': (lo, hi, 3000), 'cflags': ('-O1', '-include', os.path.join(VERIF, 'ref', 'nobuiltin.h')), 'timeout': 3600}))

    def work(job):
        label, b, kw = job
        return run_batch(b, w2c2=w2c2, **kw)
    results = pmap(work, jobs)
    levels = {}
    for (label, b, kw), res in zip(jobs, results):
        ok = report(chk, b, res, label, extra=kw)
        lv = levels.setdefault(label, {'batches': 0, 'programs': 0, 'evaluations': 0})
        lv['batches'] += 1
        if ok:
            lv['programs'] += res['funcs']; lv['evaluations'] += res['evals']
        else:
            chk.cov['exhaustive'] = False
    chk.cov['levels'] = levels
    chk.cov['rule'] = ('every opcode of the set as a one-instruction function over the full cross product of the boundary alphabets (L1), '
                       'every type-correct composition of two opcodes in both operand positions over reduced alphabets (L2), '
                       'level K: every opcode with constant operands (immediates) over the reduced alphabets at gcc -O2 (thorough: clang -O2, gcc -O1 too); L1 again (thorough: L2 too) translated with -p (pretty-printed output has its own branches in the expression writers); thorough: all 2^32 inputs of every unary opcode with a 32-bit operand (X32); a program is non-trivial iff the '
                       'reference outcome (value/trap) is not constant over its inputs; ' + level_note)
    for t in l1[:3] + l2[:3]:
        chk.sample({'program': describe(t)})
    chk.assumptions += ['C compiler and libc implement C', 'reference = own interpreter validated against the spec test-suite (ref/selftest)',
                        'binary operators are covered on alphabet x alphabet only, not 2^64 pairs']
    return chk.finish()
