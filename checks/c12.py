#!/usr/bin/env python3
"""C12 WASI file I/O equals POSIX.

Breadth-first search over histories of path_open / fd_write / fd_pwrite / fd_read / fd_pread / fd_seek /
fd_tell / fd_filestat_get / fd_close on the real wasi.c (through the translated specification-signature
shim, ASan/UBSan build, one forked child per history); after every step the harness compares with the
POSIX twin executed on a sibling directory (wasix/fileio.c)."""
import json, os, sys, time
sys.path.insert(0, os.path.dirname(os.path.abspath(__file__)))
from wasix import *

NAMES = ['f', 'g', 'sub']
OFLAGS = {0: '0', 1: 'CREAT', 5: 'CREAT|EXCL', 8: 'TRUNC', 9: 'CREAT|TRUNC', 2: 'DIRECTORY', 10: 'DIRECTORY|TRUNC', 3: 'DIRECTORY|CREAT'}   # oflags bits: creat 1, directory 2, excl 4, trunc 8
FDFLAGS = {0: '0', 1: 'APPEND', 16: 'SYNC'}
RIGHTS = {1: 'R', 2: 'W', 3: 'RW'}
SHAPES = {0: '[]', 1: '[3]', 2: '[0]', 3: '[2,0,3]', 4: '[1,1,1]', 5: '[2,3@end-of-memory]', 6: '[3] result cell on the iovec length field', 7: '[3] result cell on the data buffer'}
OFFSETS = [0, 2, 7, 2 ** 31, 2 ** 32 + 3]
SEEKS = [0, 3, -2, 2 ** 32 + 1]
WHENCES = [0, 1, 2, 3]
NSNAME = {0: 'wasi_snapshot_preview1', 1: 'wasi_unstable'}
OPNAME = {'u': 'path_unlink_file', 'n': 'path_rename', 'o': 'path_open', 'w': 'fd_write', 'W': 'fd_pwrite', 'r': 'fd_read', 'R': 'fd_pread', 's': 'fd_seek', 't': 'fd_tell',
          'f': 'fd_filestat_get', 'c': 'fd_close'}


def alphabet(info, depth):
    """info = [(fd, name)] of the live descriptors of the history that is being extended.
    Both name spaces for every operation up to depth 2; deeper, the operations whose encoding does not depend on the
    name space (everything except fd_seek and fd_filestat_get) use wasi_snapshot_preview1 only."""
    both = (0, 1)
    nss = both if depth <= 2 else (0,)
    ops = []
    if depth >= 4:
        # reduced alphabet of the deepest level (thorough tier): the representatives of every class
        for n in ('f', 'g'):
            for o in (0, 9, 5):
                for fl in FDFLAGS:
                    ops.append('o,%s,%d,%d,3,0' % (n, o, fl))
        for fd, name in info:
            for sh in (1, 3):
                ops += ['w,%d,%d,0' % (fd, sh), 'r,%d,%d,0' % (fd, sh)]
            if name != 'sub':
                for off in (2, 2 ** 32 + 3):
                    ops += ['W,%d,3,%d,0' % (fd, off), 'R,%d,3,%d,0' % (fd, off)]
            for ns in both:
                ops += ['s,%d,%d,%d,%d' % (fd, off, wh, ns) for off in (3, -2, 2 ** 32 + 1) for wh in (0, 1, 2)]
                ops.append('f,%d,%d' % (fd, ns))
            ops += ['t,%d,0' % fd, 'c,%d,0' % fd]
        return ops
    for ns in nss:
        for n in NAMES:
            for o in OFLAGS:
                for fl in FDFLAGS:
                    for r in RIGHTS:
                        if o in (10, 3) and (fl != 0 or r == 1):
                            continue
                        if fl == 16 and (o not in (0, 1) or r != 3):
                            continue        # the sync flag with plain and creating opens, read-write        # DIRECTORY combined with TRUNC / CREAT: write access, no append (keeps level 3 affordable)
                        ops.append('o,%s,%d,%d,%d,%d' % (n, o, fl, r, ns))
    # names go away or move while descriptors are open on the files (fd_filestat_get, reads and writes keep addressing the open file)
    if info:
        for ns in nss:
            ops += ['u,f,%d' % ns, 'u,g,%d' % ns, 'n,f,g,%d' % ns, 'n,g,f,%d' % ns]
    for fd, name in info:
        for ns in nss:
            for sh in SHAPES:
                ops.append('w,%d,%d,%d' % (fd, sh, ns))
                if sh != 7:
                    ops.append('r,%d,%d,%d' % (fd, sh, ns))
                if sh >= 6:
                    continue        # the aliasing shapes with fd_write / fd_read only (the positional variants share the code)
                if name != 'sub':     # positional I/O on directory handles: outside the statement (error precedence of an emulation)
                    for off in OFFSETS:
                        ops.append('W,%d,%d,%d,%d' % (fd, sh, off, ns))
                        ops.append('R,%d,%d,%d,%d' % (fd, sh, off, ns))
                    if sh in (0, 1):      # offsets that are negative as a host off_t (2^63, 2^64-1): POSIX says EINVAL, nothing transferred, position kept
                        for off in (2 ** 63, 2 ** 64 - 1):
                            ops.append('W,%d,%d,%d,%d' % (fd, sh, off, ns))
                            ops.append('R,%d,%d,%d,%d' % (fd, sh, off, ns))
            ops.append('t,%d,%d' % (fd, ns))
            ops.append('c,%d,%d' % (fd, ns))
        for ns in both:
            for off in SEEKS:
                for wh in WHENCES:
                    ops.append('s,%d,%d,%d,%d' % (fd, off, wh, ns))
            ops.append('f,%d,%d' % (fd, ns))
    return ops


def describe_op(op):
    f = op.split(',')
    ns = NSNAME[int(f[-1])]
    k = f[0]
    if k == 'u':
        return '%s.path_unlink_file(3,"%s")' % (ns, f[1])
    if k == 'n':
        return '%s.path_rename(3,"%s",3,"%s")' % (ns, f[1], f[2])
    if k == 'o':
        return '%s.path_open(3,"%s",oflags=%s,fdflags=%s,rights=%s)' % (ns, f[1], OFLAGS[int(f[2])], FDFLAGS[int(f[3])], RIGHTS[int(f[4])])
    if k in 'wr':
        return '%s.%s(%s,iovs=%s)' % (ns, OPNAME[k], f[1], SHAPES[int(f[2])])
    if k in 'WR':
        return '%s.%s(%s,iovs=%s,offset=%s)' % (ns, OPNAME[k], f[1], SHAPES[int(f[2])], f[3])
    if k == 's':
        return '%s.fd_seek(%s,offset=%s,whence=%s)' % (ns, f[1], f[2], f[3])
    return '%s.%s(%s)' % (ns, OPNAME[k], f[1])


def describe(line):
    return ' ; '.join(describe_op(op) for op in line.split())


def op_class(op):
    f = op.split(',')
    k = f[0]
    if k in 'WR':
        return 'offset>=2^32' if int(f[3]) >= 2 ** 32 else 'offset<2^32'
    if k == 's':
        return '%s,whence=%s' % (NSNAME[int(f[-1])], f[3])
    if k == 'o':
        return 'oflags=%s,fdflags=%s,rights=%s' % (OFLAGS[int(f[2])], FDFLAGS[int(f[3])], RIGHTS[int(f[4])])
    if k == 'f':
        return NSNAME[int(f[-1])]
    if k in 'un':
        return '-'
    return 'iovs=%s' % SHAPES[int(f[2])] if k in 'wr' else '-'


def make_harness():
    return Harness(['fileio.c'], 'fileio')


def make_judge(ex, report=True):
    def judge(line, r):
        ops = line.split()
        if crash_class(r):
            k = len(r['steps'])
            op = ops[min(k, len(ops) - 1)] if ops else '-'
            ex.crash(line, r, '%s|%s' % (OPNAME.get(op[0], '?'), op_class(op)), describe)
            return None, None
        if r['x']:
            seen = set()
            for stepno, what, rest in r['x']:
                op = ops[stepno]
                key = '%s|%s|%s' % (OPNAME[op[0]], op_class(op), what.split('=')[0])
                if key in seen:
                    continue
                seen.add(key)
                note = ''
                if OPNAME[op[0]] in ex.h.conflicts:
                    note = ' [wasi.c defines %s as %s, the import\'s specification signature is (%s)->i32]' % (
                        OPNAME[op[0]], sorted(ex.h.conflicts[OPNAME[op[0]]].values())[0], SPEC[OPNAME[op[0]]])
                ex.report(key, line, r, '%s differs from the POSIX twin at step %d (%s): %s%s — history: %s' % (what, stepno, describe_op(op), rest, note, describe(line)), describe)
            return None, None
        info = []
        for i in r['info']:
            if i.startswith('live'):
                info = [(int(t.split(':')[0]), t.split(':')[1]) for t in i.split()[1:]]
        return r['state'], info
    return judge


def main(tier):
    if tier in ('replay', '--replay'):
        res = replay_main(sys.argv[2], make_harness)
        print('REPLAY: %s' % ('differs from the POSIX twin / sanitizer report' if (res['x'] or crash_class(res)) else 'history agrees with the POSIX twin on the current tree'))
        return 1 if (res['x'] or crash_class(res)) else 0
    h, rc_ = harness_or_violation('C12', tier, make_harness)
    if h is None:
        return rc_
    ex = Explorer('C12', tier, h, 'fileio', 'c12.py')
    ex.deadline = time.time() + (240 if tier == 'quick' else 900)
    depth = bfs(ex, alphabet, make_judge(ex), 3 if tier == 'quick' else 4, describe)
    conf = {k: v for k, v in h.conflicts.items() if k in OPNAME.values()}
    if conf:
        print('note: definitions in wasi.c whose C signature differs from the specification signature of the import: %s' % json.dumps(conf))
    rule = ('breadth-first search over histories of path_open(name in f,g,sub x 8 oflags x 2 fdflags x 3 rights), fd_write/fd_read (5 iovec shapes), '
            'fd_pwrite/fd_pread (5 shapes x offsets 0,2,7,2^31,2^32+3; 2 shapes x offsets 2^63, 2^64-1), fd_seek (4 offsets x whence 0..3, both encodings), fd_tell, '
            'fd_filestat_get (both layouts), fd_close on the descriptors the history opened; one history per distinct canonical state '
            '(contents of f and g, and target/access/append/position of every live descriptor) is extended; every step is compared with the POSIX twin; '
            'distinct_nontrivial = distinct (operation, errno, stored result) triples observed')
    return ex.finish(rule, {'max_depth_completed': depth, 'abi_signature_conflicts_in_C12_calls': conf},
                     ['the twin runs on the same file system in a sibling directory, so file-system specific behaviour cancels out',
                      'st_dev/st_ino/times are compared with fstat of the implementation\'s own file, not with the twin',
                      'rights are restricted to R, W, RW; positional I/O on directory handles is not in the alphabet',
                      'beyond depth 2 name-space independent operations are issued through wasi_snapshot_preview1 only',
                      'thorough tier: level 4 uses a reduced alphabet (12 opens, 30 operations per live descriptor), levels 1-3 the full one'])


if __name__ == '__main__':
    sys.exit(main(sys.argv[1] if len(sys.argv) > 1 else 'quick'))
