/* C12 driver: executes one history of file I/O calls on the real wasi.c (directory A) and, step by
 * step, the corresponding POSIX calls on a twin directory B of the same file system; compares after
 * every step: errno, every value stored into guest memory, data read, the file position of every
 * live descriptor and the full contents of the files.
 *
 * history := op (' ' op)*
 *   o,<name>,<oflags>,<fdflags>,<rights 1=R 2=W 3=RW>,<ns>     path_open below the pre-open
 *   w,<fd>,<shape>,<ns>   r,<fd>,<shape>,<ns>                  fd_write / fd_read
 *   W,<fd>,<shape>,<offset>,<ns>   R,<fd>,<shape>,<offset>,<ns> fd_pwrite / fd_pread
 *   s,<fd>,<offset>,<whence>,<ns>   t,<fd>,<ns>                 fd_seek / fd_tell
 *   f,<fd>,<ns>   c,<fd>,<ns>                                   fd_filestat_get / fd_close
 * shapes of the scatter/gather vector: 0 [] 1 [3] 2 [0] 3 [2,0,3] 4 [1,1,1]
 */
#define _GNU_SOURCE 1
#include <errno.h>
#include <fcntl.h>
#include <stdlib.h>
#include <string.h>
#include <sys/stat.h>
#include <sys/uio.h>
#include <unistd.h>
#include "hx.h"
#include "twin.h"
#include "wasi.h"

enum { PATH = 0x40, IOV = 0x100, BUFS = 0x200, BUFSTEP = 0x20, RES = 0x400, STAT = 0x500, GUEST = 8192, FILL = 0xAA };

static const int shapeN[8] = {0, 1, 1, 3, 3, 2, 1, 1};
static const U32 shapeLen[8][3] = {{0, 0, 0}, {3, 0, 0}, {0, 0, 0}, {2, 0, 3}, {1, 1, 1}, {2, 3, 0}, {3, 0, 0}, {3, 0, 0}};
/* shapes 6 and 7 are shape 1 with the RESULT cell (nwritten / nread) on top of an input of the same call: 6 = on the buf_len field of the
   iovec, 7 = on the data buffer.  All inputs are read before the result is stored (the twin's inputs are separate host objects anyway). */
static U32 resPtr(int shape) { return shape == 6 ? 0x100 + 4 : shape == 7 ? 0x200 : 0x400; }
/* shape 5: the second segment ends exactly at the last byte of guest memory (buf + len == memory size is in bounds) */
static U32 segAddr(int shape, int j) { return shape == 5 && j == 1 ? GUEST - 3 : BUFS + j * BUFSTEP; }
static U32 segSpan(int shape, int j) { return shape == 5 && j == 1 ? 3 : BUFSTEP; }

typedef struct { U32 wfd; int tfd; char name[8]; int rights, append; } Desc;
static Desc live[16];
static int nlive, step, failed;
static char dirA[600], dirB[600];
static U8 tbuf[3][BUFSTEP];      /* the twin's read buffers */

static void differ(const char* what, unsigned long long impl, unsigned long long want) {
    fprintf(hx_out, "X %d %s impl=%llu want=%llu\n", step, what, impl, want);
    failed = 1;
}

static Desc* find(U32 wfd) {
    int i;
    for (i = 0; i < nlive; i++) if (live[i].wfd == wfd) return &live[i];
    return NULL;
}

static int nativeFd(U32 wfd) {
    WasiFileDescriptor d;
    if (!wasiFileDescriptorGet(wfd, &d)) return -1;
    return d.fd;
}

/* iovec array in guest memory; for writes the segments carry distinct letters */
static void marshal(int shape, int forWrite, struct iovec* tv) {
    int j; U32 i;
    for (j = 0; j < shapeN[shape]; j++) {
        U32 v[2] = {segAddr(shape, j), shapeLen[shape][j]};
        hx_put(IOV + 8 * j, v, 8);
        memset(hx_mem.data + v[0], FILL, segSpan(shape, j));
        memset(tbuf[j], FILL, BUFSTEP);
        if (forWrite) for (i = 0; i < v[1]; i++) hx_mem.data[v[0] + i] = tbuf[j][i] = (U8)('a' + 4 * j + i);
        tv[j].iov_base = tbuf[j];
        tv[j].iov_len = v[1];
    }
    hx_snapshot();
    if (!forWrite) for (j = 0; j < shapeN[shape]; j++) hx_allow(segAddr(shape, j), shapeLen[shape][j]);
}

static void compareBuffers(int shape) {
    int j;
    for (j = 0; j < shapeN[shape]; j++)
        if (memcmp(hx_mem.data + segAddr(shape, j), tbuf[j], segSpan(shape, j)) != 0) {
            fprintf(hx_out, "X %d data segment=%d impl=", step, j); hx_hex(hx_out, hx_mem.data + segAddr(shape, j), segSpan(shape, j) < 8 ? segSpan(shape, j) : 8);
            fprintf(hx_out, " want="); hx_hex(hx_out, tbuf[j], 8); fprintf(hx_out, "\n");
            failed = 1;
        }
}

static U64 ns_of(struct timespec t) { return (U64)t.tv_sec * 1000000000ull + (U64)t.tv_nsec; }

static void compareStat(int ns, U32 wfd, Desc* d) {
    const tw_statlayout* L = &tw_layout[ns];
    struct stat ts, is;
    U64 nlink = L->nlinkBytes == 8 ? hx_u64(STAT + L->nlink) : hx_u32(STAT + L->nlink);
    if (fstat(d->tfd, &ts) != 0 || fstat(nativeFd(wfd), &is) != 0) { differ("fstat-failed", 0, 0); return; }
    /* type, link count and size are what POSIX determines: compared with the twin's file */
    if (hx_mem.data[STAT + L->filetype] != tw_filetype(ts.st_mode)) differ("filestat.filetype", hx_mem.data[STAT + L->filetype], tw_filetype(ts.st_mode));
    if (nlink != (U64)ts.st_nlink) differ("filestat.nlink", nlink, ts.st_nlink);
    if (hx_u64(STAT + L->fsize) != (U64)ts.st_size) differ("filestat.size", hx_u64(STAT + L->fsize), ts.st_size);
    /* device, inode and times belong to the implementation's own file */
    if (hx_u64(STAT) != (U64)is.st_dev) differ("filestat.dev", hx_u64(STAT), is.st_dev);
    if (hx_u64(STAT + 8) != (U64)is.st_ino) differ("filestat.ino", hx_u64(STAT + 8), is.st_ino);
    if (hx_u64(STAT + L->atim) != ns_of(is.st_atim)) differ("filestat.atim", hx_u64(STAT + L->atim), ns_of(is.st_atim));
    if (hx_u64(STAT + L->mtim) != ns_of(is.st_mtim)) differ("filestat.mtim", hx_u64(STAT + L->mtim), ns_of(is.st_mtim));
    if (hx_u64(STAT + L->ctim) != ns_of(is.st_ctim)) differ("filestat.ctim", hx_u64(STAT + L->ctim), ns_of(is.st_ctim));
}

static void compareWorld(void) {
    static const char* names[2] = {"f", "g"};
    char a[8192], b[8192], p[700];
    int i;
    for (i = 0; i < nlive; i++) {
        off_t ip = lseek(nativeFd(live[i].wfd), 0, SEEK_CUR), tp = lseek(live[i].tfd, 0, SEEK_CUR);
        if (ip != tp) { fprintf(hx_out, "X %d position fd=%u impl=%lld want=%lld\n", step, live[i].wfd, (long long)ip, (long long)tp); failed = 1; }
    }
    /* what each live descriptor is open on (the file may have lost or changed its name): contents through the descriptors */
    for (i = 0; i < nlive; i++) {
        if (!strcmp(live[i].name, "sub")) continue;
        snprintf(p, sizeof p, "/proc/self/fd/%d", nativeFd(live[i].wfd)); tw_file_canon(p, a, sizeof a);
        snprintf(p, sizeof p, "/proc/self/fd/%d", live[i].tfd); tw_file_canon(p, b, sizeof b);
        if (strcmp(a, b) != 0) { fprintf(hx_out, "X %d contents-of-open-file fd=%u impl=%s want=%s\n", step, live[i].wfd, a, b); failed = 1; }
    }
    for (i = 0; i < 2; i++) {
        snprintf(p, sizeof p, "%s/%s", dirA, names[i]); tw_file_canon(p, a, sizeof a);
        snprintf(p, sizeof p, "%s/%s", dirB, names[i]); tw_file_canon(p, b, sizeof b);
        if (strcmp(a, b) != 0) { fprintf(hx_out, "X %d contents file=%s impl=%s want=%s\n", step, names[i], a, b); failed = 1; }
    }
}

static void printState(void) {
    char a[8192], p[700];
    int i;
    snprintf(p, sizeof p, "%s/f", dirA); tw_file_canon(p, a, sizeof a); fprintf(hx_out, "STATE f=%s", a);
    snprintf(p, sizeof p, "%s/g", dirA); tw_file_canon(p, a, sizeof a); fprintf(hx_out, "|g=%s|", a);
    for (i = 0; i < nlive; i++) {
        struct stat st; char c[8192] = "";
        /* ... and the file behind the descriptor: link count and contents (it may be unlinked or renamed by now) */
        if (fstat(live[i].tfd, &st) != 0) st.st_nlink = 99;
        if (strcmp(live[i].name, "sub")) { snprintf(p, sizeof p, "/proc/self/fd/%d", live[i].tfd); tw_file_canon(p, c, sizeof c); }
        fprintf(hx_out, "%s:%d:%d:%lld:%d:%s;", live[i].name, live[i].rights, live[i].append, (long long)lseek(live[i].tfd, 0, SEEK_CUR), (int)st.st_nlink, c);
    }
    fprintf(hx_out, "\nINFO live");
    for (i = 0; i < nlive; i++) fprintf(hx_out, " %u:%s", live[i].wfd, live[i].name);
    fprintf(hx_out, "\n");
}

static void setup(void) {
    static char* argv[] = {"prog", NULL};
    static char* envp[] = {NULL};
    char p[700];
    U32 pre = 0;
    hx_guest_alloc(GUEST, FILL);
    snprintf(dirA, sizeof dirA, "%s/A", hx_work); snprintf(dirB, sizeof dirB, "%s/B", hx_work);
    hx_mkdir(dirA); hx_mkdir(dirB);
    snprintf(p, sizeof p, "%s/sub", dirA); hx_mkdir(p); snprintf(p, sizeof p, "%s/sub", dirB); hx_mkdir(p);
    snprintf(p, sizeof p, "%s/f", dirA); hx_write_file(p, "0123456789"); snprintf(p, sizeof p, "%s/f", dirB); hx_write_file(p, "0123456789");
    if (!wasiInit(1, argv, envp) || !wasiFileDescriptorAdd(-1, dirA, &pre) || pre != 3) { fprintf(hx_out, "HARNESS-ERROR wasiInit\n"); fflush(hx_out); _exit(71); }
}

static const char* NSN[2] = {"p1", "un"};

static void run(char* history) {
    char* ops[16];
    int n = hx_split(history, ' ', ops, 16);
    setup();
    for (step = 0; step < n && !failed; step++) {
        char* f[8];
        char det[200] = "", p[700];
        int nf = hx_split(ops[step], ',', f, 8), ns = atoi(f[nf - 1]), terr = 0, shape;
        U32 e = 0, wfd = nf > 2 ? (U32)strtoul(f[1], 0, 10) : 0, strayAt = 0;
        Desc* d = find(wfd);
        int tfd = d ? d->tfd : -1;
        const char* name = "?";
        struct iovec tv[3];
        ssize_t tn;
        errno = EXDEV;      /* environment: errno holds an unrelated stale value when a WASI call begins; no result may depend on it */
        memset(hx_mem.data + RES, FILL, 8);
        hx_snapshot();
        switch (f[0][0]) {
        case 'o': {
            U32 oflags = atoi(f[2]), fdflags = atoi(f[3]); int rights = atoi(f[4]);
            name = "path_open";
            hx_put(PATH, f[1], strlen(f[1]));
            hx_snapshot();
            hx_allow(RES, 4);
            e = NS(ns, path_open)(I, 3, TW_LOOKUP_SYMLINK_FOLLOW, PATH, strlen(f[1]), oflags, tw_rights(rights), 0, fdflags, RES);
            snprintf(p, sizeof p, "%s/%s", dirB, f[1]);
            tfd = open(p, tw_openflags(oflags, fdflags, rights), 0644);
            terr = tfd < 0 ? tw_errno(errno) : 0;
            if (e == 0 && terr == 0) {
                U32 nfd = hx_u32(RES);
                if (find(nfd) || nfd <= 3) differ("path_open.fd-aliases-live-descriptor", nfd, 0);
                live[nlive].wfd = nfd; live[nlive].tfd = tfd; live[nlive].rights = rights; live[nlive].append = fdflags & 1;
                snprintf(live[nlive].name, sizeof live[nlive].name, "%s", f[1]);
                nlive++;
                snprintf(det, sizeof det, "fd=%u", nfd);
            }
            break;
        }
        case 'w': case 'W': {
            off_t off = f[0][0] == 'W' ? (off_t)strtoull(f[3], 0, 10) : 0;
            shape = atoi(f[2]);
            name = f[0][0] == 'W' ? "fd_pwrite" : "fd_write";
            marshal(shape, 1, tv);
            hx_allow(resPtr(shape), 4);
            if (f[0][0] == 'W') { e = NS(ns, fd_pwrite)(I, wfd, IOV, shapeN[shape], (U64)off, resPtr(shape)); tn = pwritev(tfd, tv, shapeN[shape], off); }
            else { e = NS(ns, fd_write)(I, wfd, IOV, shapeN[shape], resPtr(shape)); tn = writev(tfd, tv, shapeN[shape]); }
            terr = tn < 0 ? tw_errno(errno) : 0;
            if (e == 0 && terr == 0) { if (hx_u32(resPtr(shape)) != (U32)tn) differ("nwritten", hx_u32(resPtr(shape)), tn); snprintf(det, sizeof det, "nwritten=%u", hx_u32(resPtr(shape))); }
            break;
        }
        case 'r': case 'R': {
            off_t off = f[0][0] == 'R' ? (off_t)strtoull(f[3], 0, 10) : 0;
            shape = atoi(f[2]);
            name = f[0][0] == 'R' ? "fd_pread" : "fd_read";
            marshal(shape, 0, tv);
            hx_allow(resPtr(shape), 4);
            if (f[0][0] == 'R') { e = NS(ns, fd_pread)(I, wfd, IOV, shapeN[shape], (U64)off, resPtr(shape)); tn = preadv(tfd, tv, shapeN[shape], off); }
            else { e = NS(ns, fd_read)(I, wfd, IOV, shapeN[shape], resPtr(shape)); tn = readv(tfd, tv, shapeN[shape]); }
            terr = tn < 0 ? tw_errno(errno) : 0;
            if (e == 0 && terr == 0) {
                if (hx_u32(resPtr(shape)) != (U32)tn) differ("nread", hx_u32(resPtr(shape)), tn);
                if (shape != 7) compareBuffers(shape);
                snprintf(det, sizeof det, "nread=%u", hx_u32(resPtr(shape)));
            }
            break;
        }
        case 's': case 't': {
            long long off = f[0][0] == 's' ? strtoll(f[2], 0, 10) : 0;
            int nativeWhence = f[0][0] == 's' ? tw_whence(ns, (U32)atoi(f[3])) : SEEK_CUR;
            off_t tp;
            name = f[0][0] == 's' ? "fd_seek" : "fd_tell";
            hx_allow(RES, 8);
            if (f[0][0] == 's') e = NS(ns, fd_seek)(I, wfd, (U64)off, (U32)atoi(f[3]), RES); else e = NS(ns, fd_tell)(I, wfd, RES);
            if (nativeWhence < 0) terr = TW_INVAL;
            else { tp = lseek(tfd, (off_t)off, nativeWhence); terr = tp == (off_t)-1 ? tw_errno(errno) : 0;
                   if (e == 0 && terr == 0) { if (hx_u64(RES) != (U64)tp) differ("newoffset", hx_u64(RES), tp); snprintf(det, sizeof det, "offset=%llu", (unsigned long long)hx_u64(RES)); } }
            break;
        }
        case 'f': {
            struct stat st;
            name = "fd_filestat_get";
            memset(hx_mem.data + STAT, FILL, 128);
            hx_snapshot();
            hx_allow(STAT, tw_layout[ns].size);
            e = NS(ns, fd_filestat_get)(I, wfd, STAT);
            terr = fstat(tfd, &st) != 0 ? tw_errno(errno) : 0;
            if (e == 0 && terr == 0) { compareStat(ns, wfd, d); snprintf(det, sizeof det, "filetype=%u size=%llu", hx_mem.data[STAT + 16], (unsigned long long)st.st_size); }
            break;
        }
        case 'u': {     /* u,<name>,<ns>: the name goes away; descriptors that are open on the file keep working on it */
            char q[700];
            name = "path_unlink_file";
            hx_put(PATH, f[1], strlen(f[1])); hx_snapshot();
            e = NS(ns, path_unlink_file)(I, 3, PATH, strlen(f[1]));
            snprintf(q, sizeof q, "%s/%s", dirB, f[1]);
            terr = unlink(q) != 0 ? tw_errno(errno) : 0;
            break;
        }
        case 'n': {     /* n,<old>,<new>,<ns>: rename inside the pre-opened directory */
            char q[700], q2[700];
            name = "path_rename";
            hx_put(PATH, f[1], strlen(f[1])); hx_put(PATH + 16, f[2], strlen(f[2])); hx_snapshot();
            e = NS(ns, path_rename)(I, 3, PATH, strlen(f[1]), 3, PATH + 16, strlen(f[2]));
            snprintf(q, sizeof q, "%s/%s", dirB, f[1]); snprintf(q2, sizeof q2, "%s/%s", dirB, f[2]);
            terr = rename(q, q2) != 0 ? tw_errno(errno) : 0;
            break;
        }
        case 'c':
            name = "fd_close";
            e = NS(ns, fd_close)(I, wfd);
            terr = close(tfd) != 0 ? tw_errno(errno) : 0;
            if (d && terr == 0) { int k = (int)(d - live); memmove(&live[k], &live[k + 1], sizeof(Desc) * (nlive - 1 - k)); nlive--; }
            break;
        default:
            fprintf(hx_out, "HARNESS-ERROR bad op %s\n", f[0]); fflush(hx_out); _exit(71);
        }
        fprintf(hx_out, "S %d %s.%s %u %s\n", step, NSN[ns], name, e, det);
        if ((int)e != terr) differ("errno", e, terr);
        if (hx_stray(&strayAt)) differ("stray-write-at-guest-offset-relative-to-result", strayAt >= STAT ? strayAt - STAT : strayAt, 0);
        if (!failed) compareWorld();
        fflush(hx_out);
    }
    if (!failed) printState();
}

int main(void) { return hx_serve(run); }
