/* C13 driver: executes one history of descriptor-creating, -using and -closing calls on the real
 * wasi.c and reports what every call returned.  The table model that judges the results lives in
 * checks/c13.py; this file only observes.
 *
 * history := op (' ' op)*      op := of,<ns> | od,<ns> | c,<x>,<ns> | u,<call>,<x>,<ns>
 *   of / od  path_open of file "f" / directory "sub" below the pre-open (descriptor 3)      om  path_open of the missing name "zz" (fails)
 *   c        fd_close(x)
 *   u        one descriptor-taking call on x (as file descriptor or as directory handle)
 */
#define _GNU_SOURCE 1
#include <errno.h>
#include <fcntl.h>
#include <stdlib.h>
#include <string.h>
#include <unistd.h>
#include <dlfcn.h>
#include <dirent.h>
#include "hx.h"
#include "twin.h"
#include "wasi.h"

enum { P_F = 0x100, P_SUB = 0x110, P_ZZ = 0x120, P_YY = 0x130, P_T = 0x140, IOV = 0x200, BUF = 0x300, RES = 0x400, STAT = 0x500,
       NAME = 0x800, DIRBUF = 0x1000, ABSF = 0x3000, ABSSUB = 0x3400, ABSZZ = 0x3800 };
static U32 absFLen, absSubLen, absZzLen;

/* pipes that stand in for the host's stdout / stderr while a guest write to 1 / 2 is executed */
static int hostPipe[3], hostPipeW[3], saved[3];

static int hostClosed = -1;

static void setup(void) {
    static char* argv[] = {"prog", NULL};
    static char* envp[] = {NULL};
    char a[600], p[700];
    U32 pre = 0;
    int k;
    hx_guest_alloc(65536, 0xAA);
    hx_put(P_F, "f", 1); hx_put(P_SUB, "sub", 3); hx_put(P_ZZ, "zz", 2); hx_put(P_YY, "yy", 2); hx_put(P_T, "t", 1);
    snprintf(a, sizeof a, "%s/A", hx_work); hx_mkdir(a);
    snprintf(p, sizeof p, "%s/f", a); hx_write_file(p, "hello");
    snprintf(p, sizeof p, "%s/sub", a); hx_mkdir(p);
    snprintf(p, sizeof p, "%s/sub/e", a); hx_write_file(p, "x");
    /* the same objects named by ABSOLUTE guest paths (used as they are, but the directory descriptor must still be valid) */
    snprintf(p, sizeof p, "%s/f", a); absFLen = strlen(p); hx_put(ABSF, p, absFLen);
    snprintf(p, sizeof p, "%s/sub", a); absSubLen = strlen(p); hx_put(ABSSUB, p, absSubLen);
    snprintf(p, sizeof p, "%s/zz", a); absZzLen = strlen(p); hx_put(ABSZZ, p, absZzLen);
    for (k = 1; k <= 2; k++) {
        int fds[2];
        if (pipe2(fds, O_NONBLOCK) != 0) _exit(72);
        hostPipe[k] = fds[0]; hostPipeW[k] = fds[1];
        saved[k] = fcntl(k, F_DUPFD, 210);
    }
    if (hostClosed >= 0) close(hostClosed);       /* the host stream is missing at the moment the WASI layer is initialised */
    if (!wasiInit(1, argv, envp) || !wasiFileDescriptorAdd(-1, a, &pre)) { fprintf(hx_out, "HARNESS-ERROR wasiInit\n"); _exit(71); }
    /* ... and is taken again at once by something of the host's own, so that no descriptor the WASI layer hands out later shares it */
    if (hostClosed >= 0 && open("/dev/null", O_RDONLY) != hostClosed) { fprintf(hx_out, "HARNESS-ERROR cannot re-occupy the stream\n"); _exit(71); }
    fprintf(hx_out, "INFO preopen=%u path=%s\n", pre, a);
    {   /* a second pre-opened directory, registered the other way the embedder API allows: together with a native descriptor that is open on it */
        char b2[600]; U32 pre2 = 0; int nfd;
        snprintf(b2, sizeof b2, "%s/B", hx_work); hx_mkdir(b2);
        snprintf(p, sizeof p, "%s/f", b2); hx_write_file(p, "second");
        snprintf(p, sizeof p, "%s/sub", b2); hx_mkdir(p);
        nfd = open(b2, O_RDONLY | O_DIRECTORY);
        if (nfd < 0 || !wasiFileDescriptorAdd(nfd, b2, &pre2)) { fprintf(hx_out, "HARNESS-ERROR second pre-open\n"); _exit(71); }
        fprintf(hx_out, "INFO preopen2=%u path=%s\n", pre2, b2);
    }
}

static void iov3(void) {
    U32 v[2] = {BUF, 3};
    hx_put(IOV, v, 8);
    hx_put(BUF, "ABC", 3);
}

static U32 use(const char* c, U32 x, int ns, char* det, size_t cap) {
    U32 e;
    U64 rd = tw_rights(1);
    det[0] = 0;
    memset(hx_mem.data + RES, 0xAA, 16);
    /* the same four calls with an EMPTY iovec array: nothing to transfer, but the descriptor must be valid all the same */
    if (!strcmp(c, "fd_write0")) { e = NS(ns, fd_write)(I, x, IOV, 0, RES); if (!e) snprintf(det, cap, "nw=%u", hx_u32(RES)); }
    else if (!strcmp(c, "fd_pwrite0")) { e = NS(ns, fd_pwrite)(I, x, IOV, 0, 0, RES); if (!e) snprintf(det, cap, "nw=%u", hx_u32(RES)); }
    else if (!strcmp(c, "fd_read0")) { e = NS(ns, fd_read)(I, x, IOV, 0, RES); if (!e) snprintf(det, cap, "nr=%u", hx_u32(RES)); }
    else if (!strcmp(c, "fd_pread0")) { e = NS(ns, fd_pread)(I, x, IOV, 0, 0, RES); if (!e) snprintf(det, cap, "nr=%u", hx_u32(RES)); }
    else if (!strcmp(c, "fd_write") || !strcmp(c, "fd_pwrite")) {
        int std = (x == 1 || x == 2);
        iov3();
        if (std) { fflush(hx_out); dup2(hostPipeW[x], x); }
        e = c[3] == 'w' ? NS(ns, fd_write)(I, x, IOV, 1, RES) : NS(ns, fd_pwrite)(I, x, IOV, 1, 0, RES);
        if (std) dup2(saved[x], x);
        if (e == 0) {
            int n = snprintf(det, cap, "nw=%u", hx_u32(RES));
            if (x == 1 || x == 2) {
                char got[16]; ssize_t k = read(hostPipe[x], got, sizeof got);
                FILE* m = fmemopen(det + n, cap - n, "w");
                fprintf(m, " host="); hx_hex(m, got, k > 0 ? (size_t)k : 0); fclose(m);
            }
        }
    } else if (!strcmp(c, "fd_read")) { iov3(); e = NS(ns, fd_read)(I, x, IOV, 1, RES); if (!e) snprintf(det, cap, "nr=%u", hx_u32(RES)); }
    else if (!strcmp(c, "fd_pread")) { iov3(); e = NS(ns, fd_pread)(I, x, IOV, 1, 0, RES); if (!e) snprintf(det, cap, "nr=%u", hx_u32(RES)); }
    else if (!strcmp(c, "fd_seek")) { e = NS(ns, fd_seek)(I, x, 0, ns == HX_P1 ? 1 : 0, RES); if (!e) snprintf(det, cap, "off=%llu", (unsigned long long)hx_u64(RES)); }
    else if (!strcmp(c, "fd_tell")) { e = NS(ns, fd_tell)(I, x, RES); if (!e) snprintf(det, cap, "off=%llu", (unsigned long long)hx_u64(RES)); }
    else if (!strcmp(c, "fd_readdir")) { e = NS(ns, fd_readdir)(I, x, DIRBUF, 256, 0, RES); if (!e) snprintf(det, cap, "used=%u", hx_u32(RES)); }
    else if (!strcmp(c, "fd_readdir_moved")) {
        /* the host moves the directory "sub" away (if it is still there), then the listing is restarted: one step, so that what follows fits the bound */
        char p1[700], p2[700];
        snprintf(p1, sizeof p1, "%s/A/sub", hx_work); snprintf(p2, sizeof p2, "%s/A/gone", hx_work);
        if (rename(p1, p2) != 0 && errno != ENOENT) { fprintf(hx_out, "HARNESS-ERROR rename\n"); fflush(hx_out); _exit(71); }
        e = NS(ns, fd_readdir)(I, x, DIRBUF, 256, 0, RES); if (!e) snprintf(det, cap, "used=%u", hx_u32(RES));
    }
    else if (!strcmp(c, "fd_fdstat_get")) { e = NS(ns, fd_fdstat_get)(I, x, STAT); if (!e) snprintf(det, cap, "filetype=%u", hx_mem.data[STAT]); }
    else if (!strcmp(c, "fd_datasync")) e = NS(ns, fd_datasync)(I, x);
    else if (!strcmp(c, "fd_sync")) e = NS(ns, fd_sync)(I, x);
    else if (!strcmp(c, "fd_prestat_get")) { e = NS(ns, fd_prestat_get)(I, x, RES); if (!e) snprintf(det, cap, "type=%u len=%u", hx_mem.data[RES], hx_u32(RES + 4)); }
    else if (!strcmp(c, "fd_prestat_dir_name")) {
        memset(hx_mem.data + NAME, 0xAA, 600);
        e = NS(ns, fd_prestat_dir_name)(I, x, NAME, 600);
        if (!e) { size_t n = 0; while (n < 600 && hx_mem.data[NAME + n] != 0xAA) n++; snprintf(det, cap, "name=%.*s", (int)n, (char*)hx_mem.data + NAME); }
    }
    else if (!strcmp(c, "fd_filestat_get")) { e = NS(ns, fd_filestat_get)(I, x, STAT); if (!e) snprintf(det, cap, "filetype=%u", hx_mem.data[STAT + 16]); }
    else if (!strcmp(c, "path_open")) { e = NS(ns, path_open)(I, x, 1, P_F, 1, 0, rd, 0, 0, RES); if (!e) snprintf(det, cap, "fd=%u", hx_u32(RES)); }
    else if (!strcmp(c, "path_filestat_get")) { e = NS(ns, path_filestat_get)(I, x, 1, P_F, 1, STAT); if (!e) snprintf(det, cap, "filetype=%u", hx_mem.data[STAT + 16]); }
    else if (!strcmp(c, "path_open_abs")) { e = NS(ns, path_open)(I, x, 1, ABSF, absFLen, 0, rd, 0, 0, RES); if (!e) snprintf(det, cap, "fd=%u", hx_u32(RES)); }
    else if (!strcmp(c, "path_filestat_get_abs")) { e = NS(ns, path_filestat_get)(I, x, 1, ABSF, absFLen, STAT); if (!e) snprintf(det, cap, "filetype=%u", hx_mem.data[STAT + 16]); }
    else if (!strcmp(c, "path_create_directory_abs")) e = NS(ns, path_create_directory)(I, x, ABSSUB, absSubLen);
    else if (!strcmp(c, "path_readlink_abs")) e = NS(ns, path_readlink)(I, x, ABSZZ, absZzLen, BUF, 16, RES);
    else if (!strcmp(c, "path_unlink_file_abs")) e = NS(ns, path_unlink_file)(I, x, ABSZZ, absZzLen);
    else if (!strcmp(c, "path_rename_old")) e = NS(ns, path_rename)(I, x, P_ZZ, 2, 3, P_YY, 2);
    else if (!strcmp(c, "path_rename_new")) e = NS(ns, path_rename)(I, 3, P_ZZ, 2, x, P_YY, 2);
    else if (!strcmp(c, "path_unlink_file")) e = NS(ns, path_unlink_file)(I, x, P_ZZ, 2);
    else if (!strcmp(c, "path_remove_directory")) e = NS(ns, path_remove_directory)(I, x, P_ZZ, 2);
    else if (!strcmp(c, "path_create_directory")) e = NS(ns, path_create_directory)(I, x, P_SUB, 3);
    else if (!strcmp(c, "path_symlink")) e = NS(ns, path_symlink)(I, P_T, 1, x, P_SUB, 3);
    else if (!strcmp(c, "path_readlink")) e = NS(ns, path_readlink)(I, x, P_ZZ, 2, BUF, 16, RES);
    /* calls that wasi.c leaves unimplemented (they must answer NOSYS whatever the descriptor is) */
    else if (!strcmp(c, "fd_advise")) e = NS(ns, fd_advise)(I, x, 0, 0, 0);
    else if (!strcmp(c, "fd_allocate")) e = NS(ns, fd_allocate)(I, x, 0, 0);
    else if (!strcmp(c, "fd_fdstat_set_flags")) e = NS(ns, fd_fdstat_set_flags)(I, x, 0);
    else if (!strcmp(c, "fd_filestat_set_size")) e = NS(ns, fd_filestat_set_size)(I, x, 0);
    else if (!strcmp(c, "fd_filestat_set_times")) e = NS(ns, fd_filestat_set_times)(I, x, 0, 0, 0);
    else if (!strcmp(c, "path_filestat_set_times")) e = NS(ns, path_filestat_set_times)(I, x, 0, P_F, 1, 0, 0, 0);
    else if (!strcmp(c, "path_link")) e = NS(ns, path_link)(I, x, 0, P_F, 1, 3, P_YY, 2);
    else { fprintf(hx_out, "HARNESS-ERROR unknown call %s\n", c); fflush(hx_out); _exit(71); }
    return e;
}

static int failNextClose;
static void run(char* history) {
    char* ops[16];
    int n = hx_split(history, ' ', ops, 16), i;
    /* environment: "hc,<k>" as the FIRST operation = the host process was started with its standard stream k closed (<&- or >&-, a daemon);
       the numbers 0-2 still denote the host's streams (the missing one is simply not valid), pre-opens keep their numbers */
    if (n > 0 && !strncmp(ops[0], "hc,", 3)) hostClosed = atoi(ops[0] + 3);
    setup();
    for (i = 0; i < n; i++) {
        char* f[6];
        char det[900] = "";
        int nf = hx_split(ops[i], ',', f, 6);
        U32 e;
        if (!strcmp(f[0], "hc")) { fprintf(hx_out, "S %d host-closed-stream 0 \n", i); fflush(hx_out); continue; }
        const char* name = f[0];
        errno = EXDEV;      /* environment: errno holds an unrelated stale value when a WASI call begins; no result may depend on it */
        fprintf(hx_out, "INFO step %d begins\n", i); fflush(hx_out);
        if (!strcmp(f[0], "of") && nf == 2) {
            int ns = atoi(f[1]);
            e = NS(ns, path_open)(I, 3, 1, P_F, 1, TW_O_CREAT, tw_rights(3), 0, 0, RES);
            if (!e) snprintf(det, sizeof det, "fd=%u", hx_u32(RES));
        } else if (!strcmp(f[0], "od") && nf == 2) {
            int ns = atoi(f[1]);
            e = NS(ns, path_open)(I, 3, 1, P_SUB, 3, TW_O_DIRECTORY, TW_RIGHT_FD_READDIR | TW_RIGHT_FD_FILESTAT_GET, 0, 0, RES);
            if (!e) snprintf(det, sizeof det, "fd=%u", hx_u32(RES));
        } else if (!strcmp(f[0], "om") && nf == 2) {
            /* a path_open that fails after path resolution: "zz" does not exist and CREAT is not given */
            int ns = atoi(f[1]);
            name = "path_open_missing";
            e = NS(ns, path_open)(I, 3, 1, P_ZZ, 2, 0, tw_rights(1), 0, 0, RES);
            if (!e) snprintf(det, sizeof det, "fd=%u", hx_u32(RES));
        } else if (!strcmp(f[0], "c") && nf == 3) {
            e = NS(atoi(f[2]), fd_close)(I, (U32)strtoul(f[1], 0, 10));
        } else if (!strcmp(f[0], "hv") && nf == 2) {
            /* environment: the host (another process) moves the directory "sub" away while descriptors may be open on it */
            char p1[700], p2[700];
            name = "host-moves-sub-away";
            snprintf(p1, sizeof p1, "%s/A/sub", hx_work); snprintf(p2, sizeof p2, "%s/A/gone", hx_work);
            e = rename(p1, p2) == 0 ? 0 : 1;
        } else if (!strcmp(f[0], "cf") && nf == 3) {
            name = "fd_close";
            failNextClose = 1;
            e = NS(atoi(f[2]), fd_close)(I, (U32)strtoul(f[1], 0, 10));
            failNextClose = 0;
        } else if (!strcmp(f[0], "u") && nf == 4) {
            name = f[1];
            e = use(f[1], (U32)strtoul(f[2], 0, 10), atoi(f[3]), det, sizeof det);
        } else { fprintf(hx_out, "HARNESS-ERROR bad op\n"); fflush(hx_out); _exit(71); }
        fprintf(hx_out, "S %d %s %u %s\n", i, name, e, det);
        fflush(hx_out);
        {   /* identity probe: what does every small descriptor number denote now?  (fd_filestat_get only observes) */
            U32 x;
            char pl[600]; int n = snprintf(pl, sizeof pl, "INFO probe %d", i);
            for (x = 3; x <= 10; x++) {
                U32 pe;
                memset(hx_mem.data + STAT, 0xAA, 64);
                pe = NS(HX_P1, fd_filestat_get)(I, x, STAT);
                if (pe == 0) n += snprintf(pl + n, sizeof pl - n, " %u:%u:%llu", x, hx_mem.data[STAT + 16], (unsigned long long)hx_u64(STAT + 8));
                else n += snprintf(pl + n, sizeof pl - n, " %u:e%u", x, pe);
            }
            fprintf(hx_out, "%s\n", pl);
            fflush(hx_out);
        }
    }
}

/* environment answer owned by the harness: the host's close()/closedir() can FAIL (EIO after a deferred write error, EINTR).  As on Linux the
 * host descriptor is released all the same.  Armed by the "cf" operation for the next close of a guest descriptor. */
int close(int fd) {
    static int (*real)(int);
    int r;
    if (!real) real = (int (*)(int))dlsym(RTLD_NEXT, "close");
    r = real(fd);
    if (failNextClose) { failNextClose = 0; errno = EIO; return -1; }
    return r;
}
int closedir(DIR* d) {
    static int (*real)(DIR*);
    int r;
    if (!real) real = (int (*)(DIR*))dlsym(RTLD_NEXT, "closedir");
    r = real(d);
    if (failNextClose) { failNextClose = 0; errno = EIO; return -1; }
    return r;
}

int main(void) { return hx_serve(run); }
