/* Reference constants and canonical observations.  See twin.h.  Does not include wasi.h. */
#define _GNU_SOURCE 1
#include <dirent.h>
#include <errno.h>
#include <fcntl.h>
#include <stdlib.h>
#include <string.h>
#include <sys/stat.h>
#include <unistd.h>
#include "twin.h"

const tw_statlayout tw_layout[2] = {
    /* size filetype nlink nlinkBytes fsize atim mtim ctim */
    {64, 16, 24, 8, 32, 40, 48, 56},   /* wasi_snapshot_preview1 */
    {56, 16, 20, 4, 24, 32, 40, 48},   /* wasi_unstable */
};

int tw_errno(int e) {
    switch (e) {
    case 0: return TW_SUCCESS;
    case E2BIG: return TW_2BIG;
    case EACCES: return TW_ACCES;
    case EAGAIN: return TW_AGAIN;
    case EBADF: return TW_BADF;
    case EBUSY: return TW_BUSY;
    case ECHILD: return TW_CHILD;
    case EDOM: return TW_DOM;
    case EEXIST: return TW_EXIST;
    case EFAULT: return TW_FAULT;
    case EFBIG: return TW_FBIG;
    case EINTR: return TW_INTR;
    case EINVAL: return TW_INVAL;
    case EIO: return TW_IO;
    case EISDIR: return TW_ISDIR;
    case ELOOP: return TW_LOOP;
    case EMFILE: return TW_MFILE;
    case EMLINK: return TW_MLINK;
    case ENAMETOOLONG: return TW_NAMETOOLONG;
    case ENFILE: return TW_NFILE;
    case ENODEV: return TW_NODEV;
    case ENOENT: return TW_NOENT;
    case ENOEXEC: return TW_NOEXEC;
    case ENOMEM: return TW_NOMEM;
    case ENOSPC: return TW_NOSPC;
    case ENOSYS: return TW_NOSYS;
    case ENOTDIR: return TW_NOTDIR;
    case ENOTEMPTY: return TW_NOTEMPTY;
    case ENOTSUP: return TW_NOTSUP;
    case ENOTTY: return TW_NOTTY;
    case ENXIO: return TW_NXIO;
    case EOVERFLOW: return TW_OVERFLOW;
    case EPERM: return TW_PERM;
    case EPIPE: return TW_PIPE;
    case ERANGE: return TW_RANGE;
    case EROFS: return TW_ROFS;
    case ESPIPE: return TW_SPIPE;
    case ESRCH: return TW_SRCH;
    case ETXTBSY: return TW_TXTBSY;
    case EXDEV: return TW_XDEV;
    default: return -e;   /* a host errno the table does not know: never equal to an implementation result */
    }
}

int tw_whence(int ns, uint32_t w) {
    if (ns == 0) {   /* preview1: set, cur, end */
        return w == 0 ? SEEK_SET : w == 1 ? SEEK_CUR : w == 2 ? SEEK_END : -1;
    }
    /* snapshot-0: cur, end, set */
    return w == 0 ? SEEK_CUR : w == 1 ? SEEK_END : w == 2 ? SEEK_SET : -1;
}

int tw_filetype(mode_t m) {
    if (S_ISDIR(m)) return TW_FT_DIR;
    if (S_ISREG(m)) return TW_FT_REG;
    if (S_ISLNK(m)) return TW_FT_LNK;
    if (S_ISCHR(m)) return TW_FT_CHAR;
    if (S_ISBLK(m)) return TW_FT_BLOCK;
    return TW_FT_UNKNOWN;
}

int tw_openflags(uint32_t oflags, uint32_t fdflags, int rights) {
    int f = rights == 1 ? O_RDONLY : rights == 2 ? O_WRONLY : O_RDWR;
    if (oflags & TW_O_CREAT) f |= O_CREAT;
    if (oflags & TW_O_DIRECTORY) f |= O_DIRECTORY;
    if (oflags & TW_O_EXCL) f |= O_EXCL;
    if (oflags & TW_O_TRUNC) f |= O_TRUNC;
    if (fdflags & TW_FDFLAG_APPEND) f |= O_APPEND;
    if (fdflags & TW_FDFLAG_SYNC) f |= O_SYNC;
    return f;
}

uint64_t tw_rights(int rights) {
    uint64_t r = TW_RIGHT_FD_SEEK | TW_RIGHT_FD_TELL | TW_RIGHT_FD_FILESTAT_GET;
    if (rights & 1) r |= TW_RIGHT_FD_READ;
    if (rights & 2) r |= TW_RIGHT_FD_WRITE;
    return r;
}

static void put(char** o, size_t* cap, const char* s) {
    size_t n = strlen(s);
    if (n >= *cap) n = *cap ? *cap - 1 : 0;
    memcpy(*o, s, n); *o += n; *cap -= n; **o = 0;
}

void tw_file_canon(const char* path, char* out, size_t cap) {
    struct stat st;
    char tmp[64];
    int fd;
    off_t pos = 0;
    out[0] = 0;
    if (lstat(path, &st) != 0) { put(&out, &cap, "absent"); return; }
    if (S_ISDIR(st.st_mode)) { put(&out, &cap, "dir"); return; }
    fd = open(path, O_RDONLY);
    if (fd < 0) { put(&out, &cap, "unreadable"); return; }
    snprintf(tmp, sizeof tmp, "%lld:", (long long)st.st_size);
    put(&out, &cap, tmp);
    for (;;) {
        off_t data = lseek(fd, pos, SEEK_DATA), hole, p;
        if (data < 0) break;
        hole = lseek(fd, data, SEEK_HOLE);
        if (hole < 0) hole = st.st_size;
        for (p = data; p < hole;) {
            unsigned char buf[4096];
            ssize_t n = pread(fd, buf, sizeof buf, p), i;
            if (n <= 0) break;
            for (i = 0; i < n;) {
                ssize_t j;
                if (buf[i] == 0) { i++; continue; }
                for (j = i; j < n && buf[j] != 0; j++) {}
                snprintf(tmp, sizeof tmp, "%lld=", (long long)(p + i));
                put(&out, &cap, tmp);
                for (; i < j; i++) { snprintf(tmp, sizeof tmp, "%02x", buf[i]); put(&out, &cap, tmp); }
                put(&out, &cap, ",");
            }
            p += n;
        }
        pos = hole;
        if (pos >= st.st_size) break;
    }
    close(fd);
}

static int cmpstr(const void* a, const void* b) { return strcmp(*(char* const*)a, *(char* const*)b); }

static void tree(const char* root, const char* rel, char** o, size_t* cap) {
    char dirp[4700];
    char* names[256];
    int n = 0, i;
    DIR* d;
    struct dirent* e;
    snprintf(dirp, sizeof dirp, "%s%s%s", root, *rel ? "/" : "", rel);
    d = opendir(dirp);
    if (!d) return;
    while ((e = readdir(d)) && n < 256) {
        if (!strcmp(e->d_name, ".") || !strcmp(e->d_name, "..")) continue;
        names[n++] = strdup(e->d_name);
    }
    closedir(d);
    qsort(names, n, sizeof names[0], cmpstr);
    for (i = 0; i < n; i++) {
        char sub[4700], full[9500], tmp[64];
        struct stat st;
        snprintf(sub, sizeof sub, "%s%s%s", rel, *rel ? "/" : "", names[i]);
        snprintf(full, sizeof full, "%s/%s", root, sub);
        if (lstat(full, &st) != 0) { free(names[i]); continue; }
        /* long names are abbreviated as <first char>*<length> */
        if (strlen(names[i]) > 16) {
            char* slash = strrchr(sub, '/');
            snprintf(tmp, sizeof tmp, "%c*%zu", names[i][0], strlen(names[i]));
            if (slash) { *slash = 0; put(o, cap, sub); put(o, cap, "/"); *slash = '/'; }
            put(o, cap, tmp);
        } else {
            put(o, cap, sub);
        }
        if (S_ISDIR(st.st_mode)) {
            put(o, cap, ":d;");
            tree(root, sub, o, cap);
        } else if (S_ISLNK(st.st_mode)) {
            char tgt[4700];
            ssize_t k = readlink(full, tgt, sizeof tgt - 1);
            size_t rl = strlen(root);
            if (k < 0) k = 0;
            tgt[k] = 0;
            put(o, cap, ":l->");
            if (strncmp(tgt, root, rl) == 0) { put(o, cap, "@"); put(o, cap, tgt + rl); }
            else if (k > 16) { snprintf(tmp, sizeof tmp, "%c*%zd", tgt[0], k); put(o, cap, tmp); }
            else put(o, cap, tgt);
            put(o, cap, ";");
        } else {
            snprintf(tmp, sizeof tmp, ":f%lld;", (long long)st.st_size);
            put(o, cap, tmp);
        }
        free(names[i]);
    }
}

void tw_tree_canon(const char* root, char* out, size_t cap) {
    out[0] = 0;
    tree(root, "", &out, &cap);
}
