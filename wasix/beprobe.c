/* wasix/beprobe.c — C19, WASI host part: the real wasi.c writes its results into guest memory; on a big-endian host these
 * writes must go through the runtime's typed stores (one byte reversal of the field width) and strings must be copied
 * as bytes.  One fixed scenario is executed by two builds of this file + wasi.c + the shim: the normal one and one with
 * -DWASM_ENDIAN=WASM_BIG_ENDIAN.  Every guest-memory structure the calls fill in is read back FIELD BY FIELD through
 * the runtime's typed loads of the same build (i32_load, i64_load, ...; strings byte-wise) and printed as "V <name>
 * <value>".  The two outputs must be identical line by line: a field written with memcpy in host order, or with the
 * wrong width, reads back as a different value in the big-endian build.  Structures handed IN (iovecs) are written
 * with the typed stores.
 * fd_readdir additionally runs with every buffer length that cuts the second record: each byte of the buffer is then
 * either untouched or equal to the byte the complete listing has at that place ("a shorter buffer gets a prefix").
 * harness line: <ns> */
#define _GNU_SOURCE
#include <errno.h>
#include <fcntl.h>
#include <stdlib.h>
#include <string.h>
#include <unistd.h>
#include "hx.h"
#include "twin.h"
#include "wasi.h"

enum { P_F = 0x100, P_SUB = 0x110, P_L = 0x120, IOV = 0x200, BUF = 0x300, RES = 0x400, STAT = 0x500, NAME = 0x800, DIRBUF = 0x1000, FULL = 0x2000, ARGV = 0x3000, ARGBUF = 0x3400 };

static void v(const char* name, unsigned long long x) { fprintf(hx_out, "INFO V %s %llu\n", name, x); }
static void vs(const char* name, U32 off, U32 n) {
    U32 i;
    fprintf(hx_out, "INFO V %s ", name);
    for (i = 0; i < n; i++) fprintf(hx_out, "%02x", hx_mem.data[off + i]);
    fprintf(hx_out, "\n");
}
#define L8(off) ((unsigned)i32_load8_u(&hx_mem, (off)))
#define L16(off) ((unsigned)i32_load16_u(&hx_mem, (off)))
#define L32(off) ((unsigned long long)i32_load(&hx_mem, (off)))
#define L64(off) ((unsigned long long)i64_load(&hx_mem, (off)))

static void filestat(const char* tag, int ns, U32 off) {
    char n[64];
    /* device / inode / times differ from run to run: plausibility only (a byte-reversed small number is huge) */
    snprintf(n, sizeof n, "%s.dev-is-small", tag); v(n, L64(off) < (1ull << 32));
    snprintf(n, sizeof n, "%s.ino-is-small", tag); v(n, L64(off + 8) != 0 && L64(off + 8) < (1ull << 40));
    snprintf(n, sizeof n, "%s.filetype", tag); v(n, L8(off + 16));
    if (ns == HX_P1) { snprintf(n, sizeof n, "%s.nlink", tag); v(n, L64(off + 24)); snprintf(n, sizeof n, "%s.size", tag); v(n, L64(off + 32)); snprintf(n, sizeof n, "%s.mtim-plausible", tag); v(n, L64(off + 48) > 1000000000ull * 1000000000ull && L64(off + 48) < 4000000000ull * 1000000000ull); }
    else { snprintf(n, sizeof n, "%s.nlink", tag); v(n, L32(off + 20)); snprintf(n, sizeof n, "%s.size", tag); v(n, L64(off + 24)); snprintf(n, sizeof n, "%s.mtim-plausible", tag); v(n, L64(off + 40) > 1000000000ull * 1000000000ull && L64(off + 40) < 4000000000ull * 1000000000ull); }
}

static void run(char* line) {
    static char* argv[] = {"prog", "second-arg", "x", NULL};
    static char* envp[] = {"K=V", "LONGER=value", NULL};
    char a[600], p[700];
    int ns = atoi(line), k;
    U32 pre = 0, e, fd, dfd, used, off2 = 0, n;
    hx_guest_alloc(65536, 0xAA);
    hx_put(P_F, "f", 1); hx_put(P_SUB, "sub", 3); hx_put(P_L, "lnk", 3);
    snprintf(a, sizeof a, "%s/A", hx_work); hx_mkdir(a);
    snprintf(p, sizeof p, "%s/f", a); hx_write_file(p, "hello world");
    snprintf(p, sizeof p, "%s/sub", a); hx_mkdir(p);
    snprintf(p, sizeof p, "%s/sub/first", a); hx_write_file(p, "1");
    snprintf(p, sizeof p, "%s/sub/second-entry", a); hx_write_file(p, "22");
    snprintf(p, sizeof p, "%s/sub/third", a); hx_write_file(p, "333");
    snprintf(p, sizeof p, "%s/lnk", a); if (symlink("target-of-the-link", p) != 0) _exit(72);
    if (!wasiInit(3, argv, envp) || !wasiFileDescriptorAdd(-1, a, &pre)) { fprintf(hx_out, "HARNESS-ERROR wasiInit\n"); _exit(71); }

    /* args / environ: sizes, pointer arrays (fields), strings (bytes) */
    e = NS(ns, args_sizes_get)(I, RES, RES + 4); v("args_sizes.errno", e); v("args_sizes.count", L32(RES)); v("args_sizes.size", L32(RES + 4));
    e = NS(ns, args_get)(I, ARGV, ARGBUF); v("args_get.errno", e);
    for (k = 0; k < 3; k++) { char nm[32]; snprintf(nm, sizeof nm, "args_get.ptr%d", k); v(nm, L32(ARGV + 4 * k) - ARGBUF); }
    vs("args_get.bytes", ARGBUF, 20);
    e = NS(ns, environ_sizes_get)(I, RES, RES + 4); v("environ_sizes.count", L32(RES)); v("environ_sizes.size", L32(RES + 4));
    e = NS(ns, environ_get)(I, ARGV, ARGBUF); v("environ_get.errno", e);
    for (k = 0; k < 2; k++) { char nm[32]; snprintf(nm, sizeof nm, "environ_get.ptr%d", k); v(nm, L32(ARGV + 4 * k) - ARGBUF); }
    vs("environ_get.bytes", ARGBUF, 17);
    /* pre-open */
    e = NS(ns, fd_prestat_get)(I, pre, RES); v("prestat.errno", e); v("prestat.type", L8(RES)); v("prestat.len", L32(RES + 4) - (unsigned long long)strlen(a));
    /* open, write through iovecs (read by the host), seek/tell, read back */
    e = NS(ns, path_open)(I, pre, 1, P_F, 1, 0, tw_rights(3), 0, 0, RES); v("path_open.errno", e); fd = (U32)L32(RES); v("path_open.fd", fd);
    i32_store(&hx_mem, IOV, BUF); i32_store(&hx_mem, IOV + 4, 5); i32_store(&hx_mem, IOV + 8, BUF + 16); i32_store(&hx_mem, IOV + 12, 3);
    hx_put(BUF, "HELLO", 5); hx_put(BUF + 16, "xyz", 3);
    e = NS(ns, fd_write)(I, fd, IOV, 2, RES); v("fd_write.errno", e); v("fd_write.nwritten", L32(RES));
    e = NS(ns, fd_seek)(I, fd, 3, ns == HX_P1 ? 0 : 2, RES); v("fd_seek.errno", e); v("fd_seek.offset", L64(RES));
    e = NS(ns, fd_tell)(I, fd, RES); v("fd_tell.offset", L64(RES));
    memset(hx_mem.data + BUF, 0xAA, 64);
    e = NS(ns, fd_read)(I, fd, IOV, 2, RES); v("fd_read.errno", e); v("fd_read.nread", L32(RES)); vs("fd_read.bytes", BUF, 20);
    e = NS(ns, fd_pread)(I, fd, IOV, 1, 1, RES); v("fd_pread.nread", L32(RES)); vs("fd_pread.bytes", BUF, 6);
    /* stat structures */
    e = NS(ns, fd_fdstat_get)(I, fd, STAT); v("fdstat.errno", e); v("fdstat.filetype", L8(STAT)); v("fdstat.flags", L16(STAT + 2)); v("fdstat.rights_base", L64(STAT + 8)); v("fdstat.rights_inheriting", L64(STAT + 16));
    e = NS(ns, fd_filestat_get)(I, fd, STAT); v("fd_filestat.errno", e); filestat("fd_filestat", ns, STAT);
    {   /* a descriptor opened with fdflags (APPEND | SYNC): the 16-bit flags field of fdstat is not zero */
        U32 fd2;
        e = NS(ns, path_open)(I, pre, 1, P_F, 1, 0, tw_rights(3), 0, 1 | 16, RES); v("path_open_append.errno", e); fd2 = (U32)L32(RES);
        memset(hx_mem.data + STAT, 0xAA, 64);
        e = NS(ns, fd_fdstat_get)(I, fd2, STAT); v("fdstat_append.errno", e); v("fdstat_append.filetype", L8(STAT)); v("fdstat_append.flags", L16(STAT + 2));
        v("fdstat_append.rights_base", L64(STAT + 8)); v("fdstat_append.rights_inheriting", L64(STAT + 16)); vs("fdstat_append.padding", STAT + 4, 4);
        NS(ns, fd_close)(I, fd2);
    }
    e = NS(ns, path_filestat_get)(I, pre, 1, P_SUB, 3, STAT); v("path_filestat.errno", e); filestat("path_filestat", ns, STAT);
    memset(hx_mem.data + NAME, 0xAA, 64);
    e = NS(ns, path_readlink)(I, pre, P_L, 3, NAME, 64, RES); v("readlink.errno", e); v("readlink.len", L32(RES)); vs("readlink.bytes", NAME, 20);
    /* clocks: only that a plausible 64-bit value arrives (the high half of a byte-reversed time is implausible) */
    e = NS(ns, clock_time_get)(I, 0, 1, RES); v("clock.errno", e); v("clock.realtime.plausible", L64(RES) > 1000000000ull * 1000000000ull && L64(RES) < 4000000000ull * 1000000000ull);
    e = NS(ns, clock_res_get)(I, 1, RES); v("clock_res.errno", e); v("clock_res.monotonic.small", L64(RES) > 0 && L64(RES) <= 1000000000ull);
    /* directory listing: complete, field by field */
    e = NS(ns, path_open)(I, pre, 1, P_SUB, 3, TW_O_DIRECTORY, TW_RIGHT_FD_READDIR, 0, 0, RES); v("opendir.errno", e); dfd = (U32)L32(RES);
    memset(hx_mem.data + FULL, 0x55, 1024);
    e = NS(ns, fd_readdir)(I, dfd, FULL, 1024, 0, RES); v("readdir.errno", e); used = (U32)L32(RES); v("readdir.used", used);
    for (k = 0, n = 0; n + 24 <= used && k < 8; k++) {
        char nm[48]; U32 nl = (U32)L32(FULL + n + 16);
        snprintf(nm, sizeof nm, "readdir.%d.next-is-nonzero", k); v(nm, L64(FULL + n) != 0);
        snprintf(nm, sizeof nm, "readdir.%d.ino-is-small", k); v(nm, L64(FULL + n + 8) != 0 && L64(FULL + n + 8) < (1ull << 40));
        snprintf(nm, sizeof nm, "readdir.%d.namlen", k); v(nm, nl);
        snprintf(nm, sizeof nm, "readdir.%d.type", k); v(nm, L8(FULL + n + 20));
        if (nl > 64) break;
        snprintf(nm, sizeof nm, "readdir.%d.name-length-class", k); v(nm, nl);
        if (k == 0) off2 = n + 24 + nl;
        n += 24 + nl;
    }
    /* every buffer length that ends inside the second record: written bytes must be those of the complete listing */
    if (off2) {
        U32 cut, bad = 0, firstbad = 0;
        for (cut = off2 + 1; cut < off2 + 24 + 8 && cut < used; cut++) {
            int fillv;
            for (fillv = 0; fillv < 2; fillv++) {
                U8 fill = fillv ? 0x33 : 0xCC; U32 i, got;
                memset(hx_mem.data + DIRBUF, fill, 1024);
                e = NS(ns, fd_readdir)(I, dfd, DIRBUF, cut, 0, RES); got = (U32)L32(RES);
                if (e != 0 || got > cut) { bad++; if (!firstbad) firstbad = cut; continue; }
                for (i = 0; i < got; i++)
                    if (hx_mem.data[DIRBUF + i] != hx_mem.data[FULL + i] && hx_mem.data[DIRBUF + i] != fill) { bad++; if (!firstbad) firstbad = cut * 1000 + i; break; }
                for (i = cut; i < cut + 64; i++) if (hx_mem.data[DIRBUF + i] != fill) { bad++; if (!firstbad) firstbad = cut * 1000 + i; break; }
            }
        }
        v("readdir.truncated.bytes-that-differ-from-the-complete-listing", bad);
        v("readdir.truncated.first", firstbad);
    }
    e = NS(ns, fd_close)(I, dfd); v("close.errno", e);
    /* random: only the errno (bytes are random) */
    e = NS(ns, random_get)(I, BUF, 16); v("random.errno", e);
}

int main(void) { return hx_serve(run); }
