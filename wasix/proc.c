/* C15 driver (sequential parts).  Modes (argv[1]):
 *
 *  args    line: <argv indices i.i.i | ->,<env indices | ->,<placement 0 start 1 unaligned 2 end>,<ns>
 *          strings: 0 ""  1 "a"  2 "k=v"  3 300 x 'x'  4 the bytes 0x01..0xFF
 *  clock   line: <t|r>,<clock id>,<m.m.m menu indices>,<ns>,<0 interposed | 1 real clocks>
 *          menu: 0 (0,0)  1 (1,999999999)  2 (2^31,1)  3 (2^33,5)
 *  random  line: <length>,<0 model getentropy | 1 real getentropy>,<ns>,<fill byte>
 *  exit    line: <code>,<ns>
 *
 * clock_gettime, clock_getres and getentropy are DEFINED here, so the calls in wasi.c bind to these
 * definitions; in "real" mode they forward to the C library (dlsym RTLD_NEXT).
 */
#define _GNU_SOURCE 1
#include <dlfcn.h>
#include <errno.h>
#include <stdarg.h>
#include <stdlib.h>
#include <string.h>
#include <sys/wait.h>
#include <time.h>
#include <unistd.h>
#include "hx.h"
#include "twin.h"
#include "wasi.h"

/* ------------------------------------------------------------------ interposed host services */
static int realMode, clockCalls, lastClockId, entropyCalls;
static struct timespec nextAnswer;
static unsigned entropyCounter;

int clock_gettime(clockid_t id, struct timespec* ts) {
    if (realMode) { int (*f)(clockid_t, struct timespec*) = (int (*)(clockid_t, struct timespec*))dlsym(RTLD_NEXT, "clock_gettime"); return f(id, ts); }
    clockCalls++; lastClockId = (int)id; *ts = nextAnswer;
    return 0;
}

int clock_getres(clockid_t id, struct timespec* ts) {
    if (realMode) { int (*f)(clockid_t, struct timespec*) = (int (*)(clockid_t, struct timespec*))dlsym(RTLD_NEXT, "clock_getres"); return f(id, ts); }
    clockCalls++; lastClockId = (int)id; *ts = nextAnswer;
    return 0;
}

/* model of the C library's getentropy: at most 256 bytes per call (POSIX/glibc: EIO above), fills a counter pattern 0..250 */
int getentropy(void* buf, size_t len) {
    size_t i;
    entropyCalls++;
    if (realMode) { int (*f)(void*, size_t) = (int (*)(void*, size_t))dlsym(RTLD_NEXT, "getentropy"); return f(buf, len); }
    if (len > 256) { errno = EIO; return -1; }
    for (i = 0; i < len; i++) ((U8*)buf)[i] = (U8)(entropyCounter++ % 251);
    return 0;
}

static void bad(const char* what, const char* fmt, ...) {
    va_list ap;
    fprintf(hx_out, "X 0 %s ", what);
    va_start(ap, fmt); vfprintf(hx_out, fmt, ap); va_end(ap);
    fprintf(hx_out, "\n");
}

/* ------------------------------------------------------------------ (a) args / environ */
static char s300[301], sBytes[256];
static const char* strAlphabet[5] = {"", "a", "k=v", s300, sBytes};

static int parseVec(char* spec, char** out) {
    char* f[8]; int n, i;
    if (!strcmp(spec, "-")) { out[0] = NULL; return 0; }
    n = hx_split(spec, '.', f, 8);
    for (i = 0; i < n; i++) out[i] = (char*)strAlphabet[atoi(f[i])];
    out[n] = NULL;
    return n;
}

/* one sizes_get + get pair; which = 0 args, 1 environ */
static void vectorPair(int which, int ns, int placement, char** vec, int n) {
    enum { SZ = 0x10 };
    U32 total = 0, e, ptrs, buf, at, off;
    int i;
    const char* nm = which ? "environ" : "args";
    for (i = 0; i < n; i++) total += strlen(vec[i]) + 1;
    hx_guest_alloc(2048, 0xAA);
    if (placement == 0) { ptrs = 0x40; buf = ptrs + 4 * n; }
    else if (placement == 1) { ptrs = 0x41; buf = ptrs + 4 * n + 1; }
    else { buf = 2048 - total; ptrs = buf - 4 * n; }        /* the string region ends exactly at the end of guest memory */
    hx_snapshot(); hx_allow(SZ, 8);
    e = which ? NS(ns, environ_sizes_get)(I, SZ, SZ + 4) : NS(ns, args_sizes_get)(I, SZ, SZ + 4);
    fprintf(hx_out, "S 0 %s_sizes_get %u count=%u size=%u\n", nm, e, hx_u32(SZ), hx_u32(SZ + 4));
    if (e != 0 || hx_u32(SZ) != (U32)n || hx_u32(SZ + 4) != total) bad(which ? "environ_sizes_get" : "args_sizes_get", "errno=%u count=%u size=%u want count=%d size=%u", e, hx_u32(SZ), hx_u32(SZ + 4), n, total);
    if (hx_stray(&at)) bad("stray-write", "%s_sizes_get changed guest byte %u", nm, at);
    hx_snapshot(); hx_allow(ptrs, 4 * n); hx_allow(buf, total);
    e = which ? NS(ns, environ_get)(I, ptrs, buf) : NS(ns, args_get)(I, ptrs, buf);
    fprintf(hx_out, "S 1 %s_get %u n=%d total=%u placement=%d\n", nm, e, n, total, placement);
    if (e != 0) bad(which ? "environ_get" : "args_get", "errno=%u", e);
    for (i = 0, off = buf; i < n && e == 0; i++) {
        U32 len = strlen(vec[i]) + 1;
        if (hx_u32(ptrs + 4 * i) != off) { bad(which ? "environ_get.pointer" : "args_get.pointer", "entry %d points to %u, want %u", i, hx_u32(ptrs + 4 * i), off); break; }
        if (memcmp(hx_mem.data + off, vec[i], len) != 0) { bad(which ? "environ_get.string" : "args_get.string", "entry %d (length %u) is not the NUL-terminated string given at initialisation", i, len - 1); break; }
        off += len;
    }
    if (hx_stray(&at)) bad("stray-write", "%s_get changed guest byte %u outside the pointer array [%u,%u) and the string region [%u,%u)", nm, at, ptrs, ptrs + 4 * n, buf, buf + total);
}

static void argsMode(char* line) {
    char* f[4];
    static char* argv[12]; static char* envp[9];
    int argc, envc, i;
    if (hx_split(line, ',', f, 4) != 4) _exit(71);
    memset(s300, 'x', 300);
    for (i = 0; i < 255; i++) sBytes[i] = (char)(i + 1);
    int tail = atoi(f[2]) / 10, placement = atoi(f[2]) % 10;
    argc = parseVec(f[0], argv); envc = parseVec(f[1], envp);
    /* the argument vector given at initialisation is argv[0..argc): tail 1 = the array goes on with further strings behind it
       (an embedder handing over a prefix of a longer array), tail 2 = no array at all for an empty vector */
    if (tail == 1) { argv[argc] = (char*)"EXTRA-1"; argv[argc + 1] = (char*)"EXTRA-22"; argv[argc + 2] = NULL; }
    if (!wasiInit(argc, tail == 2 && argc == 0 ? NULL : argv, envp)) { fprintf(hx_out, "HARNESS-ERROR wasiInit\n"); _exit(71); }
    vectorPair(0, atoi(f[3]), placement, argv, argc);
    vectorPair(1, atoi(f[3]), placement, envp, envc);
}

/* ------------------------------------------------------------------ (b) clocks */
static const struct timespec menu[4] = {{0, 0}, {1, 999999999}, {(time_t)1 << 31, 1}, {(time_t)1 << 33, 5}};

static void clockMode(char* line) {
    char *f[5], *m[3];
    /* POSIX clock ids that correspond to the WASI clock ids 0..3 (realtime, monotonic, process cputime, thread cputime) */
    static const clockid_t native[4] = {CLOCK_REALTIME, CLOCK_MONOTONIC, CLOCK_PROCESS_CPUTIME_ID, CLOCK_THREAD_CPUTIME_ID};
    static const U64 precisions[3] = {0, 1, ~0ull};
    int isRes, ns, k;
    U32 id, e, at;
    U64 prev = 0;
    if (hx_split(line, ',', f, 5) != 5 || hx_split(f[2], '.', m, 3) != 3) _exit(71);
    isRes = f[0][0] == 'r'; id = (U32)strtoul(f[1], 0, 10); ns = atoi(f[3]); realMode = atoi(f[4]);
    hx_guest_alloc(1024, 0xAA);
    for (k = 0; k < 3; k++) {
        struct timespec want = menu[atoi(m[k])], before, after;
        U64 wantNs, got;
        int (*realGet)(clockid_t, struct timespec*) = (int (*)(clockid_t, struct timespec*))dlsym(RTLD_NEXT, isRes ? "clock_getres" : "clock_gettime");
        nextAnswer = want; clockCalls = 0; lastClockId = -1;
        memset(hx_mem.data + 0x100, 0xAA, 8);
        hx_snapshot(); hx_allow(0x100, 8);
        if (realMode && id < 4) realGet(native[id], &before);
        errno = k % 2 ? ESPIPE : ENOENT;   /* stale errno of some earlier, unrelated host call */
        e = isRes ? NS(ns, clock_res_get)(I, id, 0x100) : NS(ns, clock_time_get)(I, id, precisions[k], 0x100);
        if (realMode && id < 4) realGet(native[id], &after);
        got = hx_u64(0x100);
        fprintf(hx_out, "S %d %s %u id=%u %s\n", k, isRes ? "clock_res_get" : "clock_time_get", e, id, id < 4 ? "valid" : "invalid");
        if (hx_stray(&at)) bad("stray-write", "guest byte %u", at);
        if (id >= 4) {
            if (e != TW_INVAL) bad("invalid-clock-id", "id %u: errno=%u want 28 (INVAL)", id, e);
            if (got != 0xAAAAAAAAAAAAAAAAull) bad("invalid-clock-id", "id %u: result cell was written", id);
            if (clockCalls) bad("invalid-clock-id", "id %u: the host clock was consulted", id);
            continue;
        }
        if (e != 0) { bad("clock-errno", "id %u: errno=%u", id, e); continue; }
        if (realMode) {
            U64 lo = (U64)before.tv_sec * 1000000000ull + before.tv_nsec, hi = (U64)after.tv_sec * 1000000000ull + after.tv_nsec;
            if (isRes ? got != lo : (got < lo || got > hi)) bad("real-clock", "id %u: %llu not in [%llu,%llu]", id, (unsigned long long)got, (unsigned long long)lo, (unsigned long long)hi);
        } else {
            wantNs = (U64)want.tv_sec * 1000000000ull + (U64)want.tv_nsec;
            if (got != wantNs) bad("nanoseconds", "id %u: (%lld s, %ld ns) reported as %llu, want %llu", id, (long long)want.tv_sec, want.tv_nsec, (unsigned long long)got, (unsigned long long)wantNs);
            if (clockCalls != 1 || lastClockId != (int)native[id]) bad("wrong-host-clock", "id %u: host clock %d consulted %d times, want clock %d once", id, lastClockId, clockCalls, (int)native[id]);
        }
        if (!isRes && id == 1 && got < prev) bad("monotonic-decreased", "%llu after %llu", (unsigned long long)got, (unsigned long long)prev);
        prev = got;
    }
}

/* ------------------------------------------------------------------ (c) random_get */
/* "Every requested byte is written" cannot be read off one call (a random byte may equal the pre-fill), so the call is
 * made five times on memory pre-filled with five different bytes: a position that keeps the pre-fill value every time
 * was never written (for a written position the chance is 2^-40, or zero if the implementation is deterministic). */
static void randomMode(char* line) {
    static const U8 fills[5] = {0x00, 0xFF, 0x55, 0xAA, 0x33};
    char* f[4];
    U32 len, e = 0, at, i, unwritten = 0, modelBytes = 0;
    int ns, k;
    U8* kept;
    enum { OFF = 64 };
    if (hx_split(line, ',', f, 4) != 4) _exit(71);
    len = (U32)strtoul(f[0], 0, 10); realMode = atoi(f[1]); ns = atoi(f[2]);
    kept = malloc(len + 1);
    memset(kept, 1, len + 1);
    for (k = 0; k < 5 && e == 0; k++) {
        unsigned first = entropyCounter;
        /* placement "end": the buffer ends exactly at the last byte of guest memory (for length 0: starts at the size) */
        hx_guest_alloc(!strcmp(f[3], "end") ? len + OFF : len + 2 * OFF, fills[k]);
        hx_snapshot(); hx_allow(OFF, len);
        errno = ENOTDIR;   /* no result may depend on what an earlier host call left in errno */
        e = NS(ns, random_get)(I, OFF, len);
        if (e != 0) break;
        if (hx_stray(&at)) { bad("stray-write", "length %u: guest byte %u outside the buffer changed", len, at); break; }
        for (i = 0; i < len; i++) {
            if (hx_mem.data[OFF + i] != fills[k]) kept[i] = 0;
            if (!realMode && hx_mem.data[OFF + i] == (U8)((first + i) % 251)) modelBytes++;
        }
    }
    for (i = 0; i < len; i++) unwritten += kept[i];
    /* delivered=host: the guest received what the host entropy call produced (model mode only; informational) */
    fprintf(hx_out, "S 0 random_get %u len=%u entropy=%s host_calls=%d delivered=%s\n", e, len, realMode ? "real" : "model", entropyCalls,
            realMode || e || !len ? "?" : modelBytes == 5u * len ? "host" : "other");
    if (e != 0) { bad("random_get-failed", "length %u: errno=%u (host getentropy called %d times)", len, e, entropyCalls); return; }
    if (unwritten) bad("bytes-not-written", "length %u: %u requested bytes were never written", len, unwritten);
}

/* ------------------------------------------------------------------ (d) proc_exit */
static void exitMode(char* line) {
    char* f[2];
    U32 code; int ns, st = 0;
    pid_t p;
    if (hx_split(line, ',', f, 2) != 2) _exit(71);
    code = (U32)strtoul(f[0], 0, 10); ns = atoi(f[1]);
    fflush(hx_out);
    p = fork();
    if (p == 0) {
        if (ns == HX_UN) shim_un_proc_exit(I, code); else shim_p1_proc_exit(I, code);
        _exit(111);     /* proc_exit returned */
    }
    waitpid(p, &st, 0);
    fprintf(hx_out, "S 0 proc_exit 0 code=%u exited=%d status=%d\n", code, WIFEXITED(st), WIFEXITED(st) ? WEXITSTATUS(st) : -WTERMSIG(st));
    if (!WIFEXITED(st) || (U32)WEXITSTATUS(st) != code) bad("proc_exit-status", "proc_exit(%u): wait status %d", code, st);
}

int main(int argc, char** argv) {
    if (argc > 1 && !strcmp(argv[1], "args")) return hx_serve(argsMode);
    if (argc > 1 && !strcmp(argv[1], "clock")) return hx_serve(clockMode);
    if (argc > 1 && !strcmp(argv[1], "random")) return hx_serve(randomMode);
    if (argc > 1 && !strcmp(argv[1], "exit")) return hx_serve(exitMode);
    return 2;
}
