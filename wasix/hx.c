/* Harness core: guest memory, stray-write detection, fork-per-history server.  See hx.h. */
#define _GNU_SOURCE 1
#include <assert.h>
#include <dirent.h>
#include <errno.h>
#include <fcntl.h>
#include <stdlib.h>
#include <string.h>
#include <sys/stat.h>
#include <sys/wait.h>
#include <unistd.h>
#include "hx.h"

void __sanitizer_set_report_fd(void*);

shimInstance hx_inst;
wasmMemory hx_mem;
FILE* hx_out;
char hx_work[512];

static U8* shadow;
static struct { U32 off, len; } allowed[16];
static int nallowed;

wasmMemory* wasiMemory(void* instance) {
    if (instance != (void*)&hx_inst) {
        fprintf(hx_out, "HARNESS-ERROR wasiMemory called with a foreign instance\n");
    }
    return &hx_mem;
}

void trap(Trap t) {
    fprintf(hx_out, "TRAP %d\n", (int)t);
    fflush(hx_out);
    _exit(70);
}

void hx_guest_alloc(U32 size, U8 fill) {
    free(hx_mem.data);
    free(shadow);
    hx_mem.data = malloc(size ? size : 1);
    shadow = malloc(size ? size : 1);
    memset(hx_mem.data, fill, size);
    hx_mem.size = size;
    hx_mem.pages = size / 65536;
    hx_mem.maxPages = hx_mem.pages;
}

void hx_put(U32 off, const void* p, U32 n) {
    assert((U64)off + n <= hx_mem.size);
    memcpy(hx_mem.data + off, p, n);
}

U32 hx_u32(U32 off) { U32 v; assert((U64)off + 4 <= hx_mem.size); memcpy(&v, hx_mem.data + off, 4); return v; }
U64 hx_u64(U32 off) { U64 v; assert((U64)off + 8 <= hx_mem.size); memcpy(&v, hx_mem.data + off, 8); return v; }
void hx_set_u32(U32 off, U32 v) { hx_put(off, &v, 4); }

void hx_snapshot(void) { memcpy(shadow, hx_mem.data, hx_mem.size); nallowed = 0; }

void hx_allow(U32 off, U32 len) {
    assert(nallowed < 16);
    allowed[nallowed].off = off; allowed[nallowed].len = len; nallowed++;
}

int hx_stray(U32* firstOff) {
    U32 i; int k;
    if (memcmp(shadow, hx_mem.data, hx_mem.size) == 0) return 0;
    for (i = 0; i < hx_mem.size; i++) {
        if (shadow[i] == hx_mem.data[i]) continue;
        for (k = 0; k < nallowed; k++) if (i >= allowed[k].off && i - allowed[k].off < allowed[k].len) break;
        if (k == nallowed) { *firstOff = i; return 1; }
    }
    return 0;
}

void hx_hex(FILE* f, const void* p, size_t n) {
    size_t i;
    if (n == 0) fputc('-', f);
    for (i = 0; i < n; i++) fprintf(f, "%02x", ((const U8*)p)[i]);
}

void hx_rmtree(const char* path) {
    struct stat st;
    if (lstat(path, &st) != 0) return;
    if (S_ISDIR(st.st_mode)) {
        DIR* d = opendir(path);
        struct dirent* e;
        while (d && (e = readdir(d))) {
            char sub[4600];
            if (!strcmp(e->d_name, ".") || !strcmp(e->d_name, "..")) continue;
            snprintf(sub, sizeof sub, "%s/%s", path, e->d_name);
            hx_rmtree(sub);
        }
        if (d) closedir(d);
        rmdir(path);
    } else {
        unlink(path);
    }
}

void hx_mkdir(const char* path) {
    if (mkdir(path, 0755) != 0 && errno != EEXIST) { fprintf(hx_out, "HARNESS-ERROR mkdir %s: %s\n", path, strerror(errno)); fflush(hx_out); _exit(71); }
}

void hx_write_file(const char* path, const char* data) {
    int fd = open(path, O_WRONLY | O_CREAT | O_TRUNC, 0644);
    if (fd < 0 || write(fd, data, strlen(data)) != (ssize_t)strlen(data)) { fprintf(hx_out, "HARNESS-ERROR write %s\n", path); fflush(hx_out); _exit(71); }
    close(fd);
}

int hx_split(char* s, char sep, char** out, int max) {
    int n = 0;
    if (*s == 0) return 0;
    out[n++] = s;
    for (; *s; s++) if (*s == sep) { *s = 0; if (n < max) out[n++] = s + 1; }
    return n;
}

int hx_serve(hx_history_fn run) {
    char* line = NULL; size_t cap = 0;
    const char* base = getenv("HX_BASE");
    int timeout = getenv("HX_TIMEOUT") ? atoi(getenv("HX_TIMEOUT")) : 60;
    if (!base) { fprintf(stderr, "HX_BASE not set\n"); return 2; }
    snprintf(hx_work, sizeof hx_work, "%s/w", base);
    shimInstantiate(&hx_inst, NULL);
    while (getline(&line, &cap, stdin) > 0) {
        char* sp; long id; pid_t pid; int st = 0;
        size_t n = strlen(line);
        while (n && (line[n - 1] == '\n' || line[n - 1] == '\r')) line[--n] = 0;
        if (!n) continue;
        id = strtol(line, &sp, 10);
        while (*sp == ' ') sp++;
        hx_rmtree(hx_work);
        fflush(stdout);
        pid = fork();
        if (pid == 0) {
            int ofd = fcntl(1, F_DUPFD, 200), nul = open("/dev/null", O_RDONLY);
            dup2(nul, 0); close(nul);
            dup2(ofd, 2);            /* UBSan writes its reports to descriptor 2 */
            hx_out = fdopen(ofd, "w");
            __sanitizer_set_report_fd((void*)(intptr_t)ofd);
            alarm(timeout);
            fprintf(hx_out, "BEGIN %ld\n", id);
            fflush(hx_out);
            hx_mkdir(hx_work);
            run(sp);
            fprintf(hx_out, "DONE\n");
            fflush(hx_out);
            _exit(0);
        }
        waitpid(pid, &st, 0);
        printf("\nEND %ld %d %d\n", id, WIFEXITED(st) ? WEXITSTATUS(st) : -1, WIFSIGNALED(st) ? WTERMSIG(st) : 0);
        fflush(stdout);
    }
    hx_rmtree(hx_work);
    return 0;
}
