#!/usr/bin/env python3
"""detection demonstration: each mutant is applied to a scratch copy of the tree WITH the proposed fixes (so that the
checks are green before the mutation), the quick tier is run with W2C2_REPO pointing at the copy, the copy is removed."""
import glob, os, shutil, subprocess, sys, json, re
sys.path.insert(0, os.path.join(os.path.dirname(os.path.abspath(__file__)), '..', 'lib'))
import vcommon
# usage: wasix/mutants.py [C12|C13|C14|C15|<substring of a mutant name>]...
# base tree = vcommon.REPO (wasi/, w2c2/) + every patch of wasix/patches that still applies (so the checks are green before the mutation)
BASE = os.path.join(vcommon.scratch('mutbase'))
for sub in ('wasi', 'w2c2'):
    shutil.copytree(os.path.join(vcommon.REPO, sub), os.path.join(BASE, sub))
for p in sorted(glob.glob(os.path.join(os.path.dirname(os.path.abspath(__file__)), 'patches', '*.diff'))):
    r = subprocess.run(['patch', '-p1', '--forward', '--silent', '-r', '-', '-i', p], cwd=BASE, stdout=subprocess.PIPE, stderr=subprocess.STDOUT)
    print('base: patch %s %s' % (os.path.basename(p), 'applied' if r.returncode == 0 else 'not applied (already in the tree?)'))
M = [
 ('C12', 'M1 wrapPositional does not seek back', 'c12', "    if (lseek(fd, origLoc, SEEK_SET) == (off_t)-1) {", "    if (0) {", 0),
 ('C12', 'M2 ciovec stride 8 -> 12', 'c12', "static const size_t ciovecSize = 8;", "static const size_t ciovecSize = 12;", 0),
 ('C12', 'M3 unstable filestat size stored at offset 32', 'c12', "        i64_store(memory, statPointer + 24, size);", "        i64_store(memory, statPointer + 32, size);", 0),
 ('C12', 'M4 preview1 whence 1/2 swapped', 'c12', "        case 1:\n            return SEEK_CUR;\n        case 2:\n            return SEEK_END;", "        case 1:\n            return SEEK_END;\n        case 2:\n            return SEEK_CUR;", 0),
 ('C13', 'M1 wasiFileDescriptorGet bound <=', 'c13', "    MUST (wasiFD < wasi.fds.length)\n    /* A closed", "    MUST (wasiFD <= wasi.fds.length)\n    /* A closed", 0),
 ('C13', 'M2 close does not reset the native fd', 'c13', "    MUST (wasiFileDescriptorSet(wasiFD, -1))\n", "", 0),
 ('C13', 'M3 path_open stores the number of the previous (live) descriptor', 'c13', "    i32_store(memory, fdPointer, wasiFD);", "    i32_store(memory, fdPointer, wasiFD - 1);", 0),
 ('C14', 'M1 length check < -> <=', 'c14', "MUST (totalLength + pathLength + 1 < PATH_MAX)", "MUST (totalLength + pathLength + 1 <= PATH_MAX)", 0),
 ('C14', 'M2 memcpy of pathLength+1', 'c14', "        memcpy(result + totalLength, path, pathLength);", "        memcpy(result + totalLength, path, pathLength + 1);", 0),
 ('C14', 'M3 bufferRemaining < WASI_DIRENT_SIZE -> <=', 'c14', "if (bufferRemaining < WASI_DIRENT_SIZE) {", "if (bufferRemaining <= WASI_DIRENT_SIZE) {", 0),
 ('C14', 'M4 d_namlen stored at +20', 'c14', "i32_store(memory, resultPointer + 16, nameLength);", "i32_store(memory, resultPointer + 20, nameLength);", 0),
 ('C15', 'M1 "+ 1" dropped in args_sizes_get', 'c15', "argvBufSize += strlen(wasi.argv[argvIndex]) + 1;", "argvBufSize += strlen(wasi.argv[argvIndex]);", 0),
 ('C15', 'M2 environ pointer array stride 8', 'c15', "envpPointer + index * sizeof(U32),", "envpPointer + index * 8,", 0),
 ('C15', 'M3 tv_sec * NSEC_PER_SEC in 32 bits', 'c15', "    return t.tv_sec * NSEC_PER_SEC\n           + t.tv_nsec;", "    return (I64)((U32)t.tv_sec * (U32)NSEC_PER_SEC)\n           + t.tv_nsec;", 0),
]
only = sys.argv[1:] 
for prop, name, chk, old, new, _ in M:
    if only and not any(o == prop or o in name for o in only): continue
    d = vcommon.scratch('mutant')
    shutil.copytree(BASE + '/wasi', d + '/wasi'); shutil.copytree(BASE + '/w2c2', d + '/w2c2')
    p = d + '/wasi/wasi.c'
    s = open(p).read()
    n = s.count(old)
    if n < 1: print(prop, name, 'PATTERN NOT FOUND'); continue
    # replace the occurrence that belongs to the intended function (the last one for the unstable filestat, the POSIX branch of convertTimespec)
    if 'unstable filestat' in name or 'tv_sec' in name:
        i = s.rfind(old); s = s[:i] + new + s[i + len(old):]
    else:
        s = s.replace(old, new, 1)
    open(p, 'w').write(s)
    # the pinned unit tests must still build and pass with the mutant
    r0 = subprocess.run('cmake -G Ninja -S %s/wasi -B %s/_b >/dev/null 2>&1 && cmake --build %s/_b >/dev/null 2>&1 && %s/_b/w2c2wasi_test >/dev/null 2>&1' % (d, d, d, d), shell=True)
    r = subprocess.run([sys.executable, os.path.join(vcommon.VERIF, 'checks', '%s.py' % chk), 'quick'], env=dict(os.environ, W2C2_REPO=d), stdout=subprocess.PIPE, stderr=subprocess.STDOUT)
    out = r.stdout.decode()
    nv = out.count('\nVIOLATION') + out.startswith('VIOLATION')
    ev = json.load(open(os.path.join(vcommon.BUILD, 'alt-evidence', '%s.json' % prop))) if os.path.exists(os.path.join(vcommon.BUILD, 'alt-evidence', '%s.json' % prop)) else {}
    keys = sorted(ev.get('coverage', {}).get('violation_keys', {}))
    print('%s | %s | occurrences=%d | pinned wasi tests %s | exit=%d | VIOLATION lines=%d | keys: %s' % (prop, name, n, 'pass' if r0.returncode == 0 else 'FAIL', r.returncode, nv, '; '.join(keys[:4]) + (' ...(%d)' % len(keys) if len(keys) > 4 else '')))
    if 'MACHINERY' in out: print('   ', [l for l in out.split('\n') if 'MACHINERY' in l][0][:300])
    sys.stdout.flush()
    shutil.rmtree(d, ignore_errors=True)
