/* C14 driver.  Three modes (argv[1]):
 *
 *  e1  path resolution lengths.  line: <call>,<D>,<slash>,<P>,<abs>,<ns>
 *      A directory string of exactly D bytes (with or without trailing '/') is registered as
 *      pre-open; a guest path of exactly P bytes, relative or absolute, is placed at the very END of
 *      guest memory (not NUL-terminated; the byte after it is an ASan redzone) and handed to one
 *      path-taking call.  Both strings are padded with "." components so that they name a real
 *      object in a scratch directory T: the effect of the host operation is observed in T.
 *      Oracle: resolve() below (own 10 lines).
 *  e2  histories of path operations with a POSIX twin.  line: op (' ' op)*
 *      md,<n>,<ns> rd,<n>,<ns> ul,<n>,<ns> rn,<n1>,<n2>,<ns> sl,<t>,<n>,<ns> rl,<n>,<mode>,<ns> fs,<n>,<ns> op,<n>,<oflags>,<ns>
 *  e3  fd_readdir.  line: <n>,<lenmode>,<typeoff>,<b>,<ns>,<max calls per strategy>
 *      Directory with n entries; buffer of b bytes at the END of guest memory; the complete
 *      "continue" listing and every resume strategy of <= 4 calls are executed and every call is
 *      compared with the record image computed from the host's own readdir/telldir listing.
 */
#define _GNU_SOURCE 1
#include <dirent.h>
#include <dlfcn.h>
#include <errno.h>
#include <fcntl.h>
#include <limits.h>
#include <stdarg.h>
#include <stdlib.h>
#include <string.h>
#include <sys/stat.h>
#include <unistd.h>
#include "hx.h"
#include "twin.h"
#include "wasi.h"

#define HOST_PATH_LIMIT 4096      /* PATH_MAX of the host (POSIX <limits.h> on Linux), restated */
#define GUEST 65536u
#define FILL 0xAA
static char* argv0[] = {"prog", NULL};
static char* envp0[] = {NULL};
static int failed, curStep;

static void bad(const char* what, const char* fmt, ...) {
    va_list ap;
    fprintf(hx_out, "X %d %s ", curStep, what);
    va_start(ap, fmt); vfprintf(hx_out, fmt, ap); va_end(ap);
    fprintf(hx_out, "\n");
    failed = 1;
}

/* ------------------------------------------------------------------------------------------ E1 */

/* the reference resolver: absolute guest paths are used as they are, relative ones are appended to
 * the directory with exactly one separator; returns 0 if the path is empty or the result (plus its
 * terminator) does not fit the host limit */
static int resolve(const char* dir, const char* path, size_t plen, char* out /* 6*limit */) {
    size_t n = 0, dl = strlen(dir);
    if (plen == 0) return 0;
    if (path[0] != '/') { memcpy(out, dir, dl); n = dl; if (dir[dl - 1] != '/') out[n++] = '/'; }
    memcpy(out + n, path, plen); n += plen; out[n] = 0;
    return n + 1 <= HOST_PATH_LIMIT;
}

static char typeOf(const char* p) {
    struct stat st;
    if (lstat(p, &st) != 0) return '-';
    return S_ISDIR(st.st_mode) ? 'd' : S_ISLNK(st.st_mode) ? 'l' : 'f';
}

/* append "./" (or "/.") pairs until the string has the wanted length */
static void padTo(char* s, size_t want, const char* pair) { while (strlen(s) + 2 <= want) strcat(s, pair); }

static void e1(char* line) {
    char* f[8];
    static char dir[3 * HOST_PATH_LIMIT], gp[3 * HOST_PATH_LIMIT], R[6 * HOST_PATH_LIMIT], T[700], tgt[800], other[800], buf[64];
    const char *call, *name;
    size_t D, P;
    int slash, isAbs, ns, rootDir, rootTarget = 0, fits, weak, isLong, e = -1, effect = 0, none = 0;
    U32 pre = 99, pre2 = 99, pp;
    char before, after, otherBefore = '-', otherAfter = '-';
    if (hx_split(line, ',', f, 8) != 6) _exit(71);
    call = f[0]; D = strtoul(f[1], 0, 10); slash = atoi(f[2]); P = strtoul(f[3], 0, 10); isAbs = atoi(f[4]); ns = atoi(f[5]);
    hx_guest_alloc(GUEST, FILL);
    /* directory string of D bytes */
    rootDir = D <= 2;
    snprintf(T, sizeof T, "%s/T", hx_work);
    if (!rootDir && ((D - slash - strlen(T)) & 1)) strcat(T, "T");
    hx_mkdir(T);
    if (D == 1) strcpy(dir, "/");
    else if (D == 2) strcpy(dir, slash ? "//" : "/.");
    else { strcpy(dir, T); padTo(dir, D - slash, "/."); if (slash) strcat(dir, "/"); }
    if (strlen(dir) != D) { fprintf(hx_out, "HARNESS-ERROR directory length %zu != %zu\n", strlen(dir), D); fflush(hx_out); _exit(71); }
    /* guest path of P bytes naming T/<name> */
    gp[0] = 0;
    name = "x";
    if (P > 0) {
        char tail[800];
        if (isAbs || rootDir) {
            snprintf(tail, sizeof tail, "%s/x", T + 1);
            if ((P - isAbs - strlen(tail)) & 1) { strcat(tail, "y"); name = "xy"; }
            if (P < isAbs + strlen(tail)) { rootTarget = 1; strcpy(gp, isAbs ? (P == 1 ? "/" : "/.") : (P == 1 ? "." : "./")); }
            else { strcpy(gp, isAbs ? "/" : ""); padTo(gp, P - strlen(tail), "./"); strcat(gp, tail); }
        } else {
            if (!(P & 1)) name = "xy";
            padTo(gp, P - strlen(name), "./"); strcat(gp, name);
        }
        if (strlen(gp) != P) { fprintf(hx_out, "HARNESS-ERROR guest path length %zu != %zu\n", strlen(gp), P); fflush(hx_out); _exit(71); }
    }
    snprintf(tgt, sizeof tgt, "%s/%s", T, name);
    snprintf(other, sizeof other, "%s/o", T);
    fits = resolve(dir, gp, P, R);
    weak = fits && !isAbs && slash && strlen(R) + 1 == HOST_PATH_LIMIT;   /* see c14.py: over-rejection by one byte is not contrary to the statement */
    isLong = D >= HOST_PATH_LIMIT;
    /* state of T before the call */
    if (!rootTarget) {
        if (!strcmp(call, "remove_directory")) hx_mkdir(tgt);
        else if (!strcmp(call, "unlink_file") || !strcmp(call, "rename_old")) hx_write_file(tgt, "hello");
        else if (!strncmp(call, "filestat_get", 12)) hx_write_file(tgt, "hello");
        else if (!strcmp(call, "readlink")) { if (symlink("tgt", tgt) != 0) _exit(71); }
        else if (!strcmp(call, "rename_new")) hx_write_file(other, "hello");
    }
    before = typeOf(tgt); otherBefore = typeOf(other);
    /* registration of the directory handle */
    if (!wasiInit(1, argv0, envp0)) _exit(71);
    if (!wasiFileDescriptorAdd(-1, dir, &pre)) {
        fprintf(hx_out, "S 0 preopen %d D=%zu refused\n", isLong ? 0 : 1, D);
        if (!isLong) bad("preopen-refused", "a directory string of %zu bytes fits the host limit but was refused", D);
        return;
    }
    if (isLong) { /* wasi.c registered a directory string that cannot be a host path: nothing to resolve against, but it must stay memory-safe */ }
    if (!wasiFileDescriptorAdd(-1, T, &pre2) || pre != 3 || pre2 != 4) _exit(71);
    /* guest path at the very end of guest memory */
    pp = GUEST - (U32)P;
    hx_put(pp, gp, (U32)P);
    hx_put(0x100, "tgt", 3); hx_put(0x110, "o", 1); hx_put(0x120, "n2", 2);
    hx_snapshot();
    if (!strcmp(call, "create_directory")) e = NS(ns, path_create_directory)(I, 3, pp, P);
    else if (!strcmp(call, "remove_directory")) e = NS(ns, path_remove_directory)(I, 3, pp, P);
    else if (!strcmp(call, "unlink_file")) e = NS(ns, path_unlink_file)(I, 3, pp, P);
    else if (!strcmp(call, "filestat_get")) { hx_allow(0x400, 64); /* struct size is C12's subject */ e = NS(ns, path_filestat_get)(I, 3, TW_LOOKUP_SYMLINK_FOLLOW, pp, P, 0x400); }
    else if (!strcmp(call, "open")) { hx_allow(0x400, 4); e = NS(ns, path_open)(I, 3, TW_LOOKUP_SYMLINK_FOLLOW, pp, P, rootTarget ? TW_O_DIRECTORY : TW_O_CREAT, rootTarget ? TW_RIGHT_FD_READDIR : tw_rights(3), 0, 0, 0x400); }
    else if (!strcmp(call, "readlink")) { hx_allow(0x400, 4); hx_allow(0x500, 16); e = NS(ns, path_readlink)(I, 3, pp, P, 0x500, 16, 0x400); }
    else if (!strcmp(call, "symlink")) e = NS(ns, path_symlink)(I, 0x100, 3, 3, pp, P);
    else if (!strcmp(call, "rename_old")) e = NS(ns, path_rename)(I, 3, pp, P, 4, 0x120, 2);
    else if (!strcmp(call, "rename_new")) e = NS(ns, path_rename)(I, 4, 0x110, 1, 3, pp, P);
    else _exit(71);
    after = typeOf(tgt); otherAfter = typeOf(other);
    snprintf(other, sizeof other, "%s/n2", T);
    /* did the host operation happen on exactly the resolved object? */
    none = before == after && otherBefore == otherAfter && typeOf(other) == '-';
    if (rootTarget) { effect = e == 0 && (strcmp(call, "filestat_get") || hx_mem.data[0x400 + 16] == TW_FT_DIR); none = e != 0; }
    else if (!strcmp(call, "create_directory")) effect = e == 0 && after == 'd';
    else if (!strcmp(call, "remove_directory") || !strcmp(call, "unlink_file")) effect = e == 0 && after == '-';
    else if (!strcmp(call, "filestat_get")) { effect = e == 0 && hx_mem.data[0x400 + 16] == TW_FT_REG && hx_u64(0x400 + tw_layout[ns].fsize) == 5; none = e != 0; }
    else if (!strcmp(call, "open")) effect = e == 0 && after == 'f' && hx_u32(0x400) == 5;
    else if (!strcmp(call, "readlink")) { effect = e == 0 && hx_u32(0x400) == 3 && !memcmp(hx_mem.data + 0x500, "tgt", 3); none = e != 0; }
    else if (!strcmp(call, "symlink")) { ssize_t k = readlink(tgt, buf, sizeof buf); effect = e == 0 && after == 'l' && k == 3 && !memcmp(buf, "tgt", 3); }
    else if (!strcmp(call, "rename_old")) effect = e == 0 && after == '-' && typeOf(other) == 'f';
    else if (!strcmp(call, "rename_new")) effect = e == 0 && after == 'f' && otherAfter == '-';
    fprintf(hx_out, "S 0 %s %d D=%zu slash=%d P=%zu abs=%d resolved=%zu fits=%d weak=%d effect=%s\n", call, e, D, slash, P, isAbs, strlen(R), fits, weak,
            effect ? "done" : none ? "none" : "other");
    if (isLong) { if (e == 0) bad("accepted-with-oversized-directory", "errno 0 although the directory string has %zu bytes", D); }
    else if (!fits) { if (e == 0 || !none) bad(P ? "too-long-not-rejected" : "empty-not-rejected", "errno=%d effect=%s, resolved length %zu", e, none ? "none" : "some", strlen(R)); }
    else if (weak) { if (!(effect || (e != 0 && none))) bad("boundary", "errno=%d, neither performed nor cleanly rejected", e); }
    else if (!effect) bad("fitting-path-not-performed", "errno=%d effect=%s, resolved length %zu (limit %d incl. terminator)", e, none ? "none" : "other", strlen(R), HOST_PATH_LIMIT);
    { U32 at; if (hx_stray(&at)) bad("stray-write", "guest byte %u changed", at); }
}

/* ------------------------------------------------------------------------------------------ E2 */

static char dirA[600], dirB[600], longName[300];
enum { NP = 0x100, NP2 = 0x1200, LBUF = 0x2400, RES = 0x400, STAT = 0x500 };

/* name alphabet: directory handle selector (0 pre-open, 1 descriptor 4 = opened "d") and string; '@' stands for the base directory */
static const struct { int sel; const char* s; } NAMES[] = {
    {0, "a"}, {0, "b"}, {0, "d"}, {0, "d/a"}, {0, "missing/x"}, {0, "@/a"}, {0, "#"}, {1, "a"}, {1, "n"},
    /* a trailing separator: only a directory (or a link to one) may be named like that */
    {0, "a/"}, {0, "b/"},
    /* content classes used for single operations only (index >= 11): dot components, doubled separators, the empty string and the root, bytes
       that mean something to shells, C strings or UTF-8 decoders */
    {0, "./a"}, {0, "d/../a"}, {0, "d//a"}, {0, "d/./a"}, {0, "a/."}, {0, "d/."}, {0, "d/.."}, {0, "."}, {0, ".."}, {0, "/"}, {0, "d/"}, {0, "d//"},
    {0, "a b"}, {0, "-x"}, {0, "a\\b"}, {0, "*"}, {0, "\xc3\xa9"}, {0, "\xff\xfe"}, {0, "%s%n"}, {0, "d/a/"}, {0, "./"}, {0, "d/../d/a"}, {1, "../a"}, {1, "."}, {1, "./a"},
    /* selector 2: descriptor 5 = the directory "d" opened WITHOUT the directory open flag (a plain open of a directory is valid) */
    {2, "a"}, {2, "n"}, {2, "../a"}};

static void nameFor(int idx, const char* base, char* guest, char* host, size_t cap) {
    const char* s = NAMES[idx].s;
    if (s[0] == '@') snprintf(guest, cap, "%s%s", base, s + 1);
    else if (s[0] == '#') snprintf(guest, cap, "%s", longName);
    else snprintf(guest, cap, "%s", s);
    if (guest[0] == '/') snprintf(host, cap, "%s", guest);
    else snprintf(host, cap, "%s%s/%s", base, NAMES[idx].sel ? "/d" : "", guest);
}

static void e2(char* history) {
    char* ops[16];
    static char ga[5000], ha[5000], gb[5000], hb[5000], ga2[5000], ha2[5000], gb2[5000], hb2[5000], ta[12000], tb[12000], p[700];
    int n = hx_split(history, ' ', ops, 16), step;
    U32 pre = 0;
    memset(longName, 'L', 256); longName[256] = 0;
    hx_guest_alloc(GUEST, FILL);
    snprintf(dirA, sizeof dirA, "%s/A", hx_work); snprintf(dirB, sizeof dirB, "%s/B", hx_work);
    {
        const char* roots[2] = {dirA, dirB}; int k;
        for (k = 0; k < 2; k++) {
            hx_mkdir(roots[k]);
            snprintf(p, sizeof p, "%s/a", roots[k]); hx_write_file(p, "abc");
            snprintf(p, sizeof p, "%s/d", roots[k]); hx_mkdir(p);
            snprintf(p, sizeof p, "%s/d/a", roots[k]); hx_write_file(p, "xy");
        }
    }
    if (!wasiInit(1, argv0, envp0) || !wasiFileDescriptorAdd(-1, dirA, &pre) || pre != 3) _exit(71);
    hx_put(NP, "d", 1);
    if (NS(0, path_open)(I, 3, 1, NP, 1, TW_O_DIRECTORY, TW_RIGHT_FD_READDIR, ~0ull, 0, RES) != 0 || hx_u32(RES) != 4) { fprintf(hx_out, "HARNESS-ERROR cannot open d\n"); fflush(hx_out); _exit(71); }
    if (NS(0, path_open)(I, 3, 1, NP, 1, 0, TW_RIGHT_FD_READDIR, ~0ull, 0, RES) != 0 || hx_u32(RES) != 5) { fprintf(hx_out, "HARNESS-ERROR cannot open d without the directory flag\n"); fflush(hx_out); _exit(71); }
    for (step = 0; step < n && !failed; step++) {
        char* f[6];
        char det[200] = "";
        const char* name = "?";
        int nf = (curStep = step, hx_split(ops[step], ',', f, 6)), ns = atoi(f[nf - 1]), i1 = atoi(f[1]), i2 = nf > 3 ? atoi(f[2]) : 0, terr = 0;
        U32 e = 0, fd1 = NAMES[i1].sel ? 3 + NAMES[i1].sel : 3, fd2 = NAMES[i2].sel ? 3 + NAMES[i2].sel : 3, strayAt;
        struct stat st;
        errno = EXDEV;      /* environment: errno holds an unrelated stale value when a WASI call begins; no result may depend on it */
        nameFor(i1, dirA, ga, ha, sizeof ga); nameFor(i1, dirB, gb, hb, sizeof gb);
        nameFor(i2, dirA, ga2, ha2, sizeof ga2); nameFor(i2, dirB, gb2, hb2, sizeof gb2);
        hx_put(NP, ga, strlen(ga)); hx_put(NP2, ga2, strlen(ga2));
        memset(hx_mem.data + RES, FILL, 8);
        hx_snapshot();
        if (!strcmp(f[0], "md")) { name = "path_create_directory"; e = NS(ns, path_create_directory)(I, fd1, NP, strlen(ga)); terr = mkdir(hb, 0755) ? tw_errno(errno) : 0; }
        else if (!strcmp(f[0], "rd")) { name = "path_remove_directory"; e = NS(ns, path_remove_directory)(I, fd1, NP, strlen(ga)); terr = rmdir(hb) ? tw_errno(errno) : 0; }
        else if (!strcmp(f[0], "ul")) { name = "path_unlink_file"; e = NS(ns, path_unlink_file)(I, fd1, NP, strlen(ga)); terr = unlink(hb) ? tw_errno(errno) : 0; }
        else if (!strcmp(f[0], "rn")) { name = "path_rename"; e = NS(ns, path_rename)(I, fd1, NP, strlen(ga), fd2, NP2, strlen(ga2)); terr = rename(hb, hb2) ? tw_errno(errno) : 0; }
        else if (!strcmp(f[0], "sl")) {   /* sl,<target name>,<link name>: the target string is stored as it is */
            name = "path_symlink"; e = NS(ns, path_symlink)(I, NP, strlen(ga), fd2, NP2, strlen(ga2)); terr = symlink(gb, hb2) ? tw_errno(errno) : 0;
        } else if (!strcmp(f[0], "rl")) {
            char tbuf[5000];
            int mode = atoi(f[2]);
            ssize_t len = lstat(hb, &st) == 0 && S_ISLNK(st.st_mode) ? st.st_size : 4, tk;
            U32 bl = mode == 0 ? 0 : mode == 1 ? 1 : mode == 2 ? (U32)len : (U32)len + 1;
            name = "path_readlink";
            memset(hx_mem.data + LBUF, FILL, 5000); memset(tbuf, FILL, sizeof tbuf);
            hx_snapshot(); hx_allow(RES, 4); hx_allow(LBUF, bl);
            e = NS(ns, path_readlink)(I, fd1, NP, strlen(ga), LBUF, bl, RES);
            tk = readlink(hb, tbuf, bl); terr = tk < 0 ? tw_errno(errno) : 0;
            if (e == 0 && terr == 0) {
                size_t bl0 = strlen(dirB) < (size_t)tk ? strlen(dirB) : (size_t)tk;
                if (hx_u32(RES) != (U32)tk) bad("readlink.length", "impl=%u want=%zd", hx_u32(RES), tk);
                if (!memcmp(tbuf, dirB, bl0)) memcpy(tbuf, dirA, bl0);   /* the twin's absolute target names B where the implementation's names A */
                if (memcmp(tbuf, hx_mem.data + LBUF, 5000) != 0) bad("readlink.data", "buffer differs (buffer length %u)", bl);
                snprintf(det, sizeof det, "len=%u buf=%u", hx_u32(RES), bl);
            }
        } else if (!strcmp(f[0], "fs")) {
            const tw_statlayout* L = &tw_layout[ns];
            name = "path_filestat_get";
            memset(hx_mem.data + STAT, FILL, 128); hx_snapshot(); hx_allow(STAT, 64);   /* struct size is C12's subject */
            e = NS(ns, path_filestat_get)(I, fd1, TW_LOOKUP_SYMLINK_FOLLOW, NP, strlen(ga), STAT);
            terr = stat(hb, &st) ? tw_errno(errno) : 0;
            if (e == 0 && terr == 0) {
                U64 nl = L->nlinkBytes == 8 ? hx_u64(STAT + L->nlink) : hx_u32(STAT + L->nlink);
                if (hx_mem.data[STAT + L->filetype] != tw_filetype(st.st_mode)) bad("filestat.filetype", "impl=%u want=%u", hx_mem.data[STAT + L->filetype], tw_filetype(st.st_mode));
                if (hx_u64(STAT + L->fsize) != (U64)st.st_size) bad("filestat.size", "impl=%llu want=%llu", (unsigned long long)hx_u64(STAT + L->fsize), (unsigned long long)st.st_size);
                if (nl != st.st_nlink) bad("filestat.nlink", "impl=%llu want=%llu", (unsigned long long)nl, (unsigned long long)st.st_nlink);
                snprintf(det, sizeof det, "filetype=%u", hx_mem.data[STAT + L->filetype]);
            }
        } else if (!strcmp(f[0], "op")) {
            U32 of = atoi(f[2]); int rights = (of & TW_O_CREAT) ? 3 : 1, tfd;
            name = "path_open";
            hx_allow(RES, 4);
            e = NS(ns, path_open)(I, fd1, TW_LOOKUP_SYMLINK_FOLLOW, NP, strlen(ga), of, tw_rights(rights), 0, 0, RES);
            tfd = open(hb, tw_openflags(of, 0, rights), 0644); terr = tfd < 0 ? tw_errno(errno) : 0;
            if (tfd >= 0) close(tfd);
            if (e == 0) { U32 nfd = hx_u32(RES); if (nfd < 5) bad("path_open.fd", "returned %u", nfd); else if (NS(ns, fd_close)(I, nfd) != 0) bad("fd_close", "close of fresh descriptor failed"); }
        } else { fprintf(hx_out, "HARNESS-ERROR bad op\n"); fflush(hx_out); _exit(71); }
        fprintf(hx_out, "S %d %s %u %s\n", step, name, e, det);
        if ((int)e != terr) { fprintf(hx_out, "X %d errno impl=%u want=%d\n", step, e, terr); failed = 1; }
        if (hx_stray(&strayAt)) { fprintf(hx_out, "X %d stray-write guest offset %u\n", step, strayAt); failed = 1; }
        tw_tree_canon(dirA, ta, sizeof ta); tw_tree_canon(dirB, tb, sizeof tb);
        if (strcmp(ta, tb) != 0) { fprintf(hx_out, "X %d tree impl=%s want=%s\n", step, ta, tb); failed = 1; }
        fflush(hx_out);
    }
    /* failures of an earlier step number are reported with that step number */
    if (!failed) { tw_tree_canon(dirA, ta, sizeof ta); fprintf(hx_out, "STATE %s\n", ta); }
}

/* ------------------------------------------------------------------------------------------ E3 */

typedef struct { char name[260]; U64 ino, off; U8 type; U32 len; } Ent;
static Ent L[64];
static int nL;
static U32 bufLen, bufPtr;
static int nsE3;
static long callsE3, stratE3;

/* record image of one call that starts after cookie c; returns bytes used, cookies of the complete records in cks[] */
static U32 expectImage(U64 cookie, U8* img, int* undetermined, U64* cks, int* ncks) {
    int i = 0, k;
    U32 used = 0;
    *undetermined = 0; *ncks = 0;
    if (cookie != 0) { for (k = 0; k < nL && L[k].off != cookie; k++) {} i = k + 1; }
    for (; i < nL && used < bufLen; i++) {
        U32 rem = bufLen - used, nl;
        if (rem < 24) { *undetermined = (int)rem; used = bufLen; break; }   /* a header does not fit: the call reports a full buffer */
        memset(img + used, 0, 24);
        memcpy(img + used, &L[i].off, 8); memcpy(img + used + 8, &L[i].ino, 8); memcpy(img + used + 16, &L[i].len, 4); img[used + 20] = L[i].type;
        used += 24; rem -= 24;
        nl = L[i].len > rem ? rem : L[i].len;
        memcpy(img + used, L[i].name, nl); used += nl;
        if (nl == L[i].len) cks[(*ncks)++] = L[i].off;
    }
    return used;
}

static const char* cookieClass(U64 c, U64 lastComplete, int callNo) {
    if (callNo == 0) return "first-call";
    if (c == 0) return "cookie0-after-first-call";
    return c == lastComplete ? "continue" : "resume-earlier";
}

/* one fd_readdir call compared with the oracle; returns 0 on mismatch */
static int oneCall(U32 fd, U64 cookie, int callNo, U64 lastComplete, const char* strat, U64* cks, int* ncks) {
    static U8 img[8192];
    int und, k;
    U32 used = expectImage(cookie, img, &und, cks, ncks), e, got, at;
    memset(hx_mem.data + bufPtr, FILL, bufLen);
    hx_set_u32(RES, 0xAAAAAAAA);
    hx_snapshot(); hx_allow(RES, 4); hx_allow(bufPtr, bufLen);
    errno = ENOENT;     /* a stale value from some earlier, unrelated failure */
    e = NS(nsE3, fd_readdir)(I, fd, bufPtr, bufLen, cookie, RES);
    callsE3++;
    got = hx_u32(RES);
    if (e != 0) { bad(cookieClass(cookie, lastComplete, callNo), "errno=%u strategy=%s call=%d cookie=%llu", e, strat, callNo, (unsigned long long)cookie); return 0; }
    if (got != used) { bad(cookieClass(cookie, lastComplete, callNo), "bufused=%u want=%u strategy=%s call=%d cookie=%llu buflen=%u", got, used, strat, callNo, (unsigned long long)cookie, bufLen); return 0; }
    /* padding bytes 21..23 of each header are not determined by the specification */
    for (k = 0; k + 24 <= (int)(used - und); ) {
        U32 nl; memcpy(&nl, img + k + 16, 4);
        memcpy(img + k + 21, hx_mem.data + bufPtr + k + 21, 3);
        k += 24 + (int)nl;
    }
    if (memcmp(img, hx_mem.data + bufPtr, used - und) != 0) {
        U32 d = 0; while (img[d] == hx_mem.data[bufPtr + d]) d++;
        bad(cookieClass(cookie, lastComplete, callNo), "records differ from the host listing at buffer byte %u strategy=%s call=%d cookie=%llu buflen=%u", d, strat, callNo, (unsigned long long)cookie, bufLen);
        return 0;
    }
    if (hx_stray(&at)) { bad("stray-write", "guest byte %u", at); return 0; }
    return 1;
}

static U32 openDir(void) {
    hx_put(NP, "D", 1);
    if (NS(nsE3, path_open)(I, 3, 1, NP, 1, TW_O_DIRECTORY, TW_RIGHT_FD_READDIR, 0, 0, RES) != 0) { fprintf(hx_out, "HARNESS-ERROR cannot open D\n"); fflush(hx_out); _exit(71); }
    return hx_u32(RES);
}

/* depth-first walk of the strategy tree; a strategy is the list of cookies of its calls; every node is re-executed on a fresh descriptor */
static void strategies(U64* cookies, int depth, int maxDepth) {
    U64 seen[256], cks[64], last = 0;
    int nseen = 0, ncks, i, ok = 1;
    char strat[200] = "";
    U32 fd = openDir();
    for (i = 0; i < depth && ok; i++) {
        char t[32]; snprintf(t, sizeof t, "%s%llu", i ? "," : "", (unsigned long long)cookies[i]); strcat(strat, t);
    }
    for (i = 0; i < depth && ok; i++) {
        int k;
        ok = oneCall(fd, cookies[i], i, last, strat, cks, &ncks);
        if (ncks) last = cks[ncks - 1]; else last = cookies[i];
        for (k = 0; k < ncks && nseen < 256; k++) seen[nseen++] = cks[k];
    }
    NS(nsE3, fd_close)(I, fd);
    stratE3++;
    if (!ok || depth == maxDepth || failed) return;
    {   /* choices for the next call: continue, restart at 0, resume from an earlier cookie (first, middle, last-but-one) */
        U64 cand[5]; int nc = 0, a, b;
        cand[nc++] = last;
        cand[nc++] = 0;
        if (nseen > 1) cand[nc++] = seen[0];
        if (nseen > 2) cand[nc++] = seen[nseen / 2];
        if (nseen > 3) cand[nc++] = seen[nseen - 2];
        for (a = 0; a < nc; a++) {
            for (b = 0; b < a; b++) if (cand[b] == cand[a]) break;
            if (b < a) continue;
            cookies[depth] = cand[a];
            strategies(cookies, depth + 1, maxDepth);
        }
    }
}

/* the host's directory positions are opaque 64-bit values (ext4 hands out hashes above 2^32, tmpfs small numbers): with cookieBias set
   the harness presents the positions of this file system shifted beyond 2^32 to everybody in the process - wasi.c and the reference
   listing alike - so that "a cookie is a 64-bit quantity" is exercised on any file system */
static long cookieBias;
long telldir(DIR* d) {
    static long (*real)(DIR*);
    long v;
    if (!real) real = (long (*)(DIR*))dlsym(RTLD_NEXT, "telldir");
    v = real(d);
    return v < 0 ? v : v + cookieBias;
}
void seekdir(DIR* d, long pos) {
    static void (*real)(DIR*, long);
    if (!real) real = (void (*)(DIR*, long))dlsym(RTLD_NEXT, "seekdir");
    real(d, pos - cookieBias);
}

static void e3(char* line) {
    char* f[7];
    static const int lens[4] = {1, 2, 24, 255};
    int n, lenmode, typeoff, i, calls = 0, maxDepth;
    char p[900], d[700];
    U32 pre = 0, fd;
    U64 cookie = 0, cks[64], last = 0, cookies[8];
    int ncks, delivered = 0, longest = 2;
    DIR* dir;
    struct dirent* de;
    {
        int nf = hx_split(line, ',', f, 7);
        if (nf != 6 && nf != 7) _exit(71);
        cookieBias = nf == 7 && atoi(f[6]) ? (long)0x500000000LL + 7 : 0;
    }
    n = atoi(f[0]); lenmode = atoi(f[1]); typeoff = atoi(f[2]); bufLen = strtoul(f[3], 0, 10); nsE3 = atoi(f[4]); maxDepth = atoi(f[5]);
    hx_guest_alloc(GUEST, FILL);
    bufPtr = GUEST - bufLen;
    snprintf(dirA, sizeof dirA, "%s/A", hx_work); hx_mkdir(dirA);
    snprintf(d, sizeof d, "%s/D", dirA); hx_mkdir(d);
    for (i = 0; i < n; i++) {
        static const char digits[] = "0123456789abcdefghijklmnopqrstuvwxyzABCDEFGHIJKLMNOPQRSTUVWXYZ";
        /* typeoff < 10: files, directories, symbolic links in rotation; typeoff >= 10: additionally FIFOs - entries whose type the host's
           readdir reports with a d_type that has no WASI counterpart, so that the lister has to look them up one by one */
        int len = lens[lenmode < 4 ? lenmode : i % 4], t = typeoff >= 10 ? (i + typeoff) % 5 : (i + typeoff) % 3;
        char nm[260];
        memset(nm, 'p', len); nm[len] = 0; nm[0] = digits[i];     /* unique first character, padded to the wanted length */
        snprintf(p, sizeof p, "%s/%s", d, nm);
        if (t == 0) hx_write_file(p, "x"); else if (t == 1) hx_mkdir(p); else if (t == 2) { if (symlink("nowhere", p) != 0) _exit(71); }
        else if (mkfifo(p, 0644) != 0) _exit(71);
    }
    /* the host's own listing */
    dir = opendir(d);
    while ((de = readdir(dir)) && nL < 64) {
        struct stat st;
        snprintf(p, sizeof p, "%s/%s", d, de->d_name);
        if (lstat(p, &st) != 0) _exit(71);
        snprintf(L[nL].name, sizeof L[nL].name, "%s", de->d_name);
        L[nL].len = strlen(de->d_name); L[nL].ino = de->d_ino; L[nL].type = tw_filetype(st.st_mode); L[nL].off = (U64)telldir(dir);
        if ((int)L[nL].len > longest) longest = L[nL].len;
        nL++;
    }
    closedir(dir);
    if (!wasiInit(1, argv0, envp0) || !wasiFileDescriptorAdd(-1, dirA, &pre) || pre != 3) _exit(71);
    /* (1) the complete listing with "continue" */
    fd = openDir();
    for (calls = 0; calls < nL + 6; calls++) {
        int und; static U8 img[8192];
        U32 used = expectImage(cookie, img, &und, cks, &ncks);
        if (!oneCall(fd, cookie, calls, last, "continue*", cks, &ncks)) break;
        delivered += ncks;
        if (ncks) { cookie = cks[ncks - 1]; last = cookie; }
        if (used < bufLen) break;
        if (!ncks && bufLen >= 24u + longest) { fprintf(hx_out, "HARNESS-ERROR oracle made no progress\n"); fflush(hx_out); _exit(71); }
    }
    NS(nsE3, fd_close)(I, fd);
    if (!failed && bufLen >= 24u + longest && delivered != nL) { fprintf(hx_out, "HARNESS-ERROR oracle delivered %d of %d entries\n", delivered, nL); fflush(hx_out); _exit(71); }
    /* (2) every resume strategy of up to maxDepth calls */
    cookies[0] = 0;
    if (!failed) strategies(cookies, 1, maxDepth);
    fprintf(hx_out, "INFO sizes");
    for (i = 0; i < nL; i++) fprintf(hx_out, " %u", 24 + L[i].len);
    fprintf(hx_out, "\nS 0 fd_readdir 0 agrees=%d entries=%d buflen=%u full_listing_calls=%d strategies=%ld calls=%ld complete=%d\n", !failed, nL, bufLen, calls + 1, stratE3, callsE3,
            bufLen >= 24u + longest);
}

int main(int argc, char** argv) {
    if (argc > 1 && !strcmp(argv[1], "e1")) return hx_serve(e1);
    if (argc > 1 && !strcmp(argv[1], "e2")) return hx_serve(e2);
    if (argc > 1 && !strcmp(argv[1], "e3")) return hx_serve(e3);
    return 2;
}
