/* POSIX twin and reference constants.
 *
 * Everything numeric in this file is restated from the WASI documents (snapshot-preview1 and
 * snapshot-0 "wasi_unstable" witx/docs) and from POSIX; nothing is taken from /repo/wasi/wasi.h.
 * The twin executes the POSIX operation that corresponds to a WASI call on a sibling directory
 * of the same file system and returns the WASI errno that the call must produce.
 */
#ifndef TWIN_H
#define TWIN_H

#include <stdint.h>
#include <stdio.h>
#include <sys/types.h>

/* errno numbers (preview1 "errno" enum, identical in snapshot-0) */
enum {
    TW_SUCCESS = 0, TW_2BIG = 1, TW_ACCES = 2, TW_AGAIN = 6, TW_BADF = 8, TW_BUSY = 10, TW_CHILD = 12, TW_DOM = 18,
    TW_EXIST = 20, TW_FAULT = 21, TW_FBIG = 22, TW_INTR = 27, TW_INVAL = 28, TW_IO = 29, TW_ISDIR = 31, TW_LOOP = 32,
    TW_MFILE = 33, TW_MLINK = 34, TW_NAMETOOLONG = 37, TW_NFILE = 41, TW_NODEV = 43, TW_NOENT = 44, TW_NOEXEC = 45,
    TW_NOMEM = 48, TW_NOSPC = 51, TW_NOSYS = 52, TW_NOTDIR = 54, TW_NOTEMPTY = 55, TW_NOTSUP = 58, TW_NOTTY = 59,
    TW_NXIO = 60, TW_OVERFLOW = 61, TW_PERM = 63, TW_PIPE = 64, TW_RANGE = 68, TW_ROFS = 69, TW_SPIPE = 70, TW_SRCH = 71,
    TW_TXTBSY = 74, TW_XDEV = 75
};

/* oflags, fdflags, rights bits, file types, lookup flags */
#define TW_O_CREAT 1u
#define TW_O_DIRECTORY 2u
#define TW_O_EXCL 4u
#define TW_O_TRUNC 8u
#define TW_FDFLAG_APPEND 1u
#define TW_FDFLAG_SYNC 16u       /* fdflags: append 1, dsync 2, nonblock 4, rsync 8, sync 16 (witx) */
#define TW_RIGHT_FD_READ (1ull << 1)
#define TW_RIGHT_FD_SEEK (1ull << 2)
#define TW_RIGHT_FD_TELL (1ull << 5)
#define TW_RIGHT_FD_WRITE (1ull << 6)
#define TW_RIGHT_FD_READDIR (1ull << 14)
#define TW_RIGHT_FD_FILESTAT_GET (1ull << 21)
#define TW_FT_UNKNOWN 0
#define TW_FT_BLOCK 1
#define TW_FT_CHAR 2
#define TW_FT_DIR 3
#define TW_FT_REG 4
#define TW_FT_LNK 7
#define TW_LOOKUP_SYMLINK_FOLLOW 1u

/* name spaces: 0 = wasi_snapshot_preview1, 1 = wasi_unstable (snapshot-0) */
/* filestat layouts: preview1 64 bytes {dev@0 ino@8 filetype@16 nlink u64@24 size@32 atim@40 mtim@48 ctim@56},
 *                   unstable 56 bytes {dev@0 ino@8 filetype@16 nlink u32@20 size@24 atim@32 mtim@40 ctim@48} */
typedef struct { uint32_t size, filetype, nlink, nlinkBytes, fsize, atim, mtim, ctim; } tw_statlayout;
extern const tw_statlayout tw_layout[2];

int tw_errno(int hostErrno);                 /* POSIX errno -> WASI errno */
int tw_whence(int ns, uint32_t wasiWhence);  /* -> SEEK_SET/CUR/END or -1 (invalid) */
int tw_filetype(mode_t mode);
int tw_openflags(uint32_t oflags, uint32_t fdflags, int rights /* 1 R, 2 W, 3 RW */);
uint64_t tw_rights(int rights);              /* rights word a guest passes for R / W / RW */

/* canonical description of a file's contents, sparse-aware: "<size>:<off>=<hex>,..." or "absent" / "dir" */
void tw_file_canon(const char* path, char* out, size_t cap);
/* canonical description of a directory tree (names, types, sizes, link targets; base prefix replaced by '@') */
void tw_tree_canon(const char* root, char* out, size_t cap);

#endif
