/* C07 E1: drives the REAL constant reader (wasmConstInstructionRead: leb128.h / buffer.h) and the REAL literal
 * writer (static wasmCWriteLiteral in c.c, stringbuilder.c) over ranges of bit patterns and evaluates the emitted
 * C literal with an own evaluator that mirrors C's rules for the literal forms used.
 * Built as: gcc -I$REPO/w2c2 <W2C2 defs> harness/c07_lit.c <objects of the translator except c.o, main.o>
 * usage: c07_lit f32|i32 LO HI            all patterns in [LO,HI)
 *        c07_lit f32q                      quick f32 set (all sign/exponent x structured significands)
 *        c07_lit f64|i64                   class-structured 64-bit sets
 */
#include "c.c"
#include <stdio.h>
#include <stdlib.h>
#include <string.h>
#include <ctype.h>

static unsigned long long n_eval, n_bad, n_nonint;

/* own canonical signed LEB128 */
static size_t enc_sleb(unsigned char *o, long long v) {
    size_t n = 0;
    for (;;) {
        unsigned char b = (unsigned char)(v & 0x7f); long long rest = v >> 7; /* arithmetic shift on gcc/clang */
        if ((rest == 0 && !(b & 0x40)) || (rest == -1 && (b & 0x40))) { o[n++] = b; return n; }
        o[n++] = b | 0x80; v = rest;
    }
}

/* evaluate literal text as C would for an assignment to a variable of the given type; returns bits */
static int eval_literal(const char *t, int type, unsigned long long *out) {
    int neg = 0; const char *p = t;
    if (type == 'i' || type == 'I') {
        unsigned long long d; char *end;
        if (type == 'I') { if (strncmp(p, "W2C2_LL(", 8) != 0) return 0; p += 8; }
        if (*p == '-') { neg = 1; p++; }
        if (!isdigit((unsigned char)*p)) return 0;
        d = strtoull(p, &end, 10);
        if (*end != 'U') return 0; end++;
        if (type == 'I') { if (*end != ')') return 0; end++; }
        if (*end) return 0;
        if (type == 'i') {
            /* <d>U : unsigned int if it fits, else unsigned long (64 bit); negation in that type, then conversion to U32 */
            *out = (neg ? (0ull - d) : d) & 0xffffffffull;
        } else *out = neg ? (0ull - d) : d; /* <d>Ull */
        return 1;
    }
    if (!strncmp(p, "f32_reinterpret_i32(0x", 22) && type == 'f') { char *end; unsigned long long b = strtoull(p + 22, &end, 16); if (strcmp(end, ")")) return 0; if (b > 0xffffffffull) return 0; *out = b; return 1; }
    if (!strncmp(p, "f64_reinterpret_i64(0x", 22) && type == 'F') { char *end; unsigned long long b = strtoull(p + 22, &end, 16); if (strcmp(end, ")")) return 0; *out = b; return 1; }
    if (*p == '-') { neg = 1; p++; }
    {
        double dv; float fv; int isflt = 0;
        if (!strcmp(p, "INFINITY")) { fv = (float)(1.0 / 0.0); isflt = 1; }
        else if (!strcmp(p, "0.f")) { fv = 0.0f; isflt = 1; }
        else {
            const char *q; int integer = 1; char *end;
            for (q = p; *q; q++) if (!isdigit((unsigned char)*q)) integer = 0;
            if (!*p) return 0;
            if (integer) { long long iv = strtoll(p, &end, 10); if (*end) return 0; if (neg) iv = -iv; neg = 0;
                           if (type == 'f') { fv = (float)iv; isflt = 1; } else { dv = (double)iv; } }
            else { dv = strtod(p, &end); if (*end || end == p) return 0; }
        }
        if (isflt) { if (neg) fv = -fv; if (type == 'f') { unsigned int b; memcpy(&b, &fv, 4); *out = b; } else { dv = (double)fv; memcpy(out, &dv, 8); } return 1; }
        if (neg) dv = -dv;
        if (type == 'f') { unsigned int b; fv = (float)dv; memcpy(&b, &fv, 4); *out = b; } else memcpy(out, &dv, 8);
        return 1;
    }
}

static StringBuilder sb;

static void one(int type, unsigned long long bits) {
    unsigned char code[16]; size_t n = 0; Buffer buf; WasmConstInstruction ins; WasmOpcode op; WasmValueType vt; unsigned long long got = 0; int ok;
    memset(&ins, 0, sizeof ins);
    switch (type) {
        case 'i': op = wasmOpcodeI32Const; vt = wasmValueTypeI32; n = enc_sleb(code, (long long)(int)(unsigned int)bits); break;
        case 'I': op = wasmOpcodeI64Const; vt = wasmValueTypeI64; n = enc_sleb(code, (long long)bits); break;
        case 'f': op = wasmOpcodeF32Const; vt = wasmValueTypeF32; { int k; for (k = 0; k < 4; k++) code[k] = (unsigned char)(bits >> (8 * k)); n = 4; } break;
        default:  op = wasmOpcodeF64Const; vt = wasmValueTypeF64; { int k; for (k = 0; k < 8; k++) code[k] = (unsigned char)(bits >> (8 * k)); n = 8; } break;
    }
    buf.data = code; buf.length = n;
    n_eval++;
    if (!wasmConstInstructionRead(&buf, op, &ins) || buf.length != 0) { n_bad++; if (n_bad < 20) printf("LITMISMATCH type=%c bits=%llx text=<reader rejected or did not consume the immediate>\n", type, bits); return; }
    sb.length = 0; if (sb.string) sb.string[0] = 0;
    if (!wasmCWriteLiteral(&sb, vt, ins.value)) { n_bad++; if (n_bad < 20) printf("LITMISMATCH type=%c bits=%llx text=<writer failed>\n", type, bits); return; }
    ok = eval_literal(sb.string, type, &got);
#ifdef C07_BE_FORCED
    /* forced big-endian translator on a little-endian host: the float immediate reader must apply exactly one byte
     * reversal of the immediate's width; integer immediates (LEB128) are unaffected */
    if (type == 'f') bits = (unsigned long long)__builtin_bswap32((unsigned int)bits);
    else if (type == 'F') bits = __builtin_bswap64(bits);
#endif
    if (strpbrk(sb.string, ".eIr-")) n_nonint++;
    if (!ok || got != bits) { n_bad++; if (n_bad < 20) printf("LITMISMATCH type=%c bits=%llx text=%s evaluates=%llx%s\n", type, bits, sb.string, got, ok ? "" : " (unparsable)"); }
}

static const unsigned long long *sig_patterns(int width, int *count) {
    static unsigned long long p[600]; int n = 0, k; unsigned long long all = (width == 64) ? ~0ull : ((1ull << width) - 1);
    p[n++] = 0; p[n++] = all;
    for (k = 0; k < width; k++) { p[n++] = 1ull << k; p[n++] = (all >> k) & all; p[n++] = (all << k) & all; p[n++] = (~(1ull << k)) & all; }
    p[n++] = 0x5555555555555555ull & all; p[n++] = 0xaaaaaaaaaaaaaaaaull & all; p[n++] = 0x123456789abcdefull & all;
    if (width == 52) for (k = 0; k < 29; k++) { p[n++] = ((1ull << k) | 1) << 23; p[n++] = (all >> 29 << 29) ^ (1ull << (23 + k)); p[n++] = (1ull << k) | (1ull << 51); }
    *count = n; return p;
}

int main(int argc, char **argv) {
    if (argc < 2) return 2;
    if (!strcmp(argv[1], "f32") || !strcmp(argv[1], "i32")) {
        unsigned long long lo = strtoull(argv[2], NULL, 0), hi = strtoull(argv[3], NULL, 0), x; int t = argv[1][0];
        for (x = lo; x < hi; x++) one(t, x);
    } else if (!strcmp(argv[1], "f32q")) {
        unsigned long long se, s; int cnt, k; const unsigned long long *p = sig_patterns(23, &cnt);
        for (se = 0; se < 512; se++) {
            for (s = 0; s < (1u << 12); s++) { one('f', (se << 23) | s); one('f', (se << 23) | (s << 11)); }
            for (k = 0; k < cnt; k++) one('f', (se << 23) | p[k]);
        }
    } else if (!strcmp(argv[1], "i32q")) {
        unsigned long long x; int k;
        for (x = 0; x < (1u << 16); x++) { one('i', x); one('i', 0xffffffffull - x); one('i', (0x80000000ull + x) & 0xffffffffull); one('i', (0x80000000ull - x) & 0xffffffffull); one('i', (x << 16) & 0xffffffffull); }
        for (k = 0; k < 32; k++) { one('i', 1ull << k); one('i', (1ull << k) - 1); one('i', (0ull - (1ull << k)) & 0xffffffffull); }
    } else if (!strcmp(argv[1], "f64")) {
        unsigned long long se; int cnt, k; const unsigned long long *p = sig_patterns(52, &cnt);
        for (se = 0; se < 4096; se++) for (k = 0; k < cnt; k++) one('F', (se << 52) | p[k]);
    } else if (!strcmp(argv[1], "i64")) {
        int cnt, k, j; const unsigned long long *p = sig_patterns(64, &cnt);
        for (k = 0; k < cnt; k++) for (j = -2; j <= 2; j++) { one('I', p[k] + (unsigned long long)j); one('I', 0ull - p[k] + (unsigned long long)j); }
        { unsigned long long x; for (x = 0; x < (1u << 16); x++) { one('I', x); one('I', 0ull - x); one('I', 0x8000000000000000ull + x); one('I', 0x8000000000000000ull - x); one('I', x << 48); one('I', (x << 32) | x); } }
    } else return 2;
    printf("LITDONE evals=%llu bad=%llu nonint=%llu\n", n_eval, n_bad, n_nonint);
    return n_bad ? 1 : 0;
}
