/* forces the portable fallbacks of CLZ/CTZ/POPCNT in w2c2_base.h (compilers without __has_builtin) */
#ifdef __has_builtin
#undef __has_builtin
#endif
#define __has_builtin(x) 0
