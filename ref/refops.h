/* refops: WebAssembly numeric instructions on bit patterns.
 * Own code, deliberately boring.  Does NOT include anything from /repo.
 * Float operations other than + - * / sqrt are done in integer arithmetic on the IEEE encodings. */
#ifndef REFOPS_H
#define REFOPS_H
#include <stdint.h>

/* trap codes in the reference's own numbering (the spec's trap *kinds*) */
enum { RT_NONE = 0, RT_UNREACHABLE = 1, RT_DIV_ZERO = 2, RT_INT_OVERFLOW = 3, RT_INVALID_CONV = 4,
       RT_OOB = 5, RT_UNINIT_ELEM = 6, RT_SIG_MISMATCH = 7, RT_UNALIGNED = 8, RT_EXHAUSTED = 9,
       RT_FUEL = 10, RT_UNSUPPORTED = 11, RT_WOULD_BLOCK = 12, RT_NOT_SHARED = 13 };

/* value types */
enum { VT_I32 = 0x7f, VT_I64 = 0x7e, VT_F32 = 0x7d, VT_F64 = 0x7c };

/* nondeterminism level of a value: 0 exact; 1 a NaN whose sign/payload the spec leaves open;
 * 2 unknown */
typedef struct { uint64_t bits; uint8_t type; uint8_t nd; } rval;

/* Evaluate a plain numeric opcode (0x45..0xC4) or a saturating truncation (0xFC00..0xFC07,
 * passed as 0xFC00|sub).  a is the first (deeper) operand, b the second.  Returns trap code. */
int refop_eval(uint32_t opcode, rval a, rval b, rval *out);
/* number of operands (1 or 2), operand types and result type of a numeric opcode; 0 if not numeric */
int refop_arity(uint32_t opcode, uint8_t *ta, uint8_t *tb, uint8_t *tr);

static inline int rf32_isnan(uint32_t b) { return (b & 0x7fffffffu) > 0x7f800000u; }
static inline int rf64_isnan(uint64_t b) { return (b & 0x7fffffffffffffffull) > 0x7ff0000000000000ull; }

#endif
