/* forces the portable mask-and-shift byte-swap macros of w2c2_base.h (compilers that are neither clang nor GCC >= 4.8 nor Apple's):
 * every system header the generated code, the runtime header and the lockstep driver use is included first, then the compiler
 * identification macros that select the builtins are taken away */
#include <assert.h>
#include <errno.h>
#include <float.h>
#include <limits.h>
#include <malloc.h>
#include <math.h>
#include <pthread.h>
#include <setjmp.h>
#include <signal.h>
#include <stdarg.h>
#include <stddef.h>
#include <stdint.h>
#include <stdio.h>
#include <stdlib.h>
#include <string.h>
#include <time.h>
#include <unistd.h>
#include <sys/time.h>
#undef __GNUC__
#undef __GNUC_MINOR__
#undef __clang__
