/* selftest — replays spec-suite command scripts (converted from tests/gen/<x>.json by lib/spec2script.py)
 * on libwasmref.  Binds the oracle to the official test-suite.  Uses test DATA only, no translator code.
 *
 * script lines:
 *   module <idx> <path>
 *   uninstantiable <path>
 *   register <idx> <name>
 *   invoke <idx> <field-hex> <nargs> <t:bits>... ret <n> <t:bits|t:nan:canonical|t:nan:arithmetic>...
 *   invoke ... trap
 *   invoke ... action
 *   invoke ... exhaustion
 *   get <idx> <field-hex> ret 1 <t:bits>
 */
#include "wasmref.h"
#include <stdio.h>
#include <stdlib.h>
#include <string.h>

#define MAXI 4096
static wr_module *mods[MAXI]; static wr_instance *insts[MAXI];
static struct { char name[128]; int idx; } regs[64]; static int nregs;

static wr_memory *st_mem; static wr_table *st_tab; static wr_global *st_g32, *st_g64, *st_gf32, *st_gf64;

static int find_reg(const char *mod) { int k; for (k = 0; k < nregs; k++) if (!strcmp(regs[k].name, mod)) return regs[k].idx; return -1; }

static int host_call(void *ctx, wr_instance *in, uint32_t idx, const rval *args, uint32_t nargs, rval *res) {
    (void)ctx; (void)in; (void)idx; (void)args; (void)nargs; (void)res; return RT_NONE; /* spectest.print* */
}
static wr_memory *res_mem(void *ctx, const char *mod, const char *name) {
    int r; uint32_t ix; (void)ctx;
    if (!strcmp(mod, "spectest")) return st_mem;
    r = find_reg(mod); if (r >= 0 && wr_find_export(mods[r], name, 2, &ix)) return insts[r]->mems[ix];
    return NULL;
}
static wr_table *res_tab(void *ctx, const char *mod, const char *name) {
    int r; uint32_t ix; (void)ctx;
    if (!strcmp(mod, "spectest")) return st_tab;
    r = find_reg(mod); if (r >= 0 && wr_find_export(mods[r], name, 1, &ix)) return insts[r]->tables[ix];
    return NULL;
}
static wr_global *res_glob(void *ctx, const char *mod, const char *name) {
    int r; uint32_t ix; (void)ctx;
    if (!strcmp(mod, "spectest")) {
        if (!strcmp(name, "global_i32")) return st_g32; if (!strcmp(name, "global_i64")) return st_g64;
        if (!strcmp(name, "global_f32")) return st_gf32; if (!strcmp(name, "global_f64")) return st_gf64;
        return NULL;
    }
    r = find_reg(mod); if (r >= 0 && wr_find_export(mods[r], name, 3, &ix)) return insts[r]->globals[ix];
    return NULL;
}
static int res_func(void *ctx, const char *mod, const char *name, wr_instance **owner, uint32_t *func) {
    int r; uint32_t ix; (void)ctx;
    r = find_reg(mod); if (r >= 0 && wr_find_export(mods[r], name, 0, &ix)) {
        if (ix < mods[r]->nfuncimports && insts[r]->fowner[ix]) { *owner = insts[r]->fowner[ix]; *func = insts[r]->ffunc[ix]; }
        else { *owner = insts[r]; *func = ix; }
        return 1; }
    return 0;
}

static uint8_t *slurp(const char *p, size_t *n) {
    FILE *f = fopen(p, "rb"); uint8_t *b; long sz;
    if (!f) return NULL; fseek(f, 0, SEEK_END); sz = ftell(f); fseek(f, 0, SEEK_SET);
    b = (uint8_t *)malloc((size_t)sz + 1); if (fread(b, 1, (size_t)sz, f) != (size_t)sz) { fclose(f); free(b); return NULL; }
    fclose(f); *n = (size_t)sz; return b;
}
static void unhex(const char *h, char *out) { size_t n = strlen(h) / 2, k; for (k = 0; k < n; k++) { unsigned v; sscanf(h + 2 * k, "%2x", &v); out[k] = (char)v; } out[n] = 0; }
static uint8_t tcode(const char *t) { return !strncmp(t, "i32", 3) ? VT_I32 : !strncmp(t, "i64", 3) ? VT_I64 : !strncmp(t, "f32", 3) ? VT_F32 : VT_F64; }

int main(int argc, char **argv) {
    FILE *f; char line[1 << 16]; int pass = 0, fail = 0, skipped = 0, weak = 0; wr_env env; const char *dir;
    if (argc < 3) { fprintf(stderr, "usage: selftest SCRIPT WASMDIR\n"); return 2; }
    dir = argv[2];
    f = fopen(argv[1], "r"); if (!f) { perror(argv[1]); return 2; }
    memset(&env, 0, sizeof env);
    env.host_call = host_call; env.resolve_memory = res_mem; env.resolve_table = res_tab; env.resolve_global = res_glob; env.resolve_func = res_func;
    st_mem = wr_memory_new(1, 2, 1, 0); st_tab = wr_table_new(10, 20, 1);
    st_g32 = wr_global_new(VT_I32, 666, 0); st_g64 = wr_global_new(VT_I64, 666, 0);
    st_gf32 = wr_global_new(VT_F32, 0x4426a666u /* 666.6f */, 0); st_gf64 = wr_global_new(VT_F64, 0x4084d4cccccccccdull /* 666.6 */, 0);
    while (fgets(line, sizeof line, f)) {
        char *tok = strtok(line, " \n");
        if (!tok) continue;
        if (!strcmp(tok, "module") || !strcmp(tok, "uninstantiable")) {
            int un = tok[0] == 'u'; int idx = un ? MAXI - 1 : atoi(strtok(NULL, " \n")); char *p = strtok(NULL, " \n"); char path[4096], err[128]; size_t n; uint8_t *b;
            snprintf(path, sizeof path, "%s/%s", dir, p);
            b = slurp(path, &n); if (!b) { fprintf(stderr, "cannot read %s\n", path); return 2; }
            mods[idx] = wr_load(b, n, err, sizeof err); free(b);
            if (!mods[idx]) { printf("FAIL load %s: %s\n", p, err); fail++; insts[idx] = NULL; continue; }
            insts[idx] = wr_instantiate(mods[idx], &env);
            if (un) { if (insts[idx]->start_trap) pass++; else { printf("FAIL %s should not instantiate\n", p); fail++; } }
            else if (insts[idx]->start_trap) { printf("FAIL instantiate %s: %s\n", p, wr_trap_name(insts[idx]->start_trap)); fail++; }
        } else if (!strcmp(tok, "register")) {
            int idx = atoi(strtok(NULL, " \n")); char *nm = strtok(NULL, " \n"); strncpy(regs[nregs].name, nm, 127); regs[nregs].idx = idx; nregs++;
        } else if (!strcmp(tok, "invoke") || !strcmp(tok, "get")) {
            int isget = tok[0] == 'g'; int idx = atoi(strtok(NULL, " \n")); char field[8192]; uint32_t fi; rval args[64], res; int nargs = 0, k, t; char *kind;
            char desc[256];
            unhex(strtok(NULL, " \n"), field);
            snprintf(desc, sizeof desc, "%s[%d].%s", argv[1], idx, field);
            if (!isget) { nargs = atoi(strtok(NULL, " \n")); for (k = 0; k < nargs; k++) { char *a = strtok(NULL, " \n"); args[k].type = tcode(a); args[k].nd = 0; args[k].bits = strtoull(a + 4, NULL, 10); } }
            kind = strtok(NULL, " \n");
            if (!insts[idx] || !mods[idx]) { skipped++; continue; }
            memset(&res, 0, sizeof res);
            if (isget) {
                if (!wr_find_export(mods[idx], field, 3, &fi)) { printf("FAIL %s: no such global\n", desc); fail++; continue; }
                res = insts[idx]->globals[fi]->v; t = 0;
            } else {
                if (!wr_find_export(mods[idx], field, 0, &fi)) { printf("FAIL %s: no such export\n", desc); fail++; continue; }
                insts[idx]->tainted = 0;
                if (fi < mods[idx]->nfuncimports && insts[idx]->fowner[fi]) t = wr_call(insts[idx]->fowner[fi], insts[idx]->ffunc[fi], args, (uint32_t)nargs, &res);
                else t = wr_call(insts[idx], fi, args, (uint32_t)nargs, &res);
            }
            if (!strcmp(kind, "action")) { if (t) { printf("FAIL %s: action trapped %s\n", desc, wr_trap_name(t)); fail++; } else pass++; }
            else if (!strcmp(kind, "trap")) { if (t && t != RT_FUEL && t != RT_UNSUPPORTED && t != RT_EXHAUSTED) pass++; else { printf("FAIL %s: expected trap, got %s\n", desc, wr_trap_name(t)); fail++; } }
            else if (!strcmp(kind, "exhaustion")) { if (t == RT_EXHAUSTED || t == RT_FUEL) pass++; else { printf("FAIL %s: expected exhaustion, got %s\n", desc, wr_trap_name(t)); fail++; } }
            else {
                int nres = atoi(strtok(NULL, " \n"));
                if (t) { printf("FAIL %s: unexpected trap %s\n", desc, wr_trap_name(t)); fail++; continue; }
                if (nres == 0) { pass++; continue; }
                { char *e = strtok(NULL, " \n"); uint8_t et = tcode(e); int ok;
                  if (!strncmp(e + 4, "nan:", 4)) {
                      int isnan = et == VT_F32 ? rf32_isnan((uint32_t)res.bits) : rf64_isnan(res.bits);
                      ok = (res.nd == 1 || (res.nd == 0 && isnan));
                      if (res.nd == 0 && isnan && !strcmp(e + 8, "canonical")) ok = et == VT_F32 ? ((res.bits & 0x7fffffffu) == 0x7fc00000u) : ((res.bits & 0x7fffffffffffffffull) == 0x7ff8000000000000ull);
                  } else {
                      uint64_t eb = strtoull(e + 4, NULL, 10);
                      ok = (res.nd == 0 && res.bits == eb && res.type == et);
                  }
                  if (res.nd == 2) { weak++; continue; }
                  if (ok) pass++; else { printf("FAIL %s: expected %s got %02x:%llu nd=%d\n", desc, e, res.type, (unsigned long long)res.bits, res.nd); fail++; } }
            }
        }
    }
    printf("selftest %s: pass=%d fail=%d skipped=%d weak=%d\n", argv[1], pass, fail, skipped, weak);
    return fail ? 1 : 0;
}
