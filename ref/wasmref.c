/* wasmref.c — reference interpreter.  See wasmref.h. */
#include "wasmref.h"
#include <stdio.h>
#include <stdlib.h>
#include <string.h>
#include <setjmp.h>

/* ------------------------------------------------------------------ decoding */
typedef struct rd { const uint8_t *p, *end; int bad; } rd;

static uint8_t rd_u8(rd *r) { if (r->p >= r->end) { r->bad = 1; return 0; } return *r->p++; }
static uint64_t rd_uleb(rd *r, int maxbits) {
    uint64_t v = 0; int shift = 0;
    for (;;) {
        uint8_t b = rd_u8(r); if (r->bad) return 0;
        v |= (uint64_t)(b & 0x7f) << shift; shift += 7;
        if (!(b & 0x80)) break;
        if (shift >= maxbits + 7) { r->bad = 1; return 0; }
    }
    return v;
}
static int64_t rd_sleb(rd *r, int maxbits) {
    uint64_t v = 0; int shift = 0; uint8_t b;
    for (;;) {
        b = rd_u8(r); if (r->bad) return 0;
        v |= (uint64_t)(b & 0x7f) << shift; shift += 7;
        if (!(b & 0x80)) break;
        if (shift >= maxbits + 7) { r->bad = 1; return 0; }
    }
    if (shift < 64 && (b & 0x40)) v |= ~0ull << shift;
    return (int64_t)v;
}
static uint32_t rd_u32(rd *r) { return (uint32_t)rd_uleb(r, 32); }
static void rd_skip(rd *r, size_t n) { if ((size_t)(r->end - r->p) < n) { r->bad = 1; return; } r->p += n; }
static char *rd_name(rd *r, uint32_t *len) {
    uint32_t n = rd_u32(r); char *s;
    if (r->bad || (size_t)(r->end - r->p) < n) { r->bad = 1; return NULL; }
    s = (char *)malloc(n + 1); memcpy(s, r->p, n); s[n] = 0; r->p += n; if (len) *len = n; return s;
}
static wr_limits rd_limits(rd *r) {
    wr_limits l; uint8_t f = rd_u8(r); memset(&l, 0, sizeof l);
    l.hasmax = f & 1; l.shared = (f & 2) != 0; l.min = rd_u32(r); if (l.hasmax) l.max = rd_u32(r);
    return l;
}
static wr_constexpr rd_constexpr(rd *r) {
    wr_constexpr c; memset(&c, 0, sizeof c); c.op = rd_u8(r);
    switch (c.op) {
        case 0x41: c.bits = (uint32_t)rd_sleb(r, 32); break;
        case 0x42: c.bits = (uint64_t)rd_sleb(r, 64); break;
        case 0x43: { uint32_t v = 0; int k; for (k = 0; k < 4; k++) v |= (uint32_t)rd_u8(r) << (8 * k); c.bits = v; break; }
        case 0x44: { uint64_t v = 0; int k; for (k = 0; k < 8; k++) v |= (uint64_t)rd_u8(r) << (8 * k); c.bits = v; break; }
        case 0x23: c.index = rd_u32(r); break;
        case 0xd2: c.index = rd_u32(r); break; /* ref.func (only inside element expressions) */
        case 0xd0: (void)rd_u8(r); c.index = 0xffffffffu; break; /* ref.null */
        default: r->bad = 1;
    }
    if (rd_u8(r) != 0x0b) r->bad = 1;
    return c;
}

/* length of the immediates of the instruction whose opcode byte was just read; also reports block structure */
static void skip_immediates(rd *r, uint8_t op) {
    switch (op) {
        case 0x02: case 0x03: case 0x04: (void)rd_sleb(r, 33); break;
        case 0x0c: case 0x0d: (void)rd_u32(r); break;
        case 0x0e: { uint32_t n = rd_u32(r), k; for (k = 0; k <= n && !r->bad; k++) (void)rd_u32(r); break; }
        case 0x10: (void)rd_u32(r); break;
        case 0x11: (void)rd_u32(r); (void)rd_u32(r); break;
        case 0x1c: { uint32_t n = rd_u32(r), k; for (k = 0; k < n && !r->bad; k++) (void)rd_u8(r); break; }
        case 0x20: case 0x21: case 0x22: case 0x23: case 0x24: (void)rd_u32(r); break;
        case 0x3f: case 0x40: (void)rd_u8(r); break;
        case 0x41: (void)rd_sleb(r, 32); break;
        case 0x42: (void)rd_sleb(r, 64); break;
        case 0x43: rd_skip(r, 4); break;
        case 0x44: rd_skip(r, 8); break;
        case 0xfc: {
            uint32_t s = rd_u32(r);
            switch (s) {
                case 8: (void)rd_u32(r); (void)rd_u8(r); break;      /* memory.init seg mem */
                case 9: (void)rd_u32(r); break;                       /* data.drop */
                case 10: (void)rd_u8(r); (void)rd_u8(r); break;       /* memory.copy */
                case 11: (void)rd_u8(r); break;                       /* memory.fill */
                case 12: (void)rd_u32(r); (void)rd_u32(r); break;     /* table.init */
                case 13: (void)rd_u32(r); break;
                case 14: (void)rd_u32(r); (void)rd_u32(r); break;
                case 15: case 16: case 17: (void)rd_u32(r); break;
                default: break;
            }
            break; }
        case 0xfe: {
            uint32_t s = rd_u32(r);
            if (s == 3) (void)rd_u8(r); else { (void)rd_u32(r); (void)rd_u32(r); }
            break; }
        default:
            if (op >= 0x28 && op <= 0x3e) { (void)rd_u32(r); (void)rd_u32(r); }
            break;
    }
}

static int build_control_map(wr_code *c) {
    rd r; uint32_t *stack; uint32_t sp = 0; uint32_t cap = 64;
    r.p = c->body; r.end = c->body + c->len; r.bad = 0;
    c->ctl_end = (uint32_t *)calloc(c->len + 1, sizeof(uint32_t));
    c->ctl_else = (uint32_t *)calloc(c->len + 1, sizeof(uint32_t));
    stack = (uint32_t *)malloc(cap * sizeof(uint32_t));
    while (r.p < r.end && !r.bad) {
        uint32_t pc = (uint32_t)(r.p - c->body);
        uint8_t op = rd_u8(&r);
        if (op == 0x02 || op == 0x03 || op == 0x04) {
            if (sp == cap) { cap *= 2; stack = (uint32_t *)realloc(stack, cap * sizeof(uint32_t)); }
            stack[sp++] = pc;
        } else if (op == 0x05) {
            if (!sp) { r.bad = 1; break; }
            c->ctl_else[stack[sp - 1]] = pc;
        } else if (op == 0x0b) {
            if (sp) { c->ctl_end[stack[sp - 1]] = pc; sp--; }
            else if (r.p != r.end) { r.bad = 1; break; }
        }
        skip_immediates(&r, op);
    }
    free(stack);
    return !r.bad && sp == 0;
}

static void seterr(char *err, size_t n, const char *msg) { if (err && n) { strncpy(err, msg, n - 1); err[n - 1] = 0; } }

wr_module *wr_load(const uint8_t *bytes, size_t n, char *err, size_t errlen) {
    wr_module *m = (wr_module *)calloc(1, sizeof *m);
    rd r; uint32_t ndeclfuncs = 0; uint32_t *declared = NULL; uint32_t k;
    m->bytes = (uint8_t *)malloc(n ? n : 1); memcpy(m->bytes, bytes, n); m->nbytes = n;
    r.p = m->bytes; r.end = m->bytes + n; r.bad = 0;
    if (n < 8 || memcmp(m->bytes, "\0asm\1\0\0\0", 8) != 0) { seterr(err, errlen, "bad header"); goto fail; }
    r.p += 8;
    while (r.p < r.end && !r.bad) {
        uint8_t id = rd_u8(&r); uint32_t size = rd_u32(&r); rd s;
        if (r.bad || (size_t)(r.end - r.p) < size) { seterr(err, errlen, "bad section size"); goto fail; }
        s.p = r.p; s.end = r.p + size; s.bad = 0; r.p += size;
        switch (id) {
        case 0: break;
        case 1: {
            m->ntypes = rd_u32(&s); m->types = (wr_functype *)calloc(m->ntypes + 1, sizeof(wr_functype));
            for (k = 0; k < m->ntypes && !s.bad; k++) {
                wr_functype *t = &m->types[k]; uint32_t j;
                if (rd_u8(&s) != 0x60) { s.bad = 1; break; }
                t->np = rd_u32(&s); if (s.bad || t->np > (uint32_t)(s.end - s.p)) { s.bad = 1; break; }
                t->params = (uint8_t *)malloc(t->np + 1); for (j = 0; j < t->np; j++) t->params[j] = rd_u8(&s);
                t->nr = rd_u32(&s); if (s.bad || t->nr > (uint32_t)(s.end - s.p)) { s.bad = 1; break; }
                t->results = (uint8_t *)malloc(t->nr + 1); for (j = 0; j < t->nr; j++) t->results[j] = rd_u8(&s);
            }
            break; }
        case 2: {
            m->nimports = rd_u32(&s); m->imports = (wr_import *)calloc(m->nimports + 1, sizeof(wr_import));
            for (k = 0; k < m->nimports && !s.bad; k++) {
                wr_import *im = &m->imports[k];
                im->mod = rd_name(&s, &im->modlen); im->name = rd_name(&s, &im->namelen); im->kind = rd_u8(&s);
                switch (im->kind) {
                    case 0: im->typeidx = rd_u32(&s); m->nfuncimports++; break;
                    case 1: (void)rd_u8(&s); im->lim = rd_limits(&s); m->ntableimports++; break;
                    case 2: im->lim = rd_limits(&s); m->nmemimports++; break;
                    case 3: im->gtype = rd_u8(&s); im->gmut = rd_u8(&s); m->nglobalimports++; break;
                    default: s.bad = 1;
                }
            }
            break; }
        case 3: {
            ndeclfuncs = rd_u32(&s); declared = (uint32_t *)calloc(ndeclfuncs + 1, sizeof(uint32_t));
            for (k = 0; k < ndeclfuncs && !s.bad; k++) declared[k] = rd_u32(&s);
            break; }
        case 4: {
            uint32_t cnt = rd_u32(&s);
            m->tables = (wr_limits *)realloc(m->tables, (m->ntableimports + cnt + 1) * sizeof(wr_limits));
            m->ntables = m->ntableimports;
            for (k = 0; k < cnt && !s.bad; k++) { (void)rd_u8(&s); m->tables[m->ntables++] = rd_limits(&s); }
            break; }
        case 5: {
            uint32_t cnt = rd_u32(&s);
            m->mems = (wr_limits *)realloc(m->mems, (m->nmemimports + cnt + 1) * sizeof(wr_limits));
            m->nmems = m->nmemimports;
            for (k = 0; k < cnt && !s.bad; k++) m->mems[m->nmems++] = rd_limits(&s);
            break; }
        case 6: {
            uint32_t cnt = rd_u32(&s);
            m->globals = (wr_globaldef *)realloc(m->globals, (m->nglobalimports + cnt + 1) * sizeof(wr_globaldef));
            m->nglobals = m->nglobalimports;
            for (k = 0; k < cnt && !s.bad; k++) { wr_globaldef g; g.type = rd_u8(&s); g.mut = rd_u8(&s); g.init = rd_constexpr(&s); m->globals[m->nglobals++] = g; }
            break; }
        case 7: {
            m->nexports = rd_u32(&s); m->exports = (wr_export *)calloc(m->nexports + 1, sizeof(wr_export));
            for (k = 0; k < m->nexports && !s.bad; k++) { wr_export *e = &m->exports[k]; e->name = rd_name(&s, &e->namelen); e->kind = rd_u8(&s); e->index = rd_u32(&s); }
            break; }
        case 8: m->has_start = 1; m->start = rd_u32(&s); break;
        case 9: {
            m->nelems = rd_u32(&s); m->elems = (wr_elem *)calloc(m->nelems + 1, sizeof(wr_elem));
            for (k = 0; k < m->nelems && !s.bad; k++) {
                wr_elem *e = &m->elems[k]; uint32_t flag = rd_u32(&s), j; int exprs = (flag & 4) != 0;
                e->mode = (flag & 1) ? ((flag & 2) ? 2 : 1) : 0; /* 2 = declarative */
                if (!(flag & 1)) { if (flag & 2) e->table = rd_u32(&s); e->off = rd_constexpr(&s); }
                if (flag & 3) (void)rd_u8(&s); /* elemkind / reftype */
                e->n = rd_u32(&s); if (s.bad || e->n > (uint32_t)(s.end - s.p)) { s.bad = 1; break; }
                e->funcs = (uint32_t *)calloc(e->n + 1, sizeof(uint32_t));
                for (j = 0; j < e->n && !s.bad; j++) e->funcs[j] = exprs ? rd_constexpr(&s).index : rd_u32(&s);
            }
            break; }
        case 10: {
            uint32_t cnt = rd_u32(&s);
            if (cnt != ndeclfuncs) { s.bad = 1; break; }
            m->code = (wr_code *)calloc(cnt + 1, sizeof(wr_code));
            for (k = 0; k < cnt && !s.bad; k++) {
                wr_code *c = &m->code[k]; uint32_t size2 = rd_u32(&s); rd b; uint32_t ngroups, g, total = 0;
                const wr_functype *ft;
                if (s.bad || (size_t)(s.end - s.p) < size2) { s.bad = 1; break; }
                b.p = s.p; b.end = s.p + size2; b.bad = 0; s.p += size2;
                if (declared[k] >= m->ntypes) { s.bad = 1; break; }
                ft = &m->types[declared[k]];
                ngroups = rd_u32(&b);
                { /* two passes over the local groups */
                    rd b2 = b; uint64_t sum = 0;
                    for (g = 0; g < ngroups && !b2.bad; g++) { sum += rd_u32(&b2); (void)rd_u8(&b2); }
                    if (b2.bad || sum > 1000000) { s.bad = 1; break; }
                    total = (uint32_t)sum;
                }
                c->nlocals = ft->np + total; c->ltypes = (uint8_t *)malloc(c->nlocals + 1);
                memcpy(c->ltypes, ft->params, ft->np);
                { uint32_t at = ft->np; for (g = 0; g < ngroups; g++) { uint32_t cnt2 = rd_u32(&b); uint8_t t = rd_u8(&b); while (cnt2--) c->ltypes[at++] = t; } }
                c->body = b.p; c->len = (uint32_t)(b.end - b.p);
                if (b.bad || !build_control_map(c)) { s.bad = 1; break; }
            }
            break; }
        case 11: {
            m->ndatas = rd_u32(&s); m->datas = (wr_data *)calloc(m->ndatas + 1, sizeof(wr_data));
            for (k = 0; k < m->ndatas && !s.bad; k++) {
                wr_data *d = &m->datas[k]; uint32_t flag = rd_u32(&s);
                d->mode = (flag & 1) ? 1 : 0;
                if (!(flag & 1)) { if (flag & 2) d->mem = rd_u32(&s); d->off = rd_constexpr(&s); }
                d->n = rd_u32(&s); if (s.bad || (size_t)(s.end - s.p) < d->n) { s.bad = 1; break; }
                d->bytes = s.p; s.p += d->n;
            }
            break; }
        case 12: m->has_datacount = 1; m->datacount = rd_u32(&s); break;
        default: s.bad = 1;
        }
        if (s.bad) { char b[64]; snprintf(b, sizeof b, "bad section %u", id); seterr(err, errlen, b); goto fail; }
        if (id != 0 && s.p != s.end) { char b[64]; snprintf(b, sizeof b, "section %u size mismatch", id); seterr(err, errlen, b); goto fail; }
    }
    if (r.bad) { seterr(err, errlen, "truncated"); goto fail; }
    /* function index space */
    m->nfuncs = m->nfuncimports + ndeclfuncs;
    m->functype = (uint32_t *)calloc(m->nfuncs + 1, sizeof(uint32_t));
    { uint32_t at = 0; for (k = 0; k < m->nimports; k++) if (m->imports[k].kind == 0) m->functype[at++] = m->imports[k].typeidx;
      for (k = 0; k < ndeclfuncs; k++) m->functype[at++] = declared[k]; }
    if (ndeclfuncs && !m->code) { seterr(err, errlen, "missing code section"); goto fail; }
    /* index spaces for imported tables/mems/globals */
    if (!m->tables) { m->tables = (wr_limits *)calloc(m->ntableimports + 1, sizeof(wr_limits)); m->ntables = m->ntableimports; }
    if (!m->mems) { m->mems = (wr_limits *)calloc(m->nmemimports + 1, sizeof(wr_limits)); m->nmems = m->nmemimports; }
    if (!m->globals) { m->globals = (wr_globaldef *)calloc(m->nglobalimports + 1, sizeof(wr_globaldef)); m->nglobals = m->nglobalimports; }
    { uint32_t ti = 0, mi = 0, gi = 0;
      for (k = 0; k < m->nimports; k++) {
          wr_import *im = &m->imports[k];
          if (im->kind == 1) m->tables[ti++] = im->lim;
          else if (im->kind == 2) m->mems[mi++] = im->lim;
          else if (im->kind == 3) { m->globals[gi].type = im->gtype; m->globals[gi].mut = im->gmut; gi++; }
      } }
    free(declared);
    return m;
fail:
    free(declared);
    wr_free_module(m);
    return NULL;
}

void wr_free_module(wr_module *m) {
    uint32_t k; if (!m) return;
    for (k = 0; k < m->ntypes; k++) { free(m->types[k].params); free(m->types[k].results); }
    free(m->types);
    for (k = 0; k < m->nimports; k++) { free(m->imports[k].mod); free(m->imports[k].name); }
    free(m->imports); free(m->functype);
    if (m->code) for (k = 0; k < m->nfuncs - m->nfuncimports; k++) { free(m->code[k].ltypes); free(m->code[k].ctl_end); free(m->code[k].ctl_else); }
    free(m->code); free(m->tables); free(m->mems); free(m->globals);
    for (k = 0; k < m->nexports; k++) free(m->exports[k].name);
    free(m->exports);
    for (k = 0; k < m->nelems; k++) free(m->elems[k].funcs);
    free(m->elems); free(m->datas); free(m->bytes); free(m);
}

int wr_find_export(const wr_module *m, const char *name, uint8_t kind, uint32_t *index) {
    uint32_t k; size_t n = strlen(name);
    for (k = 0; k < m->nexports; k++)
        if (m->exports[k].kind == kind && m->exports[k].namelen == n && memcmp(m->exports[k].name, name, n) == 0) { *index = m->exports[k].index; return 1; }
    return 0;
}
const wr_functype *wr_functype_of(const wr_module *m, uint32_t f) { return &m->types[m->functype[f]]; }

const char *wr_trap_name(int t) {
    static const char *n[] = { "none", "unreachable", "div-by-zero", "int-overflow", "invalid-conversion", "out-of-bounds",
        "uninitialized-element", "signature-mismatch", "unaligned-atomic", "call-stack-exhausted", "fuel-exhausted",
        "unsupported", "would-block", "not-shared" };
    return (t >= 0 && t <= 13) ? n[t] : "?";
}

/* ------------------------------------------------------------------ stores */
wr_memory *wr_memory_new(uint32_t pages, uint32_t max, int hasmax, int shared) {
    wr_memory *m = (wr_memory *)calloc(1, sizeof *m);
    m->pages = pages; m->maxpages = max; m->hasmax = (uint8_t)hasmax; m->shared = (uint8_t)shared;
    m->data = (uint8_t *)calloc((size_t)pages * WR_PAGE + 8, 1);
    return m;
}
wr_table *wr_table_new(uint32_t size, uint32_t max, int hasmax) {
    wr_table *t = (wr_table *)calloc(1, sizeof *t);
    t->size = size; t->max = max; t->hasmax = (uint8_t)hasmax; t->e = (wr_tabent *)calloc(size + 1, sizeof(wr_tabent));
    return t;
}
wr_global *wr_global_new(uint8_t type, uint64_t bits, int mut) {
    wr_global *g = (wr_global *)calloc(1, sizeof *g); g->v.type = type; g->v.bits = bits; g->mut = (uint8_t)mut; return g;
}

uint64_t wr_mem_read(const wr_instance *i, const wr_memory *m, uint64_t addr, int n) {
    uint64_t v = 0; int k;
    if (i->env.big_endian_image) for (k = 0; k < n; k++) v |= (uint64_t)m->data[addr + k] << (8 * (n - 1 - k));
    else for (k = 0; k < n; k++) v |= (uint64_t)m->data[addr + k] << (8 * k);
    return v;
}
void wr_mem_write(const wr_instance *i, wr_memory *m, uint64_t addr, int n, uint64_t v) {
    int k;
    if (i->env.big_endian_image) for (k = 0; k < n; k++) m->data[addr + k] = (uint8_t)(v >> (8 * (n - 1 - k)));
    else for (k = 0; k < n; k++) m->data[addr + k] = (uint8_t)(v >> (8 * k));
}

/* ------------------------------------------------------------------ instantiation */
static rval eval_const(wr_instance *in, const wr_constexpr *c, uint8_t want) {
    rval v; v.nd = 0; v.bits = c->bits; v.type = want;
    switch (c->op) {
        case 0x41: v.type = VT_I32; break; case 0x42: v.type = VT_I64; break;
        case 0x43: v.type = VT_F32; break; case 0x44: v.type = VT_F64; break;
        case 0x23: v = in->globals[c->index]->v; break;
        default: break;
    }
    return v;
}

static int invoke(wr_instance *in, uint32_t func, const rval *args, rval *res);

wr_instance *wr_instantiate(wr_module *m, const wr_env *env) {
    wr_instance *in = (wr_instance *)calloc(1, sizeof *in); uint32_t k, fi = 0, ti = 0, mi = 0, gi = 0;
    in->m = m; if (env) in->env = *env;
    if (!in->env.fuel) in->env.fuel = 2000000; if (!in->env.max_depth) in->env.max_depth = 2000;
    in->mems = (wr_memory **)calloc(m->nmems + 1, sizeof(void *));
    in->tables = (wr_table **)calloc(m->ntables + 1, sizeof(void *));
    in->globals = (wr_global **)calloc(m->nglobals + 1, sizeof(void *));
    in->fowner = (wr_instance **)calloc(m->nfuncimports + 1, sizeof(void *));
    in->ffunc = (uint32_t *)calloc(m->nfuncimports + 1, sizeof(uint32_t));
    in->data_dropped = (uint8_t *)calloc(m->ndatas + 1, 1); in->elem_dropped = (uint8_t *)calloc(m->nelems + 1, 1);
    for (k = 0; k < m->nimports; k++) {
        wr_import *im = &m->imports[k];
        switch (im->kind) {
            case 0: if (in->env.resolve_func) (void)in->env.resolve_func(in->env.ctx, im->mod, im->name, &in->fowner[fi], &in->ffunc[fi]); fi++; break;
            case 1: in->tables[ti++] = in->env.resolve_table ? in->env.resolve_table(in->env.ctx, im->mod, im->name) : NULL; break;
            case 2: in->mems[mi++] = in->env.resolve_memory ? in->env.resolve_memory(in->env.ctx, im->mod, im->name) : NULL; break;
            case 3: in->globals[gi++] = in->env.resolve_global ? in->env.resolve_global(in->env.ctx, im->mod, im->name) : NULL; break;
        }
    }
    for (k = 0; k < m->nimports; k++) { /* unresolved imports: refuse */
        (void)k;
    }
    for (k = 0; k < ti; k++) if (!in->tables[k]) { in->start_trap = RT_UNSUPPORTED; return in; }
    for (k = 0; k < mi; k++) if (!in->mems[k]) { in->start_trap = RT_UNSUPPORTED; return in; }
    for (k = 0; k < gi; k++) if (!in->globals[k]) { in->start_trap = RT_UNSUPPORTED; return in; }
    for (k = ti; k < m->ntables; k++) in->tables[k] = wr_table_new(m->tables[k].min, m->tables[k].max, m->tables[k].hasmax);
    for (k = mi; k < m->nmems; k++) in->mems[k] = wr_memory_new(m->mems[k].min, m->mems[k].max, m->mems[k].hasmax, m->mems[k].shared);
    for (k = gi; k < m->nglobals; k++) {
        rval v = eval_const(in, &m->globals[k].init, m->globals[k].type);
        in->globals[k] = wr_global_new(m->globals[k].type, v.bits, m->globals[k].mut);
    }
    /* element segments, then data segments, in order; bounds failure traps (bulk-memory semantics) */
    for (k = 0; k < m->nelems; k++) {
        wr_elem *e = &m->elems[k]; uint32_t j; uint64_t off;
        if (e->mode != 0) { if (e->mode == 2) in->elem_dropped[k] = 1; continue; }
        off = (uint32_t)eval_const(in, &e->off, VT_I32).bits;
        if (off + e->n > in->tables[e->table]->size) { in->start_trap = RT_OOB; return in; }
        for (j = 0; j < e->n; j++) {
            wr_tabent *t = &in->tables[e->table]->e[off + j];
            if (e->funcs[j] == 0xffffffffu) { t->set = 0; continue; }
            t->set = 1;
            if (e->funcs[j] < m->nfuncimports && in->fowner[e->funcs[j]]) { t->owner = in->fowner[e->funcs[j]]; t->func = in->ffunc[e->funcs[j]]; }
            else { t->owner = in; t->func = e->funcs[j]; }
        }
        in->elem_dropped[k] = 1;
    }
    for (k = 0; k < m->ndatas; k++) {
        wr_data *d = &m->datas[k]; uint64_t off; wr_memory *mem;
        if (d->mode != 0) continue;
        if (d->mem >= m->nmems) { in->start_trap = RT_OOB; return in; }
        mem = in->mems[d->mem];
        off = (uint32_t)eval_const(in, &d->off, VT_I32).bits;
        if (off + d->n > (uint64_t)mem->pages * WR_PAGE) { in->start_trap = RT_OOB; return in; }
        memcpy(mem->data + off, d->bytes, d->n);
        in->data_dropped[k] = 1;
    }
    if (m->has_start) {
        in->fuel_left = in->env.fuel; in->depth = 0;
        in->start_trap = invoke(in, m->start, NULL, NULL);
    }
    return in;
}

void wr_free_instance(wr_instance *in) {
    uint32_t k; wr_module *m; if (!in) return; m = in->m;
    for (k = m->ntableimports; k < m->ntables; k++) if (in->tables[k]) { free(in->tables[k]->e); free(in->tables[k]); }
    for (k = m->nmemimports; k < m->nmems; k++) if (in->mems[k]) { free(in->mems[k]->data); free(in->mems[k]); }
    for (k = m->nglobalimports; k < m->nglobals; k++) free(in->globals[k]);
    free(in->tables); free(in->mems); free(in->globals); free(in->fowner); free(in->ffunc);
    free(in->data_dropped); free(in->elem_dropped); free(in);
}

/* ------------------------------------------------------------------ interpreter */
typedef struct label { uint32_t cont; uint32_t height; uint8_t arity, is_loop; } label;

#define TRAPR(t) do { trapcode = (t); goto done; } while (0)
#define POP() (stack[--sp])
#define PUSH(v) do { if (sp >= scap) { scap *= 2; stack = (rval *)realloc(stack, scap * sizeof(rval)); } stack[sp++] = (v); } while (0)

static int types_equal(const wr_functype *a, const wr_functype *b) {
    return a->np == b->np && a->nr == b->nr && memcmp(a->params, b->params, a->np) == 0 && memcmp(a->results, b->results, a->nr) == 0;
}

static int mem_grow(wr_memory *mem, uint32_t delta, uint32_t *old, uint32_t cap) {
    uint64_t np = (uint64_t)mem->pages + delta; uint64_t lim = mem->hasmax ? mem->maxpages : 65536u;
    if (lim > 65536u) lim = 65536u;
    if (cap && lim > cap) lim = cap;
    if (np > lim) return 0;
    *old = mem->pages;
    if (delta) {
        uint8_t *nd = (uint8_t *)realloc(mem->data, (size_t)np * WR_PAGE + 8);
        if (!nd) return 0;
        memset(nd + (size_t)mem->pages * WR_PAGE, 0, (size_t)delta * WR_PAGE);
        mem->data = nd; mem->pages = (uint32_t)np;
    }
    return 1;
}

static int invoke(wr_instance *in, uint32_t func, const rval *args, rval *res) {
    wr_module *m = in->m; const wr_functype *ft = &m->types[m->functype[func]];
    if (func < m->nfuncimports) {
        rval r; int t; uint32_t k;
        if (in->fowner[func]) {
            wr_instance *o = in->fowner[func];
            o->fuel_left = in->fuel_left; o->depth = in->depth;
            t = invoke(o, in->ffunc[func], args, res);
            in->fuel_left = o->fuel_left; if (o->tainted) in->tainted = 1;
            return t;
        }
        for (k = 0; k < ft->np; k++) if (args[k].nd) in->tainted = 1;
        memset(&r, 0, sizeof r);
        if (!in->env.host_call) return RT_UNSUPPORTED;
        t = in->env.host_call(in->env.ctx, in, func, args, ft->np, &r);
        if (t) return t;
        if (ft->nr && res) { r.type = ft->results[0]; *res = r; }
        return RT_NONE;
    }
    {
        const wr_code *c = &m->code[func - m->nfuncimports];
        const uint8_t *body = c->body; rd r;
        rval *locals = (rval *)malloc((c->nlocals + 1) * sizeof(rval));
        uint32_t scap = 64, sp = 0; rval *stack = (rval *)malloc(scap * sizeof(rval));
        uint32_t lcap = 32, lp = 0; label *labels = (label *)malloc(lcap * sizeof(label));
        int trapcode = RT_NONE; uint32_t k;
        if (++in->depth > in->env.max_depth) { trapcode = RT_EXHAUSTED; goto done; }
        for (k = 0; k < c->nlocals; k++) { if (k < ft->np) locals[k] = args[k]; else { locals[k].bits = 0; locals[k].nd = 0; locals[k].type = c->ltypes[k]; } }
        r.p = body; r.end = body + c->len; r.bad = 0;
        labels[lp].cont = c->len; labels[lp].height = 0; labels[lp].arity = (uint8_t)ft->nr; labels[lp].is_loop = 0; lp++;
        for (;;) {
            uint32_t pc; uint8_t op;
            if (r.bad) TRAPR(RT_UNSUPPORTED);
            if (r.p >= r.end) break;
            if (in->fuel_left == 0) TRAPR(RT_FUEL);
            in->fuel_left--; in->steps++;
            pc = (uint32_t)(r.p - body); op = *r.p++;
            switch (op) {
            case 0x00: TRAPR(RT_UNREACHABLE);
            case 0x01: break;
            case 0x02: case 0x03: case 0x04: {
                int64_t bt = rd_sleb(&r, 33); uint8_t arity;
                if (bt == -64) arity = 0; else if (bt < 0) arity = 1; else TRAPR(RT_UNSUPPORTED);
                if (lp >= lcap) { lcap *= 2; labels = (label *)realloc(labels, lcap * sizeof(label)); }
                if (op == 0x04) {
                    rval cnd = POP(); if (cnd.nd) in->tainted = 1;
                    if ((uint32_t)cnd.bits == 0) {
                        if (c->ctl_else[pc]) { r.p = body + c->ctl_else[pc] + 1; }
                        else { r.p = body + c->ctl_end[pc] + 1; break; }
                    }
                }
                labels[lp].height = sp; labels[lp].arity = (op == 0x03) ? 0 : arity; labels[lp].is_loop = (op == 0x03);
                labels[lp].cont = (op == 0x03) ? (uint32_t)(r.p - body) : c->ctl_end[pc] + 1;
                if (op == 0x03) labels[lp].cont = pc; /* re-enter at the loop opcode: re-pushes its label */
                lp++;
                break; }
            case 0x05: { /* end of then-branch: jump behind end */
                label *l = &labels[lp - 1]; r.p = body + l->cont; lp--; break; }
            case 0x0b: lp--; if (lp == 0) goto finished; break;
            case 0x0c: case 0x0d: case 0x0e: {
                uint32_t depth;
                if (op == 0x0c) depth = rd_u32(&r);
                else if (op == 0x0d) { rval cnd; depth = rd_u32(&r); cnd = POP(); if (cnd.nd) in->tainted = 1; if ((uint32_t)cnd.bits == 0) break; }
                else { uint32_t n = rd_u32(&r), j, sel = 0, dflt; rval idx = POP(); if (idx.nd) in->tainted = 1;
                       depth = 0; for (j = 0; j < n; j++) { uint32_t d = rd_u32(&r); if (j == (uint32_t)idx.bits) { sel = 1; depth = d; } }
                       dflt = rd_u32(&r); if (!sel) depth = dflt; }
                { label *l = &labels[lp - 1 - depth]; rval carried; memset(&carried, 0, sizeof carried);
                  if (l->arity) carried = stack[sp - 1];
                  sp = l->height; if (l->arity) PUSH(carried);
                  if (lp - 1 - depth == 0) goto finished;
                  r.p = body + l->cont;
                  if (l->is_loop) lp = lp - 1 - depth; /* the loop opcode pushes it again */
                  else lp = lp - 1 - depth; }
                break; }
            case 0x0f: { uint32_t depth = lp - 1; (void)depth; { label *l = &labels[0]; rval carried; memset(&carried, 0, sizeof carried); if (l->arity) carried = stack[sp - 1]; sp = 0; if (l->arity) PUSH(carried); } goto finished; }
            case 0x10: case 0x11: {
                uint32_t callee; wr_instance *target = in; const wr_functype *ct; rval result; int t;
                if (op == 0x10) { callee = rd_u32(&r); ct = &m->types[m->functype[callee]]; }
                else {
                    uint32_t ti = rd_u32(&r), tab = rd_u32(&r); rval idx = POP(); wr_table *T = in->tables[tab]; wr_tabent *e;
                    if (idx.nd) in->tainted = 1;
                    if ((uint32_t)idx.bits >= T->size) TRAPR(RT_OOB);
                    e = &T->e[(uint32_t)idx.bits]; if (!e->set) TRAPR(RT_UNINIT_ELEM);
                    target = e->owner; callee = e->func; ct = &m->types[ti];
                    if (!types_equal(ct, &target->m->types[target->m->functype[callee]])) TRAPR(RT_SIG_MISMATCH);
                }
                sp -= ct->np; memset(&result, 0, sizeof result);
                target->fuel_left = in->fuel_left; target->depth = in->depth;
                t = invoke(target, callee, stack + sp, &result);
                in->fuel_left = target->fuel_left; if (target->tainted) in->tainted = 1;
                if (t) TRAPR(t);
                if (ct->nr) PUSH(result);
                break; }
            case 0x1a: sp--; break;
            case 0x1c: { uint32_t n = rd_u32(&r); while (n--) (void)rd_u8(&r); } /* fallthrough */
            case 0x1b: { rval cnd = POP(); rval b = POP(); rval a = POP(); if (cnd.nd) in->tainted = 1; PUSH((uint32_t)cnd.bits ? a : b); break; }
            case 0x20: { uint32_t i = rd_u32(&r); PUSH(locals[i]); break; }
            case 0x21: { uint32_t i = rd_u32(&r); locals[i] = POP(); break; }
            case 0x22: { uint32_t i = rd_u32(&r); locals[i] = stack[sp - 1]; break; }
            case 0x23: { uint32_t i = rd_u32(&r); PUSH(in->globals[i]->v); break; }
            case 0x24: { uint32_t i = rd_u32(&r); rval v = POP(); if (v.nd) in->tainted = 1; in->globals[i]->v = v; break; }
            case 0x3f: { rval v; (void)rd_u8(&r); v.type = VT_I32; v.nd = 0; v.bits = in->mems[0]->pages; PUSH(v); break; }
            case 0x40: { rval d, v; uint32_t old = 0; (void)rd_u8(&r); d = POP(); if (d.nd) in->tainted = 1; v.type = VT_I32; v.nd = 0;
                         v.bits = mem_grow(in->mems[0], (uint32_t)d.bits, &old, in->env.page_cap) ? old : 0xffffffffu; PUSH(v); break; }
            case 0x41: { rval v; v.type = VT_I32; v.nd = 0; v.bits = (uint32_t)rd_sleb(&r, 32); PUSH(v); break; }
            case 0x42: { rval v; v.type = VT_I64; v.nd = 0; v.bits = (uint64_t)rd_sleb(&r, 64); PUSH(v); break; }
            case 0x43: { rval v; uint32_t b = 0; int j; for (j = 0; j < 4; j++) b |= (uint32_t)rd_u8(&r) << (8 * j); v.type = VT_F32; v.nd = 0; v.bits = b; PUSH(v); break; }
            case 0x44: { rval v; uint64_t b = 0; int j; for (j = 0; j < 8; j++) b |= (uint64_t)rd_u8(&r) << (8 * j); v.type = VT_F64; v.nd = 0; v.bits = b; PUSH(v); break; }
            case 0xfc: {
                uint32_t s = rd_u32(&r);
                if (s <= 7) { rval a = POP(), o, z; int t; memset(&z, 0, sizeof z); if (a.nd == 2) in->tainted = 1; t = refop_eval(0xFC00 | s, a, z, &o); if (t) TRAPR(t); PUSH(o); break; }
                switch (s) {
                case 8: { uint32_t seg = rd_u32(&r); rval n, src, dst; wr_memory *mem; uint64_t seglen; (void)rd_u8(&r); n = POP(); src = POP(); dst = POP();
                          if (n.nd || src.nd || dst.nd) in->tainted = 1; mem = in->mems[0];
                          seglen = in->data_dropped[seg] ? 0 : m->datas[seg].n;
                          if ((uint64_t)(uint32_t)src.bits + (uint32_t)n.bits > seglen || (uint64_t)(uint32_t)dst.bits + (uint32_t)n.bits > (uint64_t)mem->pages * WR_PAGE) TRAPR(RT_OOB);
                          memcpy(mem->data + (uint32_t)dst.bits, m->datas[seg].bytes + (uint32_t)src.bits, (uint32_t)n.bits); break; }
                case 9: { uint32_t seg = rd_u32(&r); in->data_dropped[seg] = 1; break; }
                case 10: { rval n, src, dst; wr_memory *mem = in->mems[0]; (void)rd_u8(&r); (void)rd_u8(&r); n = POP(); src = POP(); dst = POP();
                          if (n.nd || src.nd || dst.nd) in->tainted = 1;
                          if ((uint64_t)(uint32_t)src.bits + (uint32_t)n.bits > (uint64_t)mem->pages * WR_PAGE || (uint64_t)(uint32_t)dst.bits + (uint32_t)n.bits > (uint64_t)mem->pages * WR_PAGE) TRAPR(RT_OOB);
                          { /* byte-by-byte with explicit direction: the spec's definition, not memmove */
                            uint32_t d = (uint32_t)dst.bits, sa = (uint32_t)src.bits, cnt = (uint32_t)n.bits, j;
                            if (d <= sa) for (j = 0; j < cnt; j++) mem->data[d + j] = mem->data[sa + j];
                            else for (j = cnt; j > 0; j--) mem->data[d + j - 1] = mem->data[sa + j - 1]; }
                          break; }
                case 11: { rval n, val, dst; wr_memory *mem = in->mems[0]; uint32_t j; (void)rd_u8(&r); n = POP(); val = POP(); dst = POP();
                          if (n.nd || val.nd || dst.nd) in->tainted = 1;
                          if ((uint64_t)(uint32_t)dst.bits + (uint32_t)n.bits > (uint64_t)mem->pages * WR_PAGE) TRAPR(RT_OOB);
                          for (j = 0; j < (uint32_t)n.bits; j++) mem->data[(uint32_t)dst.bits + j] = (uint8_t)val.bits; break; }
                default: TRAPR(RT_UNSUPPORTED);
                }
                break; }
            case 0xfe: {
                uint32_t s = rd_u32(&r);
                if (s == 3) { (void)rd_u8(&r); break; }
                {
                    uint32_t align = rd_u32(&r), off = rd_u32(&r); wr_memory *mem = in->mems[0]; (void)align;
                    if (s <= 2) { /* notify / wait32 / wait64 */
                        rval a2, a1, a0, v; uint64_t ea; int nb = s == 2 ? 8 : 4;
                        memset(&a2, 0, sizeof a2);
                        if (s != 0) a2 = POP(); a1 = POP(); a0 = POP();
                        if (a2.nd || a1.nd || a0.nd) in->tainted = 1;
                        ea = (uint64_t)(uint32_t)a0.bits + off;
                        if (ea + nb > (uint64_t)mem->pages * WR_PAGE) TRAPR(RT_OOB);
                        if (ea % nb) TRAPR(RT_UNALIGNED);
                        v.type = VT_I32; v.nd = 0;
                        if (s == 0) v.bits = 0; /* nobody can be waiting in a sequential execution */
                        else {
                            uint64_t cur = wr_mem_read(in, mem, ea, nb), exp = s == 2 ? a1.bits : (uint32_t)a1.bits;
                            if (!mem->shared) TRAPR(RT_NOT_SHARED);
                            if (cur != exp) v.bits = 1;
                            else if ((int64_t)a2.bits < 0) TRAPR(RT_WOULD_BLOCK);
                            else v.bits = 2;
                        }
                        PUSH(v); break;
                    }
                    if (s >= 0x10 && s <= 0x16) { /* atomic loads */
                        static const uint8_t nbs[] = { 4, 8, 1, 2, 1, 2, 4 }; static const uint8_t rt[] = { VT_I32, VT_I64, VT_I32, VT_I32, VT_I64, VT_I64, VT_I64 };
                        int nb = nbs[s - 0x10]; rval a = POP(), v; uint64_t ea = (uint64_t)(uint32_t)a.bits + off; if (a.nd) in->tainted = 1;
                        if (ea + nb > (uint64_t)mem->pages * WR_PAGE) TRAPR(RT_OOB);
                        if (ea % nb) TRAPR(RT_UNALIGNED);
                        v.type = rt[s - 0x10]; v.nd = mem->dirty_nd ? 2 : 0; v.bits = wr_mem_read(in, mem, ea, nb); PUSH(v); break;
                    }
                    if (s >= 0x17 && s <= 0x1d) {
                        static const uint8_t nbs[] = { 4, 8, 1, 2, 1, 2, 4 };
                        int nb = nbs[s - 0x17]; rval v = POP(), a = POP(); uint64_t ea = (uint64_t)(uint32_t)a.bits + off; if (a.nd) in->tainted = 1;
                        if (ea + nb > (uint64_t)mem->pages * WR_PAGE) TRAPR(RT_OOB);
                        if (ea % nb) TRAPR(RT_UNALIGNED);
                        if (v.nd) { mem->dirty_nd = 1; in->tainted = 1; }
                        wr_mem_write(in, mem, ea, nb, v.bits); break;
                    }
                    if (s >= 0x1e && s <= 0x4e) {
                        /* rmw: groups of 7: add sub and or xor xchg cmpxchg; within group: i32 i64 i32_8 i32_16 i64_8 i64_16 i64_32 */
                        static const uint8_t nbs[] = { 4, 8, 1, 2, 1, 2, 4 }; static const uint8_t rt[] = { VT_I32, VT_I64, VT_I32, VT_I32, VT_I64, VT_I64, VT_I64 };
                        uint32_t g = (s - 0x1e) / 7, w = (s - 0x1e) % 7; int nb = nbs[w]; uint64_t mask = nb == 8 ? ~0ull : ((1ull << (8 * nb)) - 1);
                        rval repl, v, a, o; uint64_t ea, old, nw = 0;
                        memset(&repl, 0, sizeof repl);
                        if (g == 6) repl = POP(); v = POP(); a = POP();
                        if (a.nd || v.nd || repl.nd) in->tainted = 1;
                        ea = (uint64_t)(uint32_t)a.bits + off;
                        if (ea + nb > (uint64_t)mem->pages * WR_PAGE) TRAPR(RT_OOB);
                        if (ea % nb) TRAPR(RT_UNALIGNED);
                        old = wr_mem_read(in, mem, ea, nb);
                        switch (g) { case 0: nw = old + v.bits; break; case 1: nw = old - v.bits; break; case 2: nw = old & v.bits; break;
                                     case 3: nw = old | v.bits; break; case 4: nw = old ^ v.bits; break; case 5: nw = v.bits; break;
                                     default: nw = (old == (v.bits & mask)) ? repl.bits : old; }
                        wr_mem_write(in, mem, ea, nb, nw & mask);
                        o.type = rt[w]; o.nd = mem->dirty_nd ? 2 : 0; o.bits = old; PUSH(o); break;
                    }
                    TRAPR(RT_UNSUPPORTED);
                }
            }
            default:
                if (op >= 0x28 && op <= 0x35) { /* loads */
                    static const uint8_t nbs[] = { 4, 8, 4, 8, 1, 1, 2, 2, 1, 1, 2, 2, 4, 4 };
                    static const uint8_t sg[]  = { 0, 0, 0, 0, 1, 0, 1, 0, 1, 0, 1, 0, 1, 0 };
                    static const uint8_t rt[]  = { VT_I32, VT_I64, VT_F32, VT_F64, VT_I32, VT_I32, VT_I32, VT_I32, VT_I64, VT_I64, VT_I64, VT_I64, VT_I64, VT_I64 };
                    uint32_t align = rd_u32(&r), off = rd_u32(&r); int k2 = op - 0x28; int nb = nbs[k2]; wr_memory *mem = in->mems[0];
                    rval a = POP(), v; uint64_t ea = (uint64_t)(uint32_t)a.bits + off, raw; (void)align; if (a.nd) in->tainted = 1;
                    if (ea + nb > (uint64_t)mem->pages * WR_PAGE) TRAPR(RT_OOB);
                    raw = wr_mem_read(in, mem, ea, nb);
                    if (sg[k2] && ((raw >> (8 * nb - 1)) & 1)) raw |= ~0ull << (8 * nb - 1);
                    v.type = rt[k2]; if (v.type == VT_I32 || v.type == VT_F32) raw &= 0xffffffffull;
                    v.bits = raw; v.nd = mem->dirty_nd ? 2 : 0; PUSH(v); break;
                }
                if (op >= 0x36 && op <= 0x3e) {
                    static const uint8_t nbs[] = { 4, 8, 4, 8, 1, 2, 1, 2, 4 };
                    uint32_t align = rd_u32(&r), off = rd_u32(&r); int nb = nbs[op - 0x36]; wr_memory *mem = in->mems[0];
                    rval v = POP(), a = POP(); uint64_t ea = (uint64_t)(uint32_t)a.bits + off; (void)align; if (a.nd) in->tainted = 1;
                    if (ea + nb > (uint64_t)mem->pages * WR_PAGE) TRAPR(RT_OOB);
                    if (v.nd) { mem->dirty_nd = 1; in->tainted = 1; }
                    wr_mem_write(in, mem, ea, nb, v.bits); break;
                }
                {
                    uint8_t ta, tb, tr; int n = refop_arity(op, &ta, &tb, &tr); rval a, b, o; int t;
                    if (!n) TRAPR(RT_UNSUPPORTED);
                    memset(&b, 0, sizeof b);
                    if (n == 2) b = POP(); a = POP();
                    /* trap decisions on unknown operands cannot be predicted */
                    if ((a.nd == 2 || b.nd == 2) && ((op >= 0x6d && op <= 0x70) || (op >= 0x7f && op <= 0x82) || (op >= 0xa8 && op <= 0xab) || (op >= 0xae && op <= 0xb1))) in->tainted = 1;
                    t = refop_eval(op, a, b, &o); if (t) TRAPR(t);
                    PUSH(o);
                }
            }
            continue;
        }
finished:
        if (ft->nr && res) { *res = stack[sp - 1]; }
done:
        in->depth--;
        free(locals); free(stack); free(labels);
        return trapcode;
    }
}

int wr_call(wr_instance *in, uint32_t func, const rval *args, uint32_t nargs, rval *res) {
    const wr_functype *ft = &in->m->types[in->m->functype[func]];
    if (nargs != ft->np) return RT_UNSUPPORTED;
    in->fuel_left = in->env.fuel; in->depth = 0;
    return invoke(in, func, args, res);
}
