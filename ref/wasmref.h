/* libwasmref — reference interpreter for the WebAssembly feature set w2c2 supports.
 * Own decoder + direct stack-machine interpreter; nothing is shared with /repo. */
#ifndef WASMREF_H
#define WASMREF_H
#include <stddef.h>
#include <stdint.h>
#include "refops.h"

#define WR_PAGE 65536u

typedef struct wr_functype { uint32_t np, nr; uint8_t *params; uint8_t *results; } wr_functype;
typedef struct wr_limits { uint32_t min, max; uint8_t hasmax, shared; } wr_limits;
typedef struct wr_import { char *mod, *name; uint32_t modlen, namelen; uint8_t kind; uint32_t typeidx; wr_limits lim; uint8_t gtype, gmut; } wr_import;
typedef struct wr_export { char *name; uint32_t namelen; uint8_t kind; uint32_t index; } wr_export;
typedef struct wr_constexpr { uint8_t op; uint64_t bits; uint32_t index; } wr_constexpr; /* op: 0x41..0x44 or 0x23 */
typedef struct wr_globaldef { uint8_t type, mut; wr_constexpr init; } wr_globaldef;
typedef struct wr_elem { uint8_t mode; /*0 active 1 passive*/ uint32_t table; wr_constexpr off; uint32_t n; uint32_t *funcs; } wr_elem;
typedef struct wr_data { uint8_t mode; uint32_t mem; wr_constexpr off; uint32_t n; const uint8_t *bytes; } wr_data;
typedef struct wr_code { const uint8_t *body; uint32_t len; /* instructions incl. final end */ uint32_t nlocals; uint8_t *ltypes; /* params + locals */
                         uint32_t *ctl_end, *ctl_else; } wr_code;

typedef struct wr_module {
    uint8_t *bytes; size_t nbytes;
    uint32_t ntypes; wr_functype *types;
    uint32_t nimports; wr_import *imports;
    uint32_t nfuncimports, ntableimports, nmemimports, nglobalimports;
    uint32_t nfuncs; /* total incl. imports */ uint32_t *functype; /* typeidx per function */
    wr_code *code; /* per defined function */
    uint32_t ntables; wr_limits *tables; /* incl. imports */
    uint32_t nmems; wr_limits *mems;
    uint32_t nglobals; wr_globaldef *globals; /* incl. imports (init unused for imports) */
    uint32_t nexports; wr_export *exports;
    int has_start; uint32_t start;
    uint32_t nelems; wr_elem *elems;
    uint32_t ndatas; wr_data *datas;
    int has_datacount; uint32_t datacount;
} wr_module;

typedef struct wr_memory { uint8_t *data; uint32_t pages, maxpages; uint8_t hasmax, shared; uint8_t dirty_nd; } wr_memory;
struct wr_instance;
typedef struct wr_tabent { struct wr_instance *owner; uint32_t func; uint8_t set; } wr_tabent;
typedef struct wr_table { wr_tabent *e; uint32_t size, max; uint8_t hasmax; } wr_table;
typedef struct wr_global { rval v; uint8_t mut; } wr_global;

typedef struct wr_env {
    void *ctx;
    /* host function import; returns trap code (RT_NONE = ok) */
    int (*host_call)(void *ctx, struct wr_instance *inst, uint32_t import_index, const rval *args, uint32_t nargs, rval *res);
    wr_memory *(*resolve_memory)(void *ctx, const char *mod, const char *name);
    wr_table *(*resolve_table)(void *ctx, const char *mod, const char *name);
    wr_global *(*resolve_global)(void *ctx, const char *mod, const char *name);
    /* imported function that is another instance's function (spec-suite "register"): return 1 and fill */
    int (*resolve_func)(void *ctx, const char *mod, const char *name, struct wr_instance **owner, uint32_t *func);
    int big_endian_image; /* model of a forced-big-endian runtime on a little-endian host */
    uint64_t fuel;        /* per top-level call; 0 = default */
    uint32_t max_depth;   /* 0 = default */
    uint32_t page_cap;    /* embedder resource limit for memory.grow in pages (0 = the spec's 65536); the spec lets grow fail for lack of resources */
} wr_env;

typedef struct wr_instance {
    wr_module *m; wr_env env;
    wr_memory **mems; wr_table **tables; wr_global **globals;
    struct wr_instance **fowner; uint32_t *ffunc; /* for imported functions bound to other instances */
    uint8_t *data_dropped, *elem_dropped;
    int tainted;          /* a value of unknown content influenced control flow, memory, globals or the host */
    uint64_t fuel_left; uint32_t depth;
    int start_trap;       /* trap raised during instantiation (RT_NONE if none) */
    uint64_t steps;       /* instructions executed (statistics) */
} wr_instance;

wr_module *wr_load(const uint8_t *bytes, size_t n, char *err, size_t errlen);
void wr_free_module(wr_module *m);
wr_instance *wr_instantiate(wr_module *m, const wr_env *env);
void wr_free_instance(wr_instance *i); /* frees defined memories/tables/globals too */
/* Call function (index space incl. imports). res receives the single result if the type has one. */
int wr_call(wr_instance *i, uint32_t func, const rval *args, uint32_t nargs, rval *res);
int wr_find_export(const wr_module *m, const char *name, uint8_t kind, uint32_t *index);
const wr_functype *wr_functype_of(const wr_module *m, uint32_t func);
const char *wr_trap_name(int t);

wr_memory *wr_memory_new(uint32_t pages, uint32_t max, int hasmax, int shared);
wr_table *wr_table_new(uint32_t size, uint32_t max, int hasmax);
wr_global *wr_global_new(uint8_t type, uint64_t bits, int mut);

/* raw access helpers honouring the endianness model */
uint64_t wr_mem_read(const wr_instance *i, const wr_memory *m, uint64_t addr, int nbytes);
void wr_mem_write(const wr_instance *i, wr_memory *m, uint64_t addr, int nbytes, uint64_t v);

#endif
