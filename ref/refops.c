/* refops.c — see refops.h.  Compile with -O0/-O1 -ffp-contract=off -msse2 (x86-64 default). */
#include "refops.h"
#include <string.h>
#include <math.h>

#define F32_CANON 0x7fc00000u
#define F64_CANON 0x7ff8000000000000ull

static float  f32_of(uint32_t b) { float f; memcpy(&f, &b, 4); return f; }
static double f64_of(uint64_t b) { double f; memcpy(&f, &b, 8); return f; }
static uint32_t b32_of(float f)  { uint32_t b; memcpy(&b, &f, 4); return b; }
static uint64_t b64_of(double f) { uint64_t b; memcpy(&b, &f, 8); return b; }

/* ---------- integer helpers (unsigned arithmetic only) ---------- */
static uint32_t clz32(uint32_t x) { uint32_t n = 0; if (!x) return 32; while (!(x & 0x80000000u)) { x <<= 1; n++; } return n; }
static uint32_t ctz32(uint32_t x) { uint32_t n = 0; if (!x) return 32; while (!(x & 1u)) { x >>= 1; n++; } return n; }
static uint32_t pop32(uint32_t x) { uint32_t n = 0; while (x) { n += x & 1u; x >>= 1; } return n; }
static uint64_t clz64(uint64_t x) { uint64_t n = 0; if (!x) return 64; while (!(x & 0x8000000000000000ull)) { x <<= 1; n++; } return n; }
static uint64_t ctz64(uint64_t x) { uint64_t n = 0; if (!x) return 64; while (!(x & 1u)) { x >>= 1; n++; } return n; }
static uint64_t pop64(uint64_t x) { uint64_t n = 0; while (x) { n += x & 1u; x >>= 1; } return n; }

static int neg32(uint32_t x) { return (x >> 31) != 0; }
static int neg64(uint64_t x) { return (x >> 63) != 0; }
static uint32_t abs32(uint32_t x) { return neg32(x) ? (0u - x) : x; }
static uint64_t abs64(uint64_t x) { return neg64(x) ? (0ull - x) : x; }
/* signed less-than via bias */
static int slt32(uint32_t a, uint32_t b) { return (a ^ 0x80000000u) < (b ^ 0x80000000u); }
static int slt64(uint64_t a, uint64_t b) { return (a ^ 0x8000000000000000ull) < (b ^ 0x8000000000000000ull); }
static uint32_t sar32(uint32_t x, uint32_t n) { uint32_t r = x >> n; if (neg32(x) && n) r |= ~(0xffffffffu >> n); return r; }
static uint64_t sar64(uint64_t x, uint64_t n) { uint64_t r = x >> n; if (neg64(x) && n) r |= ~(0xffffffffffffffffull >> n); return r; }

/* ---------- float helpers on encodings ---------- */
/* total-order key for non-NaN floats: bigger key = bigger value, -0 < +0 */
static uint32_t key32(uint32_t b) { return (b & 0x80000000u) ? ~b : (b | 0x80000000u); }
static uint64_t key64(uint64_t b) { return (b & 0x8000000000000000ull) ? ~b : (b | 0x8000000000000000ull); }
static int iszero32(uint32_t b) { return (b & 0x7fffffffu) == 0; }
static int iszero64(uint64_t b) { return (b & 0x7fffffffffffffffull) == 0; }

/* compare non-NaN: -1,0,1 with -0 == +0 */
static int cmp32(uint32_t a, uint32_t b) { if (iszero32(a) && iszero32(b)) return 0; { uint32_t ka = key32(a), kb = key32(b); return ka < kb ? -1 : ka > kb ? 1 : 0; } }
static int cmp64(uint64_t a, uint64_t b) { if (iszero64(a) && iszero64(b)) return 0; { uint64_t ka = key64(a), kb = key64(b); return ka < kb ? -1 : ka > kb ? 1 : 0; } }

/* rounding to integral; mode 0 ceil 1 floor 2 trunc 3 nearest-even.  MB = mantissa bits, BIAS */
static uint64_t round_integral(uint64_t b, int mode, int MB, int EB) {
    const uint64_t signbit = 1ull << (MB + EB);
    const uint64_t sign = b & signbit;
    const uint64_t mag = b & (signbit - 1);
    const int bias = (1 << (EB - 1)) - 1;
    const int e = (int)(mag >> MB) - bias;
    const uint64_t one = (uint64_t)bias << MB; /* encoding of 1.0 */
    if (e >= MB) return b; /* already integral (or inf) */
    if (e < 0) {
        if (mag == 0) return b;
        switch (mode) {
            case 0: return sign ? sign : one;            /* ceil: (-1,0) -> -0 ; (0,1) -> 1 */
            case 1: return sign ? (sign | one) : 0;      /* floor: (-1,0) -> -1 ; (0,1) -> +0 */
            case 2: return sign;
            default: {
                const uint64_t half = (uint64_t)(bias - 1) << MB; /* 0.5 */
                if (mag > half) return sign | one;
                return sign;
            }
        }
    }
    {
        const uint64_t mask = (1ull << (MB - e)) - 1;
        const uint64_t frac = mag & mask;
        uint64_t t = mag & ~mask;
        if (frac == 0) return b;
        switch (mode) {
            case 0: if (!sign) t += mask + 1; break;
            case 1: if (sign) t += mask + 1; break;
            case 2: break;
            default: {
                const uint64_t half = (mask + 1) >> 1;
                if (frac > half || (frac == half && (t & (mask + 1)))) t += mask + 1;
            }
        }
        return sign | t;
    }
}

/* magnitude (u64) + sign -> float encoding, round to nearest even */
static uint64_t from_int(uint64_t mag, int negative, int MB, int EB) {
    const int bias = (1 << (EB - 1)) - 1;
    const uint64_t sign = negative ? (1ull << (MB + EB)) : 0;
    int top; uint64_t mant; int e;
    if (mag == 0) return 0; /* +0 also for "negative zero" integer, which does not exist */
    top = 63 - (int)clz64(mag);
    e = top;
    if (top <= MB) {
        mant = mag << (MB - top);
    } else {
        const int sh = top - MB;
        const uint64_t rem = mag & ((1ull << sh) - 1);
        const uint64_t half = 1ull << (sh - 1);
        mant = mag >> sh;
        if (rem > half || (rem == half && (mant & 1))) {
            mant++;
            if (mant >> (MB + 1)) { mant >>= 1; e++; }
        }
    }
    return sign | ((uint64_t)(e + bias) << MB) | (mant & ((1ull << MB) - 1));
}

/* float -> integer magnitude.  Returns 0 ok, 1 NaN, 2 too large (|x| >= 2^64 or inf). */
static int to_mag(uint64_t b, int MB, int EB, uint64_t *mag, int *negative) {
    const uint64_t signbit = 1ull << (MB + EB);
    const uint64_t m = b & (signbit - 1);
    const int bias = (1 << (EB - 1)) - 1;
    const int ebits = (int)(m >> MB);
    const int e = ebits - bias;
    const uint64_t frac = m & ((1ull << MB) - 1);
    *negative = (b & signbit) != 0;
    if (ebits == (1 << EB) - 1) return frac ? 1 : 2;
    if (e < 0) { *mag = 0; return 0; }
    if (e >= 64) return 2;
    {
        const uint64_t mant = frac | (1ull << MB);
        if (e <= MB) *mag = mant >> (MB - e);
        else *mag = mant << (e - MB);
    }
    return 0;
}

/* trapping / saturating truncation. bits: 32/64 result width; sgn: signed result */
static int trunc_to_int(uint64_t b, int MB, int EB, int width, int sgn, int sat, uint64_t *out) {
    uint64_t mag = 0; int negv = 0;
    const int st = to_mag(b, MB, EB, &mag, &negv);
    const uint64_t umax = width == 32 ? 0xffffffffull : 0xffffffffffffffffull;
    const uint64_t smax = umax >> 1;
    const uint64_t sminmag = smax + 1;
    int over = 0; /* 1 = too big positive, -1 = too big negative */
    if (st == 1) { if (sat) { *out = 0; return RT_NONE; } return RT_INVALID_CONV; }
    if (st == 2) over = negv ? -1 : 1;
    else if (sgn) {
        if (negv) { if (mag > sminmag) over = -1; }
        else if (mag > smax) over = 1;
    } else {
        if (negv) { if (mag > 0) over = -1; }
        else if (mag > umax) over = 1;
    }
    if (over) {
        if (!sat) return RT_INT_OVERFLOW;
        if (sgn) *out = over > 0 ? smax : sminmag; else *out = over > 0 ? umax : 0;
        return RT_NONE;
    }
    *out = (negv ? (0ull - mag) : mag) & umax;
    return RT_NONE;
}

static uint64_t promote(uint32_t b) {
    const uint64_t sign = (uint64_t)(b >> 31) << 63;
    const uint32_t e = (b >> 23) & 0xff;
    uint32_t frac = b & 0x7fffffu;
    if (e == 0xff) return sign | 0x7ff0000000000000ull | ((uint64_t)frac << 29);
    if (e == 0) {
        int sh;
        if (frac == 0) return sign;
        sh = (int)clz32(frac) - 8; /* shift to put leading 1 at bit 23 */
        frac = (frac << sh) & 0x7fffffu;
        return sign | ((uint64_t)(1 - 127 - sh + 1023) << 52) | ((uint64_t)frac << 29);
    }
    return sign | ((uint64_t)(e - 127 + 1023) << 52) | ((uint64_t)frac << 29);
}

static uint32_t demote(uint64_t b) {
    const uint32_t sign = (uint32_t)(b >> 63) << 31;
    const int e = (int)((b >> 52) & 0x7ff);
    const uint64_t frac = b & 0xfffffffffffffull;
    int ue; uint64_t mant; /* value = mant * 2^(ue-52), mant has bit 52 set */
    if (e == 0x7ff) return sign | 0x7f800000u; /* inf; NaN handled by caller */
    if (e == 0) return sign; /* f64 subnormals are far below f32 range */
    ue = e - 1023; mant = frac | (1ull << 52);
    if (ue >= -126) {
        /* normal candidate: keep 23 bits => drop 29 */
        uint64_t keep = mant >> 29; const uint64_t rem = mant & ((1ull << 29) - 1); const uint64_t half = 1ull << 28;
        int fe = ue + 127;
        if (rem > half || (rem == half && (keep & 1))) { keep++; if (keep >> 24) { keep >>= 1; fe++; } }
        if (fe >= 0xff) return sign | 0x7f800000u;
        return sign | ((uint32_t)fe << 23) | ((uint32_t)keep & 0x7fffffu);
    } else {
        /* subnormal f32: value = mant*2^(ue-52); f32 subnormal unit = 2^-149. shift = -149-(ue-52) */
        const int sh = -149 - (ue - 52);
        uint64_t keep, rem, half;
        if (sh > 54) return sign; /* below half of the smallest subnormal */
        keep = mant >> sh; rem = mant & ((1ull << sh) - 1); half = 1ull << (sh - 1);
        if (rem > half || (rem == half && (keep & 1))) keep++;
        return sign | (uint32_t)keep; /* keep may become 0x800000 = smallest normal: encoding works */
    }
}

/* ---------- arity table ---------- */
int refop_arity(uint32_t op, uint8_t *ta, uint8_t *tb, uint8_t *tr) {
    uint8_t a = 0, b = 0, r = 0; int n = 0;
    if (op >= 0xFC00 && op <= 0xFC07) {
        const uint32_t s = op & 7;
        n = 1; r = s < 4 ? VT_I32 : VT_I64; a = (s & 2) ? VT_F64 : VT_F32;
    } else if (op == 0x45) { n = 1; a = VT_I32; r = VT_I32; }
    else if (op >= 0x46 && op <= 0x4f) { n = 2; a = b = VT_I32; r = VT_I32; }
    else if (op == 0x50) { n = 1; a = VT_I64; r = VT_I32; }
    else if (op >= 0x51 && op <= 0x5a) { n = 2; a = b = VT_I64; r = VT_I32; }
    else if (op >= 0x5b && op <= 0x60) { n = 2; a = b = VT_F32; r = VT_I32; }
    else if (op >= 0x61 && op <= 0x66) { n = 2; a = b = VT_F64; r = VT_I32; }
    else if (op >= 0x67 && op <= 0x69) { n = 1; a = r = VT_I32; }
    else if (op >= 0x6a && op <= 0x78) { n = 2; a = b = r = VT_I32; }
    else if (op >= 0x79 && op <= 0x7b) { n = 1; a = r = VT_I64; }
    else if (op >= 0x7c && op <= 0x8a) { n = 2; a = b = r = VT_I64; }
    else if (op >= 0x8b && op <= 0x91) { n = 1; a = r = VT_F32; }
    else if (op >= 0x92 && op <= 0x98) { n = 2; a = b = r = VT_F32; }
    else if (op >= 0x99 && op <= 0x9f) { n = 1; a = r = VT_F64; }
    else if (op >= 0xa0 && op <= 0xa6) { n = 2; a = b = r = VT_F64; }
    else {
        n = 1;
        switch (op) {
            case 0xa7: a = VT_I64; r = VT_I32; break;
            case 0xa8: case 0xa9: a = VT_F32; r = VT_I32; break;
            case 0xaa: case 0xab: a = VT_F64; r = VT_I32; break;
            case 0xac: case 0xad: a = VT_I32; r = VT_I64; break;
            case 0xae: case 0xaf: a = VT_F32; r = VT_I64; break;
            case 0xb0: case 0xb1: a = VT_F64; r = VT_I64; break;
            case 0xb2: case 0xb3: a = VT_I32; r = VT_F32; break;
            case 0xb4: case 0xb5: a = VT_I64; r = VT_F32; break;
            case 0xb6: a = VT_F64; r = VT_F32; break;
            case 0xb7: case 0xb8: a = VT_I32; r = VT_F64; break;
            case 0xb9: case 0xba: a = VT_I64; r = VT_F64; break;
            case 0xbb: a = VT_F32; r = VT_F64; break;
            case 0xbc: a = VT_F32; r = VT_I32; break;
            case 0xbd: a = VT_F64; r = VT_I64; break;
            case 0xbe: a = VT_I32; r = VT_F32; break;
            case 0xbf: a = VT_I64; r = VT_F64; break;
            case 0xc0: case 0xc1: a = r = VT_I32; break;
            case 0xc2: case 0xc3: case 0xc4: a = r = VT_I64; break;
            default: n = 0;
        }
    }
    if (ta) *ta = a; if (tb) *tb = b; if (tr) *tr = r;
    return n;
}

static rval mk(uint8_t t, uint64_t bits, uint8_t nd) { rval v; v.type = t; v.bits = bits; v.nd = nd; return v; }

/* ---------- evaluation ---------- */
int refop_eval(uint32_t op, rval A, rval B, rval *out) {
    uint8_t ta, tb, tr; const int n = refop_arity(op, &ta, &tb, &tr);
    const uint32_t a32 = (uint32_t)A.bits, b32 = (uint32_t)B.bits;
    const uint64_t a64 = A.bits, b64 = B.bits;
    const int anyunk = (A.nd == 2) || (n == 2 && B.nd == 2);
    const int anynd = (A.nd != 0) || (n == 2 && B.nd != 0);
    uint64_t r = 0; uint8_t nd = 0;
    if (n == 0) return RT_UNSUPPORTED;
    /* A value of unknown content poisons the result; trap decisions on it are reported as weak by
     * the interpreter (it sets its taint flag when nd==2 reaches a trapping operator). */
    if (anyunk) { *out = mk(tr, 0, 2); return RT_NONE; }

    switch (op) {
    /* i32 compare */
    case 0x45: r = a32 == 0; break;
    case 0x46: r = a32 == b32; break; case 0x47: r = a32 != b32; break;
    case 0x48: r = slt32(a32, b32); break; case 0x49: r = a32 < b32; break;
    case 0x4a: r = slt32(b32, a32); break; case 0x4b: r = a32 > b32; break;
    case 0x4c: r = !slt32(b32, a32); break; case 0x4d: r = a32 <= b32; break;
    case 0x4e: r = !slt32(a32, b32); break; case 0x4f: r = a32 >= b32; break;
    case 0x50: r = a64 == 0; break;
    case 0x51: r = a64 == b64; break; case 0x52: r = a64 != b64; break;
    case 0x53: r = slt64(a64, b64); break; case 0x54: r = a64 < b64; break;
    case 0x55: r = slt64(b64, a64); break; case 0x56: r = a64 > b64; break;
    case 0x57: r = !slt64(b64, a64); break; case 0x58: r = a64 <= b64; break;
    case 0x59: r = !slt64(a64, b64); break; case 0x5a: r = a64 >= b64; break;
    /* float compare: a level-1 value is certainly a NaN, so the result is determined */
    case 0x5b: case 0x5c: case 0x5d: case 0x5e: case 0x5f: case 0x60: {
        const int nan = rf32_isnan(a32) || rf32_isnan(b32) || anynd;
        const int c = nan ? 2 : cmp32(a32, b32);
        switch (op) { case 0x5b: r = c == 0; break; case 0x5c: r = c != 0; break; case 0x5d: r = c == -1; break;
                      case 0x5e: r = c == 1; break; case 0x5f: r = c == -1 || c == 0; break; default: r = c == 1 || c == 0; }
        break; }
    case 0x61: case 0x62: case 0x63: case 0x64: case 0x65: case 0x66: {
        const int nan = rf64_isnan(a64) || rf64_isnan(b64) || anynd;
        const int c = nan ? 2 : cmp64(a64, b64);
        switch (op) { case 0x61: r = c == 0; break; case 0x62: r = c != 0; break; case 0x63: r = c == -1; break;
                      case 0x64: r = c == 1; break; case 0x65: r = c == -1 || c == 0; break; default: r = c == 1 || c == 0; }
        break; }
    /* i32 arithmetic */
    case 0x67: r = clz32(a32); break; case 0x68: r = ctz32(a32); break; case 0x69: r = pop32(a32); break;
    case 0x6a: r = (uint32_t)(a32 + b32); break; case 0x6b: r = (uint32_t)(a32 - b32); break; case 0x6c: r = (uint32_t)(a32 * b32); break;
    case 0x6d: { uint32_t q; if (b32 == 0) return RT_DIV_ZERO; if (a32 == 0x80000000u && b32 == 0xffffffffu) return RT_INT_OVERFLOW;
                 q = abs32(a32) / abs32(b32); r = (neg32(a32) != neg32(b32)) ? (uint32_t)(0u - q) : q; break; }
    case 0x6e: if (b32 == 0) return RT_DIV_ZERO; r = a32 / b32; break;
    case 0x6f: { uint32_t m; if (b32 == 0) return RT_DIV_ZERO; m = abs32(a32) % abs32(b32); r = neg32(a32) ? (uint32_t)(0u - m) : m; break; }
    case 0x70: if (b32 == 0) return RT_DIV_ZERO; r = a32 % b32; break;
    case 0x71: r = a32 & b32; break; case 0x72: r = a32 | b32; break; case 0x73: r = a32 ^ b32; break;
    case 0x74: r = (uint32_t)(a32 << (b32 % 32)); break;
    case 0x75: r = sar32(a32, b32 % 32); break;
    case 0x76: r = a32 >> (b32 % 32); break;
    case 0x77: { const uint32_t k = b32 % 32; r = k ? (uint32_t)((a32 << k) | (a32 >> (32 - k))) : a32; break; }
    case 0x78: { const uint32_t k = b32 % 32; r = k ? (uint32_t)((a32 >> k) | (a32 << (32 - k))) : a32; break; }
    /* i64 arithmetic */
    case 0x79: r = clz64(a64); break; case 0x7a: r = ctz64(a64); break; case 0x7b: r = pop64(a64); break;
    case 0x7c: r = a64 + b64; break; case 0x7d: r = a64 - b64; break; case 0x7e: r = a64 * b64; break;
    case 0x7f: { uint64_t q; if (b64 == 0) return RT_DIV_ZERO; if (a64 == 0x8000000000000000ull && b64 == ~0ull) return RT_INT_OVERFLOW;
                 q = abs64(a64) / abs64(b64); r = (neg64(a64) != neg64(b64)) ? (0ull - q) : q; break; }
    case 0x80: if (b64 == 0) return RT_DIV_ZERO; r = a64 / b64; break;
    case 0x81: { uint64_t m; if (b64 == 0) return RT_DIV_ZERO; m = abs64(a64) % abs64(b64); r = neg64(a64) ? (0ull - m) : m; break; }
    case 0x82: if (b64 == 0) return RT_DIV_ZERO; r = a64 % b64; break;
    case 0x83: r = a64 & b64; break; case 0x84: r = a64 | b64; break; case 0x85: r = a64 ^ b64; break;
    case 0x86: r = a64 << (b64 % 64); break;
    case 0x87: r = sar64(a64, b64 % 64); break;
    case 0x88: r = a64 >> (b64 % 64); break;
    case 0x89: { const uint64_t k = b64 % 64; r = k ? ((a64 << k) | (a64 >> (64 - k))) : a64; break; }
    case 0x8a: { const uint64_t k = b64 % 64; r = k ? ((a64 >> k) | (a64 << (64 - k))) : a64; break; }
    /* f32 unary */
    case 0x8b: r = a32 & 0x7fffffffu; nd = A.nd; break;          /* abs: bit op, payload kept */
    case 0x8c: r = a32 ^ 0x80000000u; nd = A.nd; break;          /* neg */
    case 0x8d: case 0x8e: case 0x8f: case 0x90:
        if (rf32_isnan(a32) || A.nd) { r = F32_CANON; nd = 1; }
        else r = (uint32_t)round_integral(a32, (int)(op - 0x8d), 23, 8);
        break;
    case 0x91:
        if (rf32_isnan(a32) || A.nd) { r = F32_CANON; nd = 1; }
        else { volatile float x = f32_of(a32); volatile float y = sqrtf(x); r = b32_of(y); if (rf32_isnan((uint32_t)r)) { r = F32_CANON; nd = 1; } }
        break;
    case 0x92: case 0x93: case 0x94: case 0x95:
        if (rf32_isnan(a32) || rf32_isnan(b32) || anynd) { r = F32_CANON; nd = 1; }
        else { volatile float x = f32_of(a32), y = f32_of(b32), z;
               z = op == 0x92 ? x + y : op == 0x93 ? x - y : op == 0x94 ? x * y : x / y;
               r = b32_of(z); if (rf32_isnan((uint32_t)r)) { r = F32_CANON; nd = 1; } }
        break;
    case 0x96: case 0x97:
        if (rf32_isnan(a32) || rf32_isnan(b32) || anynd) { r = F32_CANON; nd = 1; }
        else { const int less = key32(a32) < key32(b32); r = (op == 0x96) ? (less ? a32 : b32) : (less ? b32 : a32); }
        break;
    case 0x98: r = (a32 & 0x7fffffffu) | (b32 & 0x80000000u);
               nd = B.nd ? 2 : A.nd; /* unknown sign source => unknown; a level-1 NaN stays level 1 */
               break;
    /* f64 unary/binary */
    case 0x99: r = a64 & 0x7fffffffffffffffull; nd = A.nd; break;
    case 0x9a: r = a64 ^ 0x8000000000000000ull; nd = A.nd; break;
    case 0x9b: case 0x9c: case 0x9d: case 0x9e:
        if (rf64_isnan(a64) || A.nd) { r = F64_CANON; nd = 1; }
        else r = round_integral(a64, (int)(op - 0x9b), 52, 11);
        break;
    case 0x9f:
        if (rf64_isnan(a64) || A.nd) { r = F64_CANON; nd = 1; }
        else { volatile double x = f64_of(a64); volatile double y = sqrt(x); r = b64_of(y); if (rf64_isnan(r)) { r = F64_CANON; nd = 1; } }
        break;
    case 0xa0: case 0xa1: case 0xa2: case 0xa3:
        if (rf64_isnan(a64) || rf64_isnan(b64) || anynd) { r = F64_CANON; nd = 1; }
        else { volatile double x = f64_of(a64), y = f64_of(b64), z;
               z = op == 0xa0 ? x + y : op == 0xa1 ? x - y : op == 0xa2 ? x * y : x / y;
               r = b64_of(z); if (rf64_isnan(r)) { r = F64_CANON; nd = 1; } }
        break;
    case 0xa4: case 0xa5:
        if (rf64_isnan(a64) || rf64_isnan(b64) || anynd) { r = F64_CANON; nd = 1; }
        else { const int less = key64(a64) < key64(b64); r = (op == 0xa4) ? (less ? a64 : b64) : (less ? b64 : a64); }
        break;
    case 0xa6: r = (a64 & 0x7fffffffffffffffull) | (b64 & 0x8000000000000000ull); nd = B.nd ? 2 : A.nd; break;
    /* conversions */
    case 0xa7: r = (uint32_t)a64; break;
    case 0xa8: case 0xa9: case 0xaa: case 0xab: case 0xae: case 0xaf: case 0xb0: case 0xb1: {
        const int from64 = (op == 0xaa || op == 0xab || op == 0xb0 || op == 0xb1);
        const int width = op >= 0xae ? 64 : 32;
        const int sgn = (op == 0xa8 || op == 0xaa || op == 0xae || op == 0xb0);
        int t; if (A.nd) return RT_INVALID_CONV;
        t = trunc_to_int(from64 ? a64 : a32, from64 ? 52 : 23, from64 ? 11 : 8, width, sgn, 0, &r);
        if (t) return t; break; }
    case 0xFC00: case 0xFC01: case 0xFC02: case 0xFC03: case 0xFC04: case 0xFC05: case 0xFC06: case 0xFC07: {
        const uint32_t s = op & 7; const int from64 = (s & 2) != 0; const int width = s < 4 ? 32 : 64; const int sgn = !(s & 1);
        if (A.nd) { r = 0; break; }
        (void)trunc_to_int(from64 ? a64 : a32, from64 ? 52 : 23, from64 ? 11 : 8, width, sgn, 1, &r); break; }
    case 0xac: r = neg32(a32) ? (0xffffffff00000000ull | a32) : a32; break;
    case 0xad: r = a32; break;
    case 0xb2: r = from_int(abs32(a32), neg32(a32), 23, 8); break;
    case 0xb3: r = from_int(a32, 0, 23, 8); break;
    case 0xb4: r = from_int(abs64(a64), neg64(a64), 23, 8); break;
    case 0xb5: r = from_int(a64, 0, 23, 8); break;
    case 0xb7: r = from_int(abs32(a32), neg32(a32), 52, 11); break;
    case 0xb8: r = from_int(a32, 0, 52, 11); break;
    case 0xb9: r = from_int(abs64(a64), neg64(a64), 52, 11); break;
    case 0xba: r = from_int(a64, 0, 52, 11); break;
    case 0xb6: if (rf64_isnan(a64) || A.nd) { r = F32_CANON; nd = 1; } else r = demote(a64); break;
    case 0xbb: if (rf32_isnan(a32) || A.nd) { r = F64_CANON; nd = 1; } else r = promote(a32); break;
    case 0xbc: r = a32; nd = A.nd ? 2 : 0; break;
    case 0xbd: r = a64; nd = A.nd ? 2 : 0; break;
    case 0xbe: r = a32; nd = 0; break;
    case 0xbf: r = a64; nd = 0; break;
    case 0xc0: r = (a32 & 0x80u) ? (a32 | 0xffffff00u) : (a32 & 0xffu); break;
    case 0xc1: r = (a32 & 0x8000u) ? (a32 | 0xffff0000u) : (a32 & 0xffffu); break;
    case 0xc2: r = (a64 & 0x80u) ? (a64 | 0xffffffffffffff00ull) : (a64 & 0xffu); break;
    case 0xc3: r = (a64 & 0x8000u) ? (a64 | 0xffffffffffff0000ull) : (a64 & 0xffffu); break;
    case 0xc4: r = (a64 & 0x80000000u) ? (a64 | 0xffffffff00000000ull) : (a64 & 0xffffffffu); break;
    default: return RT_UNSUPPORTED;
    }
    if (tr == VT_I32 || tr == VT_F32) r &= 0xffffffffull;
    *out = mk(tr, r, nd);
    return RT_NONE;
}
