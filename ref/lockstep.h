/* lockstep.h — differential driver toolkit.  Included by a generated driver.c AFTER the translated
 * module's header (module name is always "m": mInstance, mInstantiate, mFreeInstance).
 * Steps the implementation (translated C) and the reference (libwasmref on the same .wasm bytes)
 * in one process and compares value / trap kind / host-call trace (/ memory) for every call. */
#ifndef LOCKSTEP_H
#define LOCKSTEP_H
#include <setjmp.h>
#include <signal.h>
#include <stdio.h>
#include <stdlib.h>
#include <string.h>
#include <unistd.h>
#include <malloc.h>
/* embedder page cap of the reference: growth beyond it fails "for lack of resources" (the specification permits that).  A driver that makes the
   implementation's allocator fail above the same size (-Drealloc=ls_realloc, see checks/c05.py) sets it to a small number. */
#ifndef LS_PAGE_CAP
#define LS_PAGE_CAP 65535
#endif
#include "wasmref.h"

/* the harness' own allocations always use the real allocator: a check may rename realloc for the TRANSLATED code (-Drealloc=..., an allocator
   that refuses large requests), and that define is seen by this file too */
#ifdef realloc
#pragma push_macro("realloc")
#undef realloc
extern void *realloc(void *, size_t);
static void *ls_sys_realloc(void *p, size_t n) { return realloc(p, n); }
#pragma pop_macro("realloc")
#else
#define ls_sys_realloc realloc
#endif

typedef void (*ls_tramp)(void *fn, void *inst, const uint64_t *args, uint64_t *res);
typedef struct ls_func {
    const char *name;      /* export name in the module */
    void *fn;              /* implementation symbol m_<name> */
    ls_tramp tramp;
    int np; const char *ptypes; char rtype; /* 'i','I','f','F' or 'v' */
    int inputset;
    int direct_op;         /* >=0: single numeric opcode over the params: reference = refop_eval (fast path) */
} ls_func;

enum { LS_EXPLICIT = 0, LS_PRODUCT = 1, LS_RANGE32 = 2 };
typedef struct ls_alpha { int n; const uint64_t *v; } ls_alpha;
typedef struct ls_inputs { int kind; int n; const uint64_t *vecs; /* explicit: n vectors of np values */ int alpha[8]; /* product: alphabet per param */ } ls_inputs;

/* ---- host-call trace ---- */
#define LS_TRMAX 64
typedef struct ls_ev { int import; int nargs; uint64_t args[10]; int inst_ok; } ls_ev;
typedef struct ls_trace { int n; int overflow; ls_ev ev[LS_TRMAX]; } ls_trace;
static ls_trace ls_tr_ref, ls_tr_impl;
static mInstance ls_inst; static mInstance *ls_cur_inst = &ls_inst; static int ls_in_newchild;
static wr_module *ls_mod; static wr_instance *ls_ref;

static uint8_t ls_vt(char c) { return c == 'i' ? VT_I32 : c == 'I' ? VT_I64 : c == 'f' ? VT_F32 : VT_F64; }

/* identical host-function behaviour on both sides: result = first parameter of the result type, else 100+import */
static uint64_t ls_host_result(int import, const uint64_t *args, const char *ptypes, int np, char rtype) {
    int k; if (rtype == 'v') return 0;
    for (k = 0; k < np; k++) if (ptypes[k] == rtype) return args[k];
    if (rtype == 'i' || rtype == 'I') return (uint64_t)(100 + import);
    if (rtype == 'f') { float f = (float)(100 + import); uint32_t b; memcpy(&b, &f, 4); return b; }
    { double d = (double)(100 + import); uint64_t b; memcpy(&b, &d, 8); return b; }
}
static void ls_tr_push(ls_trace *t, int import, const uint64_t *args, int n, int inst_ok) {
    if (t->n >= LS_TRMAX) { t->overflow = 1; return; }
    t->ev[t->n].import = import; t->ev[t->n].nargs = n; t->ev[t->n].inst_ok = inst_ok;
    memcpy(t->ev[t->n].args, args, (size_t)(n > 10 ? 10 : n) * 8); t->n++;
}
/* implementation side: called by the generated definitions of the imported C symbols */
static uint64_t ls_host_impl(int import, void *inst, const uint64_t *args, const char *ptypes, int np, char rtype) {
    /* while <module>NewChild runs (ls_in_newchild), a start function must hand the CHILD to its imports: the child's address is not known
       to the harness yet, so "any instance but the one NewChild was called on" is what is checked (ls_cur_inst = that parent) */
    ls_tr_push(&ls_tr_impl, import, args, np, ls_in_newchild ? inst != (void *)ls_cur_inst : inst == (void *)ls_cur_inst);
    return ls_host_result(import, args, ptypes, np, rtype);
}
/* reference side */
static int ls_host_ref(void *ctx, wr_instance *in, uint32_t import, const rval *args, uint32_t nargs, rval *res) {
    uint64_t a[10]; char pt[11]; uint32_t k; const wr_functype *ft = wr_functype_of(in->m, import); char rt = 'v';
    (void)ctx;
    for (k = 0; k < nargs && k < 10; k++) { a[k] = args[k].bits; pt[k] = ft->params[k] == VT_I32 ? 'i' : ft->params[k] == VT_I64 ? 'I' : ft->params[k] == VT_F32 ? 'f' : 'F'; }
    if (ft->nr) rt = ft->results[0] == VT_I32 ? 'i' : ft->results[0] == VT_I64 ? 'I' : ft->results[0] == VT_F32 ? 'f' : 'F';
    ls_tr_push(&ls_tr_ref, (int)import, a, (int)(nargs > 10 ? 10 : nargs), 1);
    res->bits = ls_host_result((int)import, a, pt, (int)(nargs > 10 ? 10 : nargs), rt); res->nd = 0;
    return RT_NONE;
}

/* ---- traps of the implementation ---- */
static jmp_buf ls_jb; static volatile int ls_in_impl;
void trap(Trap t) {
    int code = t == trapUnreachable ? RT_UNREACHABLE : t == trapDivByZero ? RT_DIV_ZERO : t == trapIntOverflow ? RT_INT_OVERFLOW
             : t == trapInvalidConversion ? RT_INVALID_CONV : 100 + (int)t;
    if (!ls_in_impl) { printf("ERROR trap outside implementation call\n"); fflush(stdout); _exit(4); }
    longjmp(ls_jb, code);
}

/* ---- crash / hang attribution ---- */
static volatile int ls_cur_func = -1; static volatile uint64_t ls_cur_args[8]; static volatile int ls_cur_np;
static void ls_fatal(int sig) {
    char buf[400]; int n, k;
    n = snprintf(buf, sizeof buf, "CRASH f=%d signal=%d in=", ls_cur_func, sig);
    for (k = 0; k < ls_cur_np && k < 8; k++) n += snprintf(buf + n, sizeof buf - (size_t)n, "%s%llx", k ? "," : "", (unsigned long long)ls_cur_args[k]);
    n += snprintf(buf + n, sizeof buf - (size_t)n, "\n");
    if (write(1, buf, (size_t)n) < 0) {}
    _exit(3);
}

/* ---- statistics ---- */
static unsigned long long ls_evals, ls_skipped, ls_weak, ls_mismatches, ls_traps;
static int ls_last_skipped, ls_last_mismatch;
static int ls_compare_mem_flag;
static const char *ls_compare_memory(void);
static int ls_nontrivial;
static int ls_max_report = 40;

static void ls_print_args(const uint64_t *a, int np) { int k; for (k = 0; k < np; k++) printf("%s%llx", k ? "," : "", (unsigned long long)a[k]); if (!np) printf("-"); }

static int ls_is_nan(char t, uint64_t b) { return t == 'f' ? rf32_isnan((uint32_t)b) : t == 'F' ? rf64_isnan(b) : 0; }

/* one lockstep call; returns outcome hash of the reference (for non-triviality counting) */
static uint64_t ls_step(const ls_func *f, int fidx, uint32_t ref_index, const uint64_t *args) {
    rval ra[8], rr; int k, rt, it; uint64_t ir = 0; const char *what = NULL; uint64_t h;
    for (k = 0; k < f->np; k++) { ra[k].bits = args[k]; ra[k].type = ls_vt(f->ptypes[k]); ra[k].nd = 0; ls_cur_args[k] = args[k]; }
    ls_cur_func = fidx; ls_cur_np = f->np;
    memset(&rr, 0, sizeof rr); ls_tr_ref.n = 0; ls_tr_ref.overflow = 0; ls_ref->tainted = 0;
    if (f->direct_op >= 0) { rval z; memset(&z, 0, sizeof z); rt = refop_eval((uint32_t)f->direct_op, ra[0], f->np > 1 ? ra[1] : z, &rr); }
    else rt = wr_call(ls_ref, ref_index, ra, (uint32_t)f->np, &rr);
    ls_evals++;
    h = (uint64_t)rt * 1000003u + rr.bits * 31u + rr.nd + (uint64_t)ls_tr_ref.n * 7919u;
    for (k = 0; k < ls_tr_ref.n; k++) h = h * 1099511628211ull + ls_tr_ref.ev[k].args[0] + (uint64_t)ls_tr_ref.ev[k].import;
    if (rt == RT_FUEL || rt == RT_OOB || rt == RT_UNINIT_ELEM || rt == RT_SIG_MISMATCH || rt == RT_EXHAUSTED || rt == RT_UNALIGNED
        || rt == RT_UNSUPPORTED || rt == RT_WOULD_BLOCK || rt == RT_NOT_SHARED || ls_tr_ref.overflow) { ls_skipped++; ls_last_skipped = 1; ls_last_mismatch = 0; return h ^ 0x5555; }
    if (ls_ref->tainted) { ls_weak++; ls_last_skipped = 1; ls_last_mismatch = 0; return h; }
    if (rt) ls_traps++;
    /* implementation */
    ls_tr_impl.n = 0; ls_tr_impl.overflow = 0;
    ls_in_impl = 1;
    it = setjmp(ls_jb);
    if (it == 0) { f->tramp(f->fn, ls_cur_inst, args, &ir); }
    ls_in_impl = 0;
    if (it != rt) what = "trap";
    else if (!rt && f->rtype != 'v') {
        if (rr.nd == 0) { if (ir != rr.bits) what = "value"; }
        else if (rr.nd == 1) { if (!ls_is_nan(f->rtype, ir)) what = "value(NaN expected)"; }
        else ls_weak++;
    }
    if (!what) {
        if (ls_tr_impl.n != ls_tr_ref.n) what = "trace-length";
        else for (k = 0; k < ls_tr_ref.n; k++) {
            const ls_ev *a = &ls_tr_ref.ev[k], *b = &ls_tr_impl.ev[k];
            if (a->import != b->import || a->nargs != b->nargs || memcmp(a->args, b->args, (size_t)a->nargs * 8) != 0) { what = "trace"; break; }
            if (!b->inst_ok) { what = "trace-instance"; break; }
        }
    }
    if (!what && ls_compare_mem_flag) what = ls_compare_memory();
    if (what) {
        ls_mismatches++;
        if (ls_mismatches <= (unsigned long long)ls_max_report && !ls_compare_mem_flag) {
            /* replay before report: the implementation must give the same answer twice */
            uint64_t ir2 = 0; int it2;
            ls_tr_impl.n = 0; ls_in_impl = 1; it2 = setjmp(ls_jb); if (it2 == 0) f->tramp(f->fn, ls_cur_inst, args, &ir2); ls_in_impl = 0;
            printf("MISMATCH f=%d name=%s what=%s in=", fidx, f->name, what); ls_print_args(args, f->np);
            printf(" exp=%s:%llx:nd%d got=%s:%llx ntrace=%d/%d%s\n", wr_trap_name(rt), (unsigned long long)rr.bits, rr.nd,
                   it >= 100 ? "other-trap" : wr_trap_name(it), (unsigned long long)ir, ls_tr_ref.n, ls_tr_impl.n,
                   (it2 != it || ir2 != ir) ? " FLAKY" : "");
        } else if (ls_mismatches <= (unsigned long long)ls_max_report) {
            /* stateful: no second execution (it would change the state); replay happens from a fresh instance */
            printf("MISMATCH f=%d name=%s what=%s in=", fidx, f->name, what); ls_print_args(args, f->np);
            printf(" exp=%s:%llx:nd%d got=%s:%llx ntrace=%d/%d\n", wr_trap_name(rt), (unsigned long long)rr.bits, rr.nd,
                   it >= 100 ? "other-trap" : wr_trap_name(it), (unsigned long long)ir, ls_tr_ref.n, ls_tr_impl.n);
        }
    }
    ls_last_skipped = 0; ls_last_mismatch = what != NULL;
    return h;
}

/* host calls made during instantiation (start function): same calls, same order, same arguments, right instance */
static void ls_compare_init_traces(const char *what) {
    int k, bad = ls_tr_impl.n != ls_tr_ref.n;
    for (k = 0; !bad && k < ls_tr_ref.n; k++) {
        const ls_ev *a = &ls_tr_ref.ev[k], *b = &ls_tr_impl.ev[k];
        if (a->import != b->import || a->nargs != b->nargs || memcmp(a->args, b->args, (size_t)a->nargs * 8) != 0 || !b->inst_ok) bad = 1;
    }
    if (bad) { ls_mismatches++; printf("MISMATCH f=-1 name=%s what=start-trace in=- exp=none:%llx:nd0 got=none:%llx ntrace=%d/%d\n", what,
                                       (unsigned long long)(ls_tr_ref.n ? ls_tr_ref.ev[0].args[0] : 0), (unsigned long long)(ls_tr_impl.n ? ls_tr_impl.ev[0].args[0] : 0), ls_tr_ref.n, ls_tr_impl.n); }
    ls_tr_ref.n = ls_tr_impl.n = 0;
}

static uint8_t *ls_slurp(const char *p, size_t *n) {
    FILE *f = fopen(p, "rb"); uint8_t *b; long sz;
    if (!f) return NULL; fseek(f, 0, SEEK_END); sz = ftell(f); fseek(f, 0, SEEK_SET);
    b = (uint8_t *)malloc((size_t)sz + 1); if (fread(b, 1, (size_t)sz, f) != (size_t)sz) { fclose(f); return NULL; }
    fclose(f); *n = (size_t)sz; return b;
}

static void *ls_resolve_default(const char *module, const char *name) { (void)module; (void)name; return NULL; }

static int ls_init(const char *wasm_path, void *(*resolve)(const char *, const char *), const wr_env *envin) {
    size_t n; uint8_t *b = ls_slurp(wasm_path, &n); char err[128]; wr_env env;
    struct sigaction sa;
    if (!b) { printf("ERROR cannot read %s\n", wasm_path); return 0; }
    /* environment: memory handed out by malloc/realloc is never zero by accident (glibc fills it with a pattern), freed memory is overwritten:
       code that relies on fresh heap memory being zero, or reads freed memory, shows up deterministically.  calloc still zeroes. */
    mallopt(M_PERTURB, 0x5A);
    ls_mod = wr_load(b, n, err, sizeof err); free(b);
    if (!ls_mod) { printf("ERROR reference cannot load module: %s\n", err); return 0; }
    if (envin) env = *envin; else memset(&env, 0, sizeof env);
    if (!env.host_call) env.host_call = ls_host_ref;
    if (!env.fuel) env.fuel = 200000;
    if (!env.page_cap) env.page_cap = LS_PAGE_CAP; /* the runtime keeps the byte size in 32 bits: 65536 pages are a resource limit the spec permits */
    ls_tr_ref.n = 0;
    ls_ref = wr_instantiate(ls_mod, &env);
    if (ls_ref->start_trap) { printf("ERROR reference instantiation trapped: %s\n", wr_trap_name(ls_ref->start_trap)); return 0; }
    memset(&sa, 0, sizeof sa); sa.sa_handler = ls_fatal;
    sigaction(SIGSEGV, &sa, NULL); sigaction(SIGBUS, &sa, NULL); sigaction(SIGFPE, &sa, NULL); sigaction(SIGALRM, &sa, NULL); sigaction(SIGILL, &sa, NULL); sigaction(SIGABRT, &sa, NULL);
    ls_in_impl = 1;
    ls_tr_impl.n = 0; ls_cur_inst = &ls_inst;
    /* environment: the storage handed to <module>Instantiate is not zeroed (a reused, malloc'ed or stack-allocated instance struct) */
    memset(&ls_inst, 0xA5, sizeof ls_inst);
    if (setjmp(ls_jb) == 0) mInstantiate(&ls_inst, resolve ? resolve : ls_resolve_default);
    else { printf("ERROR implementation trapped during instantiation\n"); return 0; }
    ls_in_impl = 0;
    ls_compare_init_traces("instantiate");
    return 1;
}

/* ---- memory comparison (define LS_IMPL_MEM as the implementation's wasmMemory* before including this header) ---- */
#ifdef LS_IMPL_MEM
static const char *ls_compare_memory(void) {
    wasmMemory *im = LS_IMPL_MEM; wr_memory *rm = ls_ref->mems[0]; static char buf[160];
    if (im->pages != rm->pages) { snprintf(buf, sizeof buf, "memory-pages(impl=%u,ref=%u)", im->pages, rm->pages); return buf; }
    if (!im->shared && im->size != rm->pages * 65536u) { snprintf(buf, sizeof buf, "memory-size-field(impl=%u,pages=%u)", im->size, im->pages); return buf; }
    if (rm->pages && memcmp(im->data, rm->data, (size_t)rm->pages * 65536u) != 0) {
        size_t k, n = (size_t)rm->pages * 65536u; for (k = 0; k < n; k++) if (im->data[k] != rm->data[k]) break;
        snprintf(buf, sizeof buf, "memory-byte@%zu(impl=%02x,ref=%02x)", k, im->data[k], rm->data[k]); return buf; }
    return NULL;
}
#else
static const char *ls_compare_memory(void) { return NULL; }
#endif

/* optional embedder answers for imported tables/memories/globals, set by the generated main */
static void *(*ls_user_resolve)(const char *, const char *);
static const wr_env *ls_user_env;

/* standard loop for pure functions */
static int ls_main_pure(int argc, char **argv, const ls_func *funcs, int nfuncs, const ls_inputs *sets, const ls_alpha *alphas) {
    int fi; uint64_t lo = 0, hi = 0x100000000ull; unsigned secs = 600;
    if (argc < 2) { printf("ERROR usage: driver m.wasm [lo hi] [timeout]\n"); return 2; }
    if (argc >= 4) { lo = strtoull(argv[2], NULL, 0); hi = strtoull(argv[3], NULL, 0); }
    if (argc >= 5) secs = (unsigned)atoi(argv[4]);
    if (!ls_init(argv[1], ls_user_resolve, ls_user_env)) return 2;
    alarm(secs);
    for (fi = 0; fi < nfuncs; fi++) {
        const ls_func *f = &funcs[fi]; const ls_inputs *s = &sets[f->inputset]; uint32_t ridx = 0; uint64_t h0 = 0; int varied = 0; uint64_t count = 0;
        if (f->direct_op < 0 && !wr_find_export(ls_mod, f->name, 0, &ridx)) { printf("ERROR no export %s in reference\n", f->name); return 2; }
        if (s->kind == LS_EXPLICIT) {
            int v; for (v = 0; v < s->n; v++) { uint64_t h = ls_step(f, fi, ridx, s->vecs + (size_t)v * (size_t)(f->np ? f->np : 1)); if (count++ == 0) h0 = h; else if (h != h0) varied = 1; }
        } else if (s->kind == LS_PRODUCT) {
            int idx[8] = {0}; uint64_t a[8]; int k, done = 0;
            while (!done) {
                uint64_t h;
                for (k = 0; k < f->np; k++) a[k] = alphas[s->alpha[k]].v[idx[k]];
                h = ls_step(f, fi, ridx, a); if (count++ == 0) h0 = h; else if (h != h0) varied = 1;
                for (k = f->np - 1; k >= 0; k--) { if (++idx[k] < alphas[s->alpha[k]].n) break; idx[k] = 0; }
                if (k < 0) done = 1;
            }
        } else {
            uint64_t x; for (x = lo; x < hi; x++) { uint64_t a[1]; uint64_t h; a[0] = x; h = ls_step(f, fi, ridx, a); if (count++ == 0) h0 = h; else if (h != h0) varied = 1; }
        }
        if (varied) ls_nontrivial++;
    }
    alarm(0);
    printf("DONE evals=%llu nontrivial=%d funcs=%d skipped=%llu weak=%llu traps=%llu mismatches=%llu\n", ls_evals, ls_nontrivial, nfuncs, ls_skipped, ls_weak, ls_traps, ls_mismatches);
    return ls_mismatches ? 1 : 0;
}

/* ---- explicit-state BFS over operation histories on one live instance (C05, C06) ----
 * A state is the history that reaches it (live objects are not copied: every extension re-executes the history on a
 * fresh implementation instance AND a fresh reference instance); states are deduplicated by a hash of the
 * property-observable state of the REFERENCE (pages + all memory bytes + extra flags); the implementation is compared
 * with the reference after every transition (result, trap, memory). */
typedef struct ls_op { int func; uint64_t args[4]; int flag; /* bit OR-ed into the state's flag word when executed */ } ls_op;
#define LS_MAXDEPTH 8
typedef struct ls_hist { unsigned char n; unsigned short op[LS_MAXDEPTH]; } ls_hist;

static uint64_t ls_state_hash(unsigned flags) {
    wr_memory *rm = ls_ref->mems[0]; uint64_t h = 1469598103934665603ull ^ rm->pages ^ ((uint64_t)flags << 40);
    size_t n = (size_t)rm->pages * 65536u / 8, k; const uint64_t *p = (const uint64_t *)(const void *)rm->data;
    h *= 1099511628211ull;
    for (k = 0; k < n; k++) { uint64_t v = p[k]; if (v) { h ^= v + k; h *= 1099511628211ull; h ^= h >> 29; } }
    return h;
}
static void ls_fresh(const wr_env *env) {
    wr_env e; if (env) e = *env; else memset(&e, 0, sizeof e);
    if (!e.host_call) e.host_call = ls_host_ref; if (!e.fuel) e.fuel = 200000; if (!e.page_cap) e.page_cap = LS_PAGE_CAP;
    wr_free_instance(ls_ref); ls_ref = wr_instantiate(ls_mod, &e);
    mFreeInstance(&ls_inst); memset(&ls_inst, 0, sizeof ls_inst);
    memset(&ls_inst, 0xA5, sizeof ls_inst);
    ls_in_impl = 1; if (setjmp(ls_jb) == 0) mInstantiate(&ls_inst, ls_user_resolve ? ls_user_resolve : ls_resolve_default); ls_in_impl = 0;
}
static int ls_main_bfs(int argc, char **argv, const ls_func *funcs, int nfuncs, const ls_op *ops, int nops, int maxdepth, unsigned long long budget) {
    ls_hist *front, *next; size_t nfront = 1, nnext = 0, capnext = 1024; uint64_t *seen; size_t seencap = 1 << 16, nseen = 0;
    unsigned long long transitions = 0, states = 1; int depth, completed = 0; uint32_t *ridx; int k; unsigned secs = 1200;
    unsigned long long *opout = (unsigned long long *)calloc((size_t)nops * 8, sizeof *opout); /* up to 8 distinct outcome hashes per op */
    (void)nfuncs;
    if (argc < 2) { printf("ERROR usage\n"); return 2; }
    /* fresh instances are created per transition: keep 64 KiB..MiB blocks on the heap instead of mmap/munmap per block */
    mallopt(M_MMAP_THRESHOLD, 1 << 30); mallopt(M_TRIM_THRESHOLD, 1 << 30);
    if (argc >= 3) maxdepth = atoi(argv[2]);
    if (argc >= 4) secs = (unsigned)atoi(argv[3]);
    if (!ls_init(argv[1], ls_user_resolve, ls_user_env)) return 2;
    ls_compare_mem_flag = 1;
    ridx = (uint32_t *)calloc((size_t)nfuncs, sizeof *ridx);
    for (k = 0; k < nfuncs; k++) if (!wr_find_export(ls_mod, funcs[k].name, 0, &ridx[k])) { printf("ERROR no export %s\n", funcs[k].name); return 2; }
    seen = (uint64_t *)calloc(seencap, 8);
    front = (ls_hist *)calloc(1, sizeof *front); next = (ls_hist *)malloc(capnext * sizeof *next);
    { uint64_t h = ls_state_hash(0) | 1; seen[h & (seencap - 1)] = h; nseen = 1; }
    alarm(secs);
    for (depth = 0; depth < maxdepth; depth++) {
        size_t fi;
        nnext = 0;
        for (fi = 0; fi < nfront; fi++) {
            int oi;
            for (oi = 0; oi < nops; oi++) {
                unsigned flags = 0; int j, dead = 0; uint64_t oh;
                if (transitions >= budget) goto capped;
                ls_fresh(ls_user_env);
                ls_compare_mem_flag = 0; /* the prefix was compared when it was first explored */
                for (j = 0; j < front[fi].n; j++) { const ls_op *o = &ops[front[fi].op[j]]; ls_step(&funcs[o->func], o->func, ridx[o->func], o->args); flags |= (unsigned)o->flag; }
                ls_compare_mem_flag = 1;
                { const ls_op *o = &ops[oi]; unsigned long long mm = ls_mismatches;
                  oh = ls_step(&funcs[o->func], o->func, ridx[o->func], o->args); transitions++; flags |= (unsigned)o->flag;
                  if (ls_last_skipped) dead = 1; /* precondition violated (out of bounds): not a transition */
                  if (ls_mismatches != mm) { dead = 1; if (ls_mismatches <= (unsigned long long)ls_max_report) { printf("HISTORY"); for (j = 0; j < front[fi].n; j++) printf(" %d", front[fi].op[j]); printf(" %d\n", oi); } } }
                if (dead) continue;
                { int q; for (q = 0; q < 8; q++) { if (opout[oi * 8 + q] == (oh | 1)) break; if (!opout[oi * 8 + q]) { opout[oi * 8 + q] = oh | 1; break; } } }
                { uint64_t h = ls_state_hash(flags) | 1; size_t pos = h & (seencap - 1); int found = 0;
                  while (seen[pos]) { if (seen[pos] == h) { found = 1; break; } pos = (pos + 1) & (seencap - 1); }
                  if (found) continue;
                  seen[pos] = h; nseen++; states++;
                  if (nseen * 2 > seencap) { uint64_t *ns = (uint64_t *)calloc(seencap * 2, 8); size_t q; for (q = 0; q < seencap; q++) if (seen[q]) { size_t p2 = seen[q] & (seencap * 2 - 1); while (ns[p2]) p2 = (p2 + 1) & (seencap * 2 - 1); ns[p2] = seen[q]; } free(seen); seen = ns; seencap *= 2; }
                  if (nnext == capnext) { capnext *= 2; next = (ls_hist *)ls_sys_realloc(next, capnext * sizeof *next); if (!next) { printf("ERROR harness out of memory\n"); exit(2); } }
                  next[nnext] = front[fi]; next[nnext].op[next[nnext].n++] = (unsigned short)oi; nnext++; }
            }
        }
        completed = depth + 1;
        free(front); front = next; nfront = nnext; capnext = 1024; next = (ls_hist *)malloc(capnext * sizeof *next);
        if (nfront == 0) break;
    }
capped:
    alarm(0);
    { int oi, single = 0, dist = 0; for (oi = 0; oi < nops; oi++) { int q, c = 0; for (q = 0; q < 8; q++) if (opout[oi * 8 + q]) c++; dist += c; if (c <= 1) single++; }
      printf("BFSDONE states=%llu transitions=%llu depth_completed=%d capped=%d ops=%d op_outcomes=%d ops_single_outcome=%d\n", states, transitions, completed, completed < maxdepth && nfront != 0, nops, dist, single); }
    printf("DONE evals=%llu nontrivial=%d funcs=%d skipped=%llu weak=%llu traps=%llu mismatches=%llu\n", ls_evals, (int)states, nfuncs, ls_skipped, ls_weak, ls_traps, ls_mismatches);
    return ls_mismatches ? 1 : 0;
}

/* ---- all operation sequences up to a length over TWO live instances of the module (C06) ----
 * op.inst: 0 = instance A, 1 = instance B, 2 = "Instantiate B now".  Operations on B before it exists prune the
 * sequence.  Every sequence runs on fresh instances; after every operation result/trap/trace (and memory, if
 * LS_IMPL_MEM is defined) of the touched instance are compared with the reference, which keeps two separate
 * instances: any state shared between the implementation's instances shows up as a mismatch. */
typedef struct ls_op2 { int func; uint64_t args[4]; int inst; } ls_op2;
#ifdef LS_NEWCHILD
mInstance* mNewChild(mInstance* self);
#endif
static void (*ls_env_reset)(void); /* re-creates embedder-provided objects (imported memory/table/global) on both sides */
static int ls_main_seq2(int argc, char **argv, const ls_func *funcs, int nfuncs, const ls_op2 *ops, int nops, int maxlen) {
    static mInstance instB; mInstance *pB = &instB; wr_instance *refA = NULL, *refB = NULL; uint32_t *ridx; int k; unsigned long long nseq = 0, steps = 0; unsigned secs = 1200;
    int idx[LS_MAXDEPTH]; int len;
    if (argc < 2) { printf("ERROR usage\n"); return 2; }
    if (argc >= 3) maxlen = atoi(argv[2]);
    if (argc >= 4) secs = (unsigned)atoi(argv[3]);
    mallopt(M_MMAP_THRESHOLD, 1 << 30); mallopt(M_TRIM_THRESHOLD, 1 << 30);
    if (ls_env_reset) ls_env_reset();
    if (!ls_init(argv[1], ls_user_resolve, ls_user_env)) return 2;
    ridx = (uint32_t *)calloc((size_t)nfuncs, sizeof *ridx);
    for (k = 0; k < nfuncs; k++) if (!wr_find_export(ls_mod, funcs[k].name, 0, &ridx[k])) { printf("ERROR no export %s\n", funcs[k].name); return 2; }
#ifdef LS_IMPL_MEM
    ls_compare_mem_flag = 1;
#endif
    alarm(secs);
    for (len = 1; len <= maxlen; len++) {
        int done = 0; for (k = 0; k < len; k++) idx[k] = 0;
        while (!done) {
            int j, haveB = 0, pruned = 0; unsigned long long mm = ls_mismatches;
            /* static pruning: B used before it exists, or instantiated twice */
            for (j = 0; j < len; j++) { const ls_op2 *o = &ops[idx[j]]; if (o->inst >= 2) { if (haveB) pruned = 1; haveB = 1; } else if (o->inst == 1 && !haveB) pruned = 1; }
            if (!pruned) {
                wr_env e; if (ls_user_env) e = *ls_user_env; else memset(&e, 0, sizeof e);
                if (!e.host_call) e.host_call = ls_host_ref; if (!e.fuel) e.fuel = 200000; if (!e.page_cap) e.page_cap = LS_PAGE_CAP;
                wr_free_instance(refA); mFreeInstance(&ls_inst);
                if (refB) { wr_free_instance(refB); refB = NULL; mFreeInstance(pB); if (pB != &instB) { free(pB); pB = &instB; } }
                if (ls_env_reset) ls_env_reset();
                ls_tr_ref.n = 0; refA = wr_instantiate(ls_mod, &e);
                memset(&ls_inst, 0, sizeof ls_inst); ls_cur_inst = &ls_inst; ls_tr_impl.n = 0;
                memset(&ls_inst, 0xA5, sizeof ls_inst);
    ls_in_impl = 1; if (setjmp(ls_jb) == 0) mInstantiate(&ls_inst, ls_user_resolve ? ls_user_resolve : ls_resolve_default); ls_in_impl = 0;
                ls_ref = refA; ls_compare_init_traces("instantiate-A");
                haveB = 0; nseq++;
                for (j = 0; j < len && ls_mismatches == mm; j++) {
                    const ls_op2 *o = &ops[idx[j]];
                    if (o->inst == 2) {
                        ls_tr_ref.n = 0; refB = wr_instantiate(ls_mod, &e);
                        memset(&instB, 0, sizeof instB); pB = &instB; ls_cur_inst = &instB; ls_tr_impl.n = 0;
                        memset(&instB, 0x5A, sizeof instB);
                        ls_in_impl = 1; if (setjmp(ls_jb) == 0) mInstantiate(&instB, ls_user_resolve ? ls_user_resolve : ls_resolve_default); ls_in_impl = 0;
                        ls_ref = refB; ls_compare_init_traces("instantiate-B"); haveB = 1; steps++;
                        continue;
                    }
#ifdef LS_NEWCHILD
                    if (o->inst == 3 || o->inst == 4) {
                        /* B = <module>NewChild(A): used for modules without start, tables and shared memories, where a child is
                           specified to be a fresh instance of its own (the reference simply instantiates a second instance) */
                        ls_tr_ref.n = 0; refB = wr_instantiate(ls_mod, &e);
                        ls_cur_inst = &ls_inst; ls_tr_impl.n = 0;
                        /* inst 4: a child of a child (second generation), as a thread spawned by a spawned thread gets */
                        ls_in_impl = 1; ls_in_newchild = 1;
                        if (setjmp(ls_jb) == 0) {
                            pB = mNewChild(&ls_inst);
                            if (pB && o->inst == 4) {
                                /* the first-generation child ran the start function once: same trace as the reference's instantiation; then the
                                   second generation runs it again */
                                int keep = ls_tr_ref.n; ls_compare_init_traces("newchild-B-first-generation"); ls_tr_ref.n = keep;
                                ls_cur_inst = pB; pB = mNewChild(pB);
                            }
                        }
                        ls_in_impl = 0; ls_in_newchild = 0;
                        if (!pB) { pB = &instB; printf("ERROR NewChild returned NULL\n"); return 2; }
                        ls_cur_inst = pB; ls_ref = refB; ls_compare_init_traces("newchild-B"); haveB = 1; steps++;
                        continue;
                    }
#endif
                    ls_cur_inst = o->inst ? pB : &ls_inst; ls_ref = o->inst ? refB : refA;
                    ls_step(&funcs[o->func], o->func, ridx[o->func], o->args); steps++;
                }
                if (ls_mismatches != mm && ls_mismatches <= (unsigned long long)ls_max_report) { printf("HISTORY"); for (j = 0; j < len; j++) printf(" %d", idx[j]); printf("\n"); }
                ls_cur_inst = &ls_inst; ls_ref = refA;
            }
            for (k = len - 1; k >= 0; k--) { if (++idx[k] < nops) break; idx[k] = 0; }
            if (k < 0) done = 1;
        }
    }
    alarm(0);
    printf("BFSDONE states=%llu transitions=%llu depth_completed=%d capped=0 ops=%d op_outcomes=0 ops_single_outcome=0\n", nseq, steps, maxlen, nops);
    printf("DONE evals=%llu nontrivial=%d funcs=%d skipped=%llu weak=%llu traps=%llu mismatches=%llu\n", ls_evals, (int)nseq, nfuncs, ls_skipped, ls_weak, ls_traps, ls_mismatches);
    return ls_mismatches ? 1 : 0;
}

static float ls_f32(uint64_t b) { uint32_t x = (uint32_t)b; float f; memcpy(&f, &x, 4); return f; }
static double ls_f64(uint64_t b) { double f; memcpy(&f, &b, 8); return f; }
static uint64_t ls_b32(float f) { uint32_t x; memcpy(&x, &f, 4); return x; }
static uint64_t ls_b64(double f) { uint64_t x; memcpy(&x, &f, 8); return x; }

#endif
